//go:build verif

package d2

// In-package export file for the verif harness. Added with `go build -overlay`; it never
// exists in the real tree. It only forwards to unexported functions and gives access to
// unexported state; it contains no logic of its own.

import (
	"math/rand"
	"net/url"
)

type VerifServiceUris = serviceUris

func VerifNewServiceUris(zkPath string) *serviceUris {
	return &serviceUris{zkPath: zkPath, uris: make(map[string]*Uri)}
}

func (uris *serviceUris) VerifUris() map[string]*Uri { return uris.uris }
func (uris *serviceUris) VerifZkPath() string        { return uris.zkPath }
func (uris *serviceUris) VerifChooseHost(prioritizedSchemes []string) *url.URL {
	return uris.chooseHost(prioritizedSchemes)
}

func (c *Client) VerifHandleUriUpdate(w *serviceUris, e TreeCacheEvent) *serviceUris {
	return c.handleUriUpdate(w, e)
}

func (c *Client) VerifHandleServiceUpdate(name string, e TreeCacheEvent) *Service {
	return c.handleServiceUpdate(name, e)
}

// VerifDeliverUriEvent pushes one event through the real waitForUriUpdates loop.
func (c *Client) VerifDeliverUriEvent(cluster string, e TreeCacheEvent) {
	ch := make(chan TreeCacheEvent, 1)
	ch <- e
	close(ch)
	c.waitForUriUpdates(cluster, ch)
}

// VerifDeliverUriEvents pushes several events through ONE run of the real waitForUriUpdates loop (one
// TreeCache channel, as in production).
func (c *Client) VerifDeliverUriEvents(cluster string, es []TreeCacheEvent) {
	ch := make(chan TreeCacheEvent, len(es))
	for _, e := range es {
		ch <- e
	}
	close(ch)
	c.waitForUriUpdates(cluster, ch)
}

// VerifDeliverServiceEvent pushes one event through the real waitForServiceUpdates loop.
func (c *Client) VerifDeliverServiceEvent(service string, e TreeCacheEvent) {
	ch := make(chan TreeCacheEvent, 1)
	ch <- e
	close(ch)
	c.waitForServiceUpdates(service, ch)
}

func (c *Client) VerifSeedService(name string, s *Service)     { c.services.Store(name, s) }
func (c *Client) VerifSeedUris(cluster string, u *serviceUris) { c.uris.Store(cluster, u) }
func (c *Client) VerifCurrentUris(cluster string) *serviceUris {
	v, ok := c.uris.Load(cluster)
	if !ok {
		return nil
	}
	u, _ := v.(*serviceUris)
	return u
}
func (c *Client) VerifCurrentService(name string) *Service {
	v, ok := c.services.Load(name)
	if !ok {
		return nil
	}
	s, _ := v.(*Service)
	return s
}

// VerifSetRngSource replaces the package-level random source (the environment answer).
func VerifSetRngSource(src rand.Source) { rng = rand.New(src) }
func VerifRngFloat64() float64          { return rng.Float64() }
