//go:build verif

// Package verifsync is a drop-in subset of package sync whose every operation is a
// scheduling point of the verif explorer. It is injected with `go build -overlay` in place
// of "sync" in the files under test; it never exists in the real tree.
//
// The shim is NOT safe for free-running goroutines: it relies on the cooperative scheduler
// running exactly one thread at a time. Blocking operations are modelled as blocking
// (the thread is disabled until its predicate holds), never as spinning.
package verifsync

import (
	"fmt"
	"sort"
	"strings"
)

// Hooks are set by the harness (to verif/mc/sched functions). Nil hooks make every
// operation a plain sequential one.
var (
	PointHook   func(label string)
	BlockHook   func(label string, pred func() bool)
	ObserveHook func(s string)
	CurHook     func() int
	// Fmt renders a stored value canonically for state keys and observations.
	Fmt func(v interface{}) string = func(v interface{}) string { return fmt.Sprintf("%+v", v) }
)

func point(l string) {
	if PointHook != nil {
		PointHook(l)
	}
}
func block(l string, p func() bool) {
	if BlockHook != nil {
		BlockHook(l, p)
	} else if !p() {
		panic("verifsync: would block forever at " + l)
	}
}
func observe(s string) {
	if ObserveHook != nil {
		ObserveHook(s)
	}
}
func cur() int {
	if CurHook != nil {
		return CurHook()
	}
	return -1
}

// ---- Map ----

type Map struct {
	m map[interface{}]interface{}
}

func (m *Map) init() {
	if m.m == nil {
		m.m = map[interface{}]interface{}{}
	}
}

func (m *Map) Load(key interface{}) (value interface{}, ok bool) {
	point(fmt.Sprintf("Map.Load(%v)", key))
	m.init()
	value, ok = m.m[key]
	observe(fmt.Sprintf("L:%v:%s:%v", key, Fmt(value), ok))
	return
}

func (m *Map) Store(key, value interface{}) {
	point(fmt.Sprintf("Map.Store(%v)", key))
	m.init()
	m.m[key] = value
}

func (m *Map) LoadOrStore(key, value interface{}) (actual interface{}, loaded bool) {
	point(fmt.Sprintf("Map.LoadOrStore(%v)", key))
	m.init()
	if v, ok := m.m[key]; ok {
		observe(fmt.Sprintf("LOS:%v:%s:true", key, Fmt(v)))
		return v, true
	}
	m.m[key] = value
	observe(fmt.Sprintf("LOS:%v:stored", key))
	return value, false
}

// Swap, CompareAndSwap, CompareAndDelete: the rest of sync.Map's API (each one atomic step).
func (m *Map) Swap(key, value interface{}) (previous interface{}, loaded bool) {
	point(fmt.Sprintf("Map.Swap(%v)", key))
	m.init()
	previous, loaded = m.m[key]
	m.m[key] = value
	observe(fmt.Sprintf("SWAP:%v:%s:%v", key, Fmt(previous), loaded))
	return
}

func (m *Map) CompareAndSwap(key, old, new interface{}) bool {
	point(fmt.Sprintf("Map.CompareAndSwap(%v)", key))
	m.init()
	cur, ok := m.m[key]
	swapped := ok && cur == old
	if swapped {
		m.m[key] = new
	}
	observe(fmt.Sprintf("CAS:%v:%v", key, swapped))
	return swapped
}

func (m *Map) CompareAndDelete(key, old interface{}) (deleted bool) {
	point(fmt.Sprintf("Map.CompareAndDelete(%v)", key))
	m.init()
	cur, ok := m.m[key]
	deleted = ok && cur == old
	if deleted {
		delete(m.m, key)
	}
	observe(fmt.Sprintf("CAD:%v:%v", key, deleted))
	return
}

func (m *Map) LoadAndDelete(key interface{}) (value interface{}, loaded bool) {
	point(fmt.Sprintf("Map.LoadAndDelete(%v)", key))
	m.init()
	value, loaded = m.m[key]
	delete(m.m, key)
	observe(fmt.Sprintf("LAD:%v:%s:%v", key, Fmt(value), loaded))
	return
}

func (m *Map) Delete(key interface{}) {
	point(fmt.Sprintf("Map.Delete(%v)", key))
	m.init()
	delete(m.m, key)
}

func (m *Map) Range(f func(key, value interface{}) bool) {
	point("Map.Range")
	m.init()
	keys := make([]interface{}, 0, len(m.m))
	for k := range m.m {
		keys = append(keys, k)
	}
	sort.Slice(keys, func(i, j int) bool { return fmt.Sprint(keys[i]) < fmt.Sprint(keys[j]) })
	for _, k := range keys {
		v, ok := m.m[k]
		if !ok {
			continue
		}
		if !f(k, v) {
			return
		}
	}
}

// Snapshot renders the map canonically (sorted by key).
func (m *Map) Snapshot() string {
	keys := make([]string, 0, len(m.m))
	byKey := map[string]interface{}{}
	for k, v := range m.m {
		s := fmt.Sprint(k)
		keys = append(keys, s)
		byKey[s] = v
	}
	sort.Strings(keys)
	var sb strings.Builder
	for _, k := range keys {
		sb.WriteString(k)
		sb.WriteByte('=')
		sb.WriteString(Fmt(byKey[k]))
		sb.WriteByte(';')
	}
	return sb.String()
}

// Peek reads without a scheduling point (harness use only).
func (m *Map) Peek(key interface{}) (interface{}, bool) {
	v, ok := m.m[key]
	return v, ok
}

// ---- WaitGroup ----

var wgSeq map[int]int

// ResetIDs must be called at the start of every execution.
func ResetIDs() {
	wgSeq = map[int]int{}
	// package-level pools of the code under test start every execution empty, as in a fresh process
	for _, p := range pools {
		p.items = nil
	}
}

var pools []*Pool

type WaitGroup struct {
	n  int
	id string
}

func (wg *WaitGroup) name() string {
	if wg.id == "" {
		if wgSeq == nil {
			wgSeq = map[int]int{}
		}
		c := cur()
		wg.id = fmt.Sprintf("wg.T%d#%d", c, wgSeq[c])
		wgSeq[c]++
	}
	return wg.id
}

func (wg *WaitGroup) Add(delta int) {
	// The first Add on a zero wait group is taken to be thread-local (the object is not yet
	// published): it names the group and is not a scheduling point. Every later Add is.
	fresh := wg.id == "" && wg.n == 0
	nm := wg.name()
	if !fresh {
		point("WaitGroup.Add(" + nm + ")")
	}
	wg.n += delta
	if wg.n < 0 {
		panic("sync: negative WaitGroup counter")
	}
}

func (wg *WaitGroup) Done() {
	point("WaitGroup.Done(" + wg.name() + ")")
	wg.n--
	if wg.n < 0 {
		panic("sync: negative WaitGroup counter")
	}
}

func (wg *WaitGroup) Wait() {
	block("WaitGroup.Wait("+wg.name()+")", func() bool { return wg.n == 0 })
	observe("W:" + wg.id)
}

// Count exposes the counter (harness use only).
func (wg *WaitGroup) Count() int { return wg.n }

// ---- Mutex / RWMutex / Once ----

type Locker interface {
	Lock()
	Unlock()
}

type Mutex struct {
	held bool
}

func (m *Mutex) Lock() {
	block("Mutex.Lock", func() bool { return !m.held })
	m.held = true
}
func (m *Mutex) TryLock() bool {
	point("Mutex.TryLock")
	if m.held {
		return false
	}
	m.held = true
	return true
}
func (m *Mutex) Unlock() {
	point("Mutex.Unlock")
	if !m.held {
		panic("sync: unlock of unlocked mutex")
	}
	m.held = false
}

type RWMutex struct {
	w bool
	r int
}

func (m *RWMutex) Lock() {
	block("RWMutex.Lock", func() bool { return !m.w && m.r == 0 })
	m.w = true
}
func (m *RWMutex) Unlock() {
	point("RWMutex.Unlock")
	if !m.w {
		panic("sync: Unlock of unlocked RWMutex")
	}
	m.w = false
}
func (m *RWMutex) RLock() {
	block("RWMutex.RLock", func() bool { return !m.w })
	m.r++
}
func (m *RWMutex) RUnlock() {
	point("RWMutex.RUnlock")
	if m.r <= 0 {
		panic("sync: RUnlock of unlocked RWMutex")
	}
	m.r--
}

type Once struct {
	state int // 0 idle, 1 running, 2 done
}

func (o *Once) Do(f func()) {
	point("Once.Do")
	if o.state == 2 {
		return
	}
	if o.state == 1 {
		block("Once.wait", func() bool { return o.state == 2 })
		return
	}
	o.state = 1
	defer func() { o.state = 2 }()
	f()
}

// ---- Pool ----

// Pool hands back the most recently Put item (the choice of sync.Pool that maximises reuse, hence
// aliasing between callers); Get and Put are scheduling points.
type Pool struct {
	New   func() interface{}
	items []interface{}
	known bool
}

func (p *Pool) register() {
	if !p.known {
		p.known = true
		pools = append(pools, p)
	}
}

func (p *Pool) Get() interface{} {
	p.register()
	point("Pool.Get")
	if n := len(p.items); n > 0 {
		x := p.items[n-1]
		p.items = p.items[:n-1]
		return x
	}
	if p.New != nil {
		return p.New()
	}
	return nil
}

func (p *Pool) Put(x interface{}) {
	p.register()
	point("Pool.Put")
	if x == nil {
		return
	}
	p.items = append(p.items, x)
}
