#!/usr/bin/env python3
"""Driver for the /verif checks: builds harnesses against /repo's working tree in a scratch
module, runs them sharded, merges their reports, applies known_findings.txt, writes
evidence/<id>.json and prints VIOLATION / KNOWN-FINDING lines."""
import json, os, re, shutil, subprocess, sys, tempfile, time, glob, fnmatch
from concurrent.futures import ThreadPoolExecutor

VERIF = os.path.dirname(os.path.dirname(os.path.abspath(__file__)))
REPO = os.environ.get("VERIF_REPO", "/repo")
NCPU = int(os.environ.get("VERIF_NCPU", str(os.cpu_count() or 4)))

GENS = {
    "v2": {"dir": os.path.join(REPO, "v2"), "mod": "github.com/PapaCharlie/go-restli/v2", "ver": "v2.0.0"},
    "root": {"dir": REPO, "mod": "github.com/PapaCharlie/go-restli", "ver": "v0.0.0"},
}


# Every check builds freshly generated code in a fresh scratch module, so nothing it compiles is ever
# reused by a later run: with the shared user-level build cache that is ~0.5 GB of dead entries per
# run (135 GB filled the disk once). Each Scratch therefore gets its own GOCACHE, seeded with hard
# links to a base cache (standard library + repository packages, built by ./setup) and deleted with
# the scratch directory.
GOCACHE_BASE = os.path.join(VERIF, ".work", "gocache-base")
CUR_GOCACHE = None


def goenv():
    e = dict(os.environ)
    e.update({"GOFLAGS": "-mod=mod", "GOPROXY": "off", "GOSUMDB": "off", "GOTOOLCHAIN": "local",
              "CGO_ENABLED": e.get("CGO_ENABLED", "0")})
    if CUR_GOCACHE and not os.environ.get("VERIF_SHARED_GOCACHE"):
        e["GOCACHE"] = CUR_GOCACHE
    return e


class Internal(Exception):
    pass


def run(cmd, cwd=None, env=None, timeout=None, check=True, capture=True):
    p = subprocess.run(cmd, cwd=cwd, env=env or goenv(), timeout=timeout,
                       stdout=subprocess.PIPE if capture else None,
                       stderr=subprocess.STDOUT if capture else None, text=True)
    if check and p.returncode != 0:
        raise Internal("command failed (%d): %s\n%s" % (p.returncode, " ".join(cmd), (p.stdout or "")[-6000:]))
    return p


class Scratch:
    def __init__(self, gocache=True):
        global CUR_GOCACHE
        base = os.environ.get("VERIF_SCRATCH_BASE", "/tmp")
        # scratch directories of runs that were killed (no chance to clean up) are removed after 12 hours
        for old in glob.glob(os.path.join(base, "verif-*")):
            try:
                if time.time() - os.path.getmtime(old) > 12 * 3600:
                    subprocess.run(["chmod", "-R", "u+w", old], stdout=subprocess.DEVNULL, stderr=subprocess.DEVNULL)
                    shutil.rmtree(old, ignore_errors=True)
            except OSError:
                pass
        self.dir = tempfile.mkdtemp(prefix="verif-", dir=base)
        if gocache:
            gc = os.path.join(self.dir, "gocache")
            if os.path.isdir(GOCACHE_BASE):
                # hard links: no copying, and the base is never modified (the cache only adds / renames files)
                p = subprocess.run(["cp", "-al", GOCACHE_BASE, gc], stdout=subprocess.DEVNULL, stderr=subprocess.DEVNULL)
                if p.returncode != 0:
                    shutil.rmtree(gc, ignore_errors=True)
                    os.makedirs(gc, exist_ok=True)
            else:
                os.makedirs(gc, exist_ok=True)
            CUR_GOCACHE = gc

    def close(self):
        # generated files may be read-only
        for root, dirs, files in os.walk(self.dir):
            for d in dirs:
                try:
                    os.chmod(os.path.join(root, d), 0o755)
                except OSError:
                    pass
        shutil.rmtree(self.dir, ignore_errors=True)

    def __enter__(self):
        return self

    def __exit__(self, *a):
        self.close()


def rewrite_for_gen(src, gen):
    """Harness sources are written against the v2 import paths; the root generation gets
    the import paths rewritten textually."""
    if gen == "v2":
        return src
    src = src.replace("github.com/PapaCharlie/go-restli/v2/restlidata/generated/com/linkedin/restli/common", "github.com/PapaCharlie/go-restli/restlidata")
    return src.replace("github.com/PapaCharlie/go-restli/v2/", "github.com/PapaCharlie/go-restli/") \
              .replace('"github.com/PapaCharlie/go-restli/v2"', '"github.com/PapaCharlie/go-restli"')


def make_module(scratch, gen, harness, name=None, extra_require=()):
    """Create scratch/<name>/ holding the harness sources for one generation."""
    g = GENS[gen]
    name = name or ("%s-%s" % (harness, gen))
    d = os.path.join(scratch.dir, name)
    os.makedirs(d, exist_ok=True)
    hdir = os.path.join(VERIF, "harness", harness)
    for f in sorted(os.listdir(hdir)):
        p = os.path.join(hdir, f)
        if os.path.isdir(p):
            continue
        # adapter_<gen>.go files are generation-specific
        m = re.match(r"(.*)_gen(v2|root)\.go$", f)
        if m and m.group(2) != gen:
            continue
        if f.endswith(".go"):
            with open(p) as fh:
                src = fh.read()
            with open(os.path.join(d, f), "w") as fh:
                fh.write(rewrite_for_gen(src, gen))
        else:
            shutil.copy(p, os.path.join(d, f))
    req = ["\t%s %s" % (g["mod"], g["ver"]), "\tverif/mc v0.0.0"] + ["\t" + r for r in extra_require]
    with open(os.path.join(d, "go.mod"), "w") as fh:
        fh.write("module verifharness\n\ngo 1.18\n\nrequire (\n%s\n)\n\nreplace %s => %s\n\nreplace verif/mc => %s\n"
                 % ("\n".join(req), g["mod"], g["dir"], os.path.join(VERIF, "mc")))
    shutil.copy(os.path.join(g["dir"], "go.sum"), os.path.join(d, "go.sum"))
    return d


def overlay_sync(scratch, gen, files, name="overlay"):
    """Overlay: verifsync virtual package inside the repo module + the given repo files with
    their "sync" import rewritten to it. `files` are paths relative to the generation dir."""
    g = GENS[gen]
    od = os.path.join(scratch.dir, "%s-%s" % (name, gen))
    os.makedirs(od, exist_ok=True)
    repl = {}
    shim_src = open(os.path.join(VERIF, "overlay", "verifsync", "verifsync.go")).read()
    shim = os.path.join(od, "verifsync.go")
    open(shim, "w").write(shim_src)
    repl[os.path.join(g["dir"], "verifsync", "verifsync.go")] = shim
    for rel in files:
        src = open(os.path.join(g["dir"], rel)).read()
        new, n = re.subn(r'(?m)^(\s*)(import\s+)?"sync"\s*$',
                         lambda m: '%s%ssync "%s/verifsync"' % (m.group(1), m.group(2) or "", g["mod"]), src)
        if n != 1:
            raise Internal("cannot rewrite the sync import of %s (matches=%d)" % (rel, n))
        out = os.path.join(od, rel.replace("/", "__"))
        open(out, "w").write(new)
        repl[os.path.join(g["dir"], rel)] = out
    return od, repl


def overlay_add(scratch, gen, repl, rel, srcfile, name="overlay"):
    """Add a verif-owned file (e.g. an in-package export file) at <gen dir>/<rel>."""
    g = GENS[gen]
    od = os.path.join(scratch.dir, "%s-%s" % (name, gen))
    os.makedirs(od, exist_ok=True)
    out = os.path.join(od, "add__" + rel.replace("/", "__"))
    open(out, "w").write(rewrite_for_gen(open(srcfile).read(), gen))
    repl[os.path.join(g["dir"], rel)] = out
    return od


def write_overlay(od, repl, name="overlay.json"):
    p = os.path.join(od, name)
    json.dump({"Replace": repl}, open(p, "w"), indent=1)
    return p


def go_build(moddir, out, overlay=None, tags="verif", race=False, pkg="."):
    cmd = ["go", "build", "-tags", tags, "-o", out]
    if overlay:
        cmd += ["-overlay", overlay]
    if race:
        cmd += ["-race"]
    cmd += [pkg]
    env = goenv()
    if race:
        env["CGO_ENABLED"] = "1"
    run(cmd, cwd=moddir, env=env, timeout=1200)
    return out


def run_shards(binary, gen, tier, nshards, outdir, extra_args=(), deadline=0, env=None, tag="", env_fn=None):
    """Run `binary` as nshards processes; returns list of parsed reports."""
    os.makedirs(outdir, exist_ok=True)
    e = goenv()
    e["GOMAXPROCS"] = e.get("VERIF_GOMAXPROCS", "2")
    if env:
        e.update(env)
    seed = os.environ.get("VERIF_SEED", "0")

    def one(i):
        out = os.path.join(outdir, "rep-%s%s-%d.json" % (gen, tag, i))
        cmd = [binary, "-gen", gen, "-tier", tier, "-shard", "%d/%d" % (i, nshards), "-out", out, "-seed", seed]
        if deadline:
            cmd += ["-deadline", str(deadline)]
        cmd += list(extra_args)
        ei = e
        if env_fn:
            ei = dict(e)
            ei.update(env_fn(i))
        p = subprocess.run(cmd, env=ei, stdout=subprocess.PIPE, stderr=subprocess.STDOUT, text=True)
        if p.returncode != 0 and "verifharness/gen/" in p.stdout and ".init()" in p.stdout and "main.main()" not in p.stdout:
            # the generated bindings panic while their package initialises (before the harness runs)
            first = [l for l in p.stdout.split("\n") if l.startswith("panic:")] or [p.stdout.strip().split("\n")[0]]
            raise BindingsBroken(gen, ei.get("VERIF_UNIVERSE", "?"), "generated bindings panic during package initialisation: %s\n%s" % (first[0], p.stdout[-3000:]))
        if p.returncode != 0 or not os.path.exists(out):
            raise Internal("harness shard %d failed (exit %d):\n%s" % (i, p.returncode, p.stdout[-8000:]))
        return json.load(open(out))

    with ThreadPoolExecutor(max_workers=min(nshards, NCPU)) as ex:
        return list(ex.map(one, range(nshards)))


# ---------------------------------------------------------------- findings

def load_known(prop):
    """known_findings.txt lines:
         finding: property=C04 sig=<glob> :: <what fails>
         fixed: property=C04 <commit> <what failed>
    """
    out = []
    p = os.path.join(VERIF, "known_findings.txt")
    if not os.path.exists(p):
        return out
    for line in open(p):
        line = line.rstrip("\n")
        if not line.startswith("finding:"):
            continue
        m = re.match(r"finding:\s+property=(\S+)\s+sig=(.*?)\s+::\s+(.*)$", line)
        if not m:
            raise Internal("malformed known_findings.txt line: " + line)
        if m.group(1) == prop:
            out.append({"glob": m.group(2), "desc": m.group(3), "hit": 0})
    return out


def match_known(known, sig):
    for k in known:
        if k["glob"] == sig or fnmatch.fnmatchcase(sig, k["glob"]):
            return k
    return None


# ---------------------------------------------------------------- merge + evidence

def merge_reports(reports):
    m = {"sub": {}, "failures": [], "fail_count": 0, "samples": [], "exhaustive": True, "capped": [],
         "skipped": {}, "notes": [], "extra": {}}
    seen = set()
    for r in reports:
        gen = r.get("gen", "")
        for name, s in (r.get("sub") or {}).items():
            key = "%s/%s" % (gen, name)
            t = m["sub"].setdefault(key, {"evaluations": 0, "states": 0, "transitions": 0, "traces": 0,
                                          "classes": {}, "exhaustive": True, "bounds": s.get("bounds", "")})
            for k in ("evaluations", "states", "transitions", "traces"):
                t[k] += s.get(k, 0)
            for c, n in (s.get("classes") or {}).items():
                t["classes"][c] = t["classes"].get(c, 0) + n
            t["exhaustive"] = t["exhaustive"] and s.get("exhaustive", True)
        for f in r.get("failures") or []:
            if f["sig"] in seen:
                continue
            seen.add(f["sig"])
            m["failures"].append(f)
        m["fail_count"] += r.get("fail_count", 0)
        for s in r.get("samples") or []:
            if len(m["samples"]) < 12:
                m["samples"].append(s)
        m["exhaustive"] = m["exhaustive"] and r.get("exhaustive", True)
        m["capped"] += r.get("capped") or []
        for k, v in (r.get("skipped") or {}).items():
            m["skipped"][k] = m["skipped"].get(k, 0) + v
        for n in r.get("notes") or []:
            if n not in m["notes"]:
                m["notes"].append(n)
        for k, v in (r.get("extra") or {}).items():
            if k.startswith("cmp:"):
                m["extra"].setdefault(k, [])
                if v not in m["extra"][k]:
                    m["extra"][k].append(v)
                continue
            if isinstance(v, (int, float)) and isinstance(m["extra"].get(k, 0), (int, float)):
                m["extra"][k] = m["extra"].get(k, 0) + v
            else:
                m["extra"].setdefault(k, v)
    m["failures"].sort(key=lambda f: f["sig"])
    return m


def finish(prop, tier, level, merged, t0, rule, assumptions, trusted_base=None, extra_cov=None):
    """Apply known findings, write replay artefacts + evidence, print verdict lines.
    Returns the process exit code."""
    if os.environ.get("VERIF_DUMP"):
        json.dump(merged, open(os.environ["VERIF_DUMP"], "w"), indent=1)
    for k, vals in merged["extra"].items():
        if k.startswith("cmp:") and len(vals) > 1:
            merged["failures"].append({"sig": "cross-process %s differs" % k[4:],
                                       "detail": "%d distinct values over the shard processes: %s" % (len(vals), vals[:4]), "replay": None})
    known = load_known(prop)
    evdir = os.path.join(VERIF, "evidence")
    rpdir = os.path.join(evdir, "replay")
    os.makedirs(rpdir, exist_ok=True)
    for old in glob.glob(os.path.join(rpdir, "%s-*.json" % prop)):
        os.remove(old)
    violations = []
    for f in merged["failures"]:
        k = match_known(known, f["sig"])
        if k:
            k["hit"] += 1
            continue
        violations.append(f)
    lines = []
    for k in known:
        if k["hit"]:
            lines.append("KNOWN-FINDING: property=%s %s" % (prop, k["desc"]))
    for i, f in enumerate(violations):
        if i >= 20:
            break
        path = os.path.join(rpdir, "%s-%d.json" % (prop, i))
        json.dump({"property": prop, "sig": f["sig"], "detail": f["detail"], "replay": f.get("replay")},
                  open(path, "w"), indent=1)
        if i < 8:
            lines.append("VIOLATION property=%s replay=%s" % (prop, path))
            lines.append("  sig: %s" % f["sig"])
            lines.append("  " + f["detail"].replace("\n", "\n  ")[:1200])
    if len(violations) > 8:
        lines.append("  ... %d distinct failing signatures in total (first 20 kept under %s)" % (len(violations), rpdir))
    ev = sum(s["evaluations"] for s in merged["sub"].values())
    states = sum(s["states"] for s in merged["sub"].values())
    trans = sum(s["transitions"] for s in merged["sub"].values())
    traces = sum(s["traces"] for s in merged["sub"].values())
    classes = set()
    for name, s in merged["sub"].items():
        for c in s["classes"]:
            classes.add(name.split("/", 1)[-1] + ":" + c)
    cov = {
        "states": max(states, 0), "transitions": max(trans, 0), "traces_validated_against_impl": traces,
        "evaluations": ev, "distinct_nontrivial": len(classes), "rule": rule,
        "samples": merged["samples"] or ["(no sample recorded)"],
        "exhaustive": bool(merged["exhaustive"]), "capped": merged["capped"],
        "sub_checks": merged["sub"], "skipped": merged["skipped"], "notes": merged["notes"],
        "extra": merged["extra"], "failing_elements": merged["fail_count"],
        "known_findings_reproduced": [k["desc"] for k in known if k["hit"]],
        "trusted_base": trusted_base or [],
    }
    if extra_cov:
        cov.update(extra_cov)
    doc = {"property_id": prop, "tier": tier, "seed": int(os.environ.get("VERIF_SEED", "0") or 0),
           "level": level, "coverage": cov, "assumptions": assumptions,
           "wall_s": round(time.time() - t0, 2), "violations": len(violations)}
    json.dump(doc, open(os.path.join(evdir, prop + ".json"), "w"), indent=1)
    for l in lines:
        print(l)
    print("%s %s: evaluations=%d states=%d transitions=%d executions=%d classes=%d exhaustive=%s violations=%d known=%d wall=%.1fs"
          % (prop, tier, ev, states, trans, traces, len(classes), merged["exhaustive"], len(violations),
             sum(1 for k in known if k["hit"]), time.time() - t0))
    return 1 if violations else 0


# ---------------------------------------------------------------- generated bindings

PKGROOT = "verifharness/gen"


def build_emit(scratch):
    out = os.path.join(scratch.dir, "emit")
    if not os.path.exists(out):
        run(["go", "build", "-o", out, "./cmd/emit"], cwd=os.path.join(VERIF, "mc"), timeout=600)
    return out


def build_generator(scratch, gen):
    out = os.path.join(scratch.dir, "genbin-" + gen)
    if not os.path.exists(out):
        mod = make_module(scratch, gen, "genmain")
        go_build(mod, out, tags="verifgen")
    return out


def generate(scratch, gen, universe, outdir, registry=None, extra_files=None, resources=None, genrot=None):
    """Emit the manifest of `universe`, run the generator of the current tree into outdir/gen. With genrot the
    generator runs under the map-iteration overlay with that iteration start (see lib/c12.py)."""
    emit = build_emit(scratch)
    genenv = None
    if genrot is None:
        genbin = build_generator(scratch, gen)
    else:
        import c12
        genbin = os.path.join(scratch.dir, "genbin-rot-" + gen)
        if not os.path.exists(genbin):
            go_build(make_module(scratch, gen, "genmain", name="genmain-rot-" + gen), genbin, overlay=c12.maprot_overlay(scratch), tags="verifgen")
        genenv = dict(goenv(), VERIF_MAPROT=str(genrot))
    manifest = os.path.join(outdir, "manifest-%s.json" % universe)
    cmd = [emit, "-universe", universe, "-gen", gen, "-pkgroot", PKGROOT, "-manifest", manifest]
    if registry:
        cmd += ["-registry", registry]
    if resources:
        cmd += ["-resources", resources]
    target = os.path.join(outdir, "gen")
    if gen == "v2":
        cmd += ["-customdir", target]
    run(cmd, timeout=120)
    if extra_files:
        for rel, content in extra_files.items():
            p = os.path.join(target, rel)
            os.makedirs(os.path.dirname(p), exist_ok=True)
            open(p, "w").write(content)
    args = [genbin, manifest, target] + ([PKGROOT] if gen == "root" else [])
    p = run(args, cwd=outdir, timeout=600, check=False, env=genenv)
    if p.returncode != 0:
        raise Internal("generator failed on universe %s (%s):\n%s" % (universe, gen, p.stdout[-4000:]))
    if registry:
        # keep only the constructor entries the generator really emitted (their absence is a
        # finding of C13, not a build error of the harness)
        src = ""
        for root, _, files in os.walk(target):
            for f in files:
                if f.endswith(".go"):
                    src += open(os.path.join(root, f)).read()
        lines = []
        for line in open(registry).read().split("\n"):
            m = re.search(r"return gen_\w+\.(New\w+WithDefaultValues)\(\)", line)
            if m and ("func " + m.group(1) + "(") not in src:
                continue
            lines.append(line)
        open(registry, "w").write("\n".join(lines))
    return target


class BindingsBroken(Exception):
    """The bindings generated at check time for a schema universe do not compile (or the generator
    fails): the property cannot hold for the types concerned; reported as a violation."""
    def __init__(self, gen, universe, text):
        Exception.__init__(self, text)
        self.gen, self.universe, self.text = gen, universe, text


def build_with_bindings(scratch, gen, harness, universe, overlay=None, resources=False, race=False, genrot=None):
    mod = make_module(scratch, gen, harness, name="%s-%s-%s%s" % (harness, universe, gen, "" if genrot is None else "-genrot%d" % genrot))
    try:
        generate(scratch, gen, universe, mod, registry=os.path.join(mod, "zz_registry.go"),
                 resources=os.path.join(mod, "zz_resources.go") if resources else None, genrot=genrot)
    except Internal as e:
        if "generator failed on universe" in str(e):
            raise BindingsBroken(gen, universe, str(e)[-1500:])
        raise
    try:
        return go_build(mod, os.path.join(mod, "h"), overlay=overlay, race=race)
    except Internal as e:
        lines = [l for l in str(e).split("\n") if re.match(r"^(\./)?gen/[^:]+\.go:\d+", l.strip())]
        if lines:
            raise BindingsBroken(gen, universe, "\n".join(lines[:10]))
        raise


def bindings_broken(prop, tier, e, t0):
    sig_msg = re.sub(r":\d+:\d+", "", e.text.strip().split("\n")[0])[:160]
    merged = {"sub": {}, "failures": [{"sig": "%s bindings-unusable universe=%s :: %s" % (e.gen, e.universe, sig_msg),
                                       "detail": "the bindings generated for universe %s by the %s generator cannot be built, so the property fails for its types:\n%s" % (e.universe, e.gen, e.text),
                                       "replay": {"gen": e.gen, "universe": e.universe}}],
              "fail_count": 1, "samples": [], "exhaustive": False, "capped": ["bindings did not build: nothing explored"], "skipped": {}, "notes": [], "extra": {}}
    return finish(prop, tier, "model_checking", merged, t0, rule="bindings generated at check time did not build; nothing was explored",
                  assumptions=[], trusted_base=[])
