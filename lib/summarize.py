#!/usr/bin/env python3
"""summarize.py dump.json [n]: group failure signatures by all-but-last token class."""
import json,sys,collections,re
m=json.load(open(sys.argv[1]))
c=collections.Counter(); ex={}; det={}
for f in m['failures']:
    sig=f['sig']
    # class: replace the leaf element by its kind
    k=re.sub(r'(str|key|keys|bytes|fixed|int32|int64|float32|float64|enum|bool):.*$', r'\1:*', sig)
    c[k]+=1; ex.setdefault(k,[]).append(sig[len(k)-1:] if k.endswith('*') else ''); det.setdefault(k,f['detail'])
for k,n in sorted(c.items()):
    print(n, k, ex[k][:5])
    if len(sys.argv)>2: print('      ', det[k][:int(sys.argv[2])].replace('\n','\n       '))
print(len(m['failures']), 'distinct signatures;', m['fail_count'], 'failing cases')
