#!/usr/bin/env python3
"""seedrun.py <dir> <name> <check> [<check> ...]
Confirms a seeded change proposed by a sub-agent (worktree <dir> with the change applied, outputs in
<dir>-out) and runs the given checks against it without touching /repo (VERIF_REPO=<dir>).
Keeps it as /verif/seeded/<name>/ (patch.diff, demo/, meta.json, detection.json)."""
import json, os, shutil, subprocess, sys, time
V = os.path.dirname(os.path.dirname(os.path.abspath(__file__)))
wt, name, checks = sys.argv[1], sys.argv[2], sys.argv[3:]
out = os.environ.get("SEED_OUT", wt + "-out")
env = dict(os.environ, GOFLAGS="-mod=mod", GOPROXY="off", GOSUMDB="off", GOTOOLCHAIN="local")
def sh(cmd, cwd=None, e=None, timeout=3000):
    p = subprocess.run(["bash", "-c", cmd], cwd=cwd, env=e or env, stdout=subprocess.PIPE, stderr=subprocess.STDOUT, text=True, timeout=timeout, stdin=subprocess.DEVNULL)
    return p.returncode, p.stdout
res = {"name": name, "at": time.strftime("%Y-%m-%dT%H:%M:%S")}
# 1. the patch is what is applied in the worktree, touches no test files, applies to /repo
rc, diff = sh("git diff", cwd=wt)
patch = open(os.path.join(out, "patch.diff")).read()
res["patch_matches_worktree"] = diff.strip() == patch.strip()
rc, o = sh("git -C /repo apply --check %s" % os.path.join(out, "patch.diff"))
res["applies_to_repo"] = rc == 0
res["touches_tests"] = any(l.startswith("+++ ") and "_test.go" in l for l in patch.split("\n"))
# 2. builds + pinned suite
rc1, o1 = sh("go build ./... 2>&1 | grep -v 'main is undeclared' | grep -v '^#' | head", cwd=wt)
rc2, o2 = sh("go build ./... 2>&1 | grep -v 'main is undeclared' | grep -v '^#' | head", cwd=os.path.join(wt, "v2"))
res["build_output"] = (o1 + o2).strip()
rc, o = sh("python3 %s/lib/baseline.py %s" % (V, wt))
res["baseline"] = o.strip().split("\n")[0]
res["baseline_ok"] = rc == 0
# 3. demo on the changed and on the unchanged tree
demo = os.environ.get("SEED_DEMO", wt + "-demo")
if os.path.exists(os.path.join(demo, "run.sh")):
    cmd = "bash run.sh 2>&1 | tail -5"
else:
  cmd = "go run . 2>&1 | tail -5" if not any(f.endswith("_test.go") for f in os.listdir(demo)) else "go test ./... 2>&1 | tail -8"
rcc, oc = sh("set -o pipefail; " + cmd.replace(" | tail", " | tail"), cwd=demo)
# (git stash is shared between worktrees: switch with apply -R / apply instead)
pf = os.path.join(out, "patch.diff")
rcr, orr = sh("git apply -R %s" % pf, cwd=wt)
assert rcr == 0, orr
try:
    rcu, ou = sh("set -o pipefail; " + cmd, cwd=demo)
finally:
    rca, oa = sh("git apply %s" % pf, cwd=wt)
    assert rca == 0, oa
res["demo_changed"] = {"exit": rcc, "tail": oc[-600:]}
res["demo_unchanged"] = {"exit": rcu, "tail": ou[-600:]}
# 4. keep
dst = os.path.join(V, "seeded", name)
shutil.rmtree(dst, ignore_errors=True)
os.makedirs(dst)
shutil.copy(os.path.join(out, "patch.diff"), dst)
if os.path.exists(os.path.join(out, "meta.json")):
    shutil.copy(os.path.join(out, "meta.json"), dst)
shutil.copytree(demo, os.path.join(dst, "demo"), ignore=shutil.ignore_patterns("*.exe", "demo"))
# 5. run the checks against the changed tree
ev = os.path.join(V, "evidence")
bak = os.path.join("/tmp", "seed-evidence-bak-" + name)
shutil.rmtree(bak, ignore_errors=True)
shutil.copytree(ev, bak)
res["checks"] = {}
try:
    for c in checks:
        t = time.time()
        rc, o = sh("./check %s --tier quick" % c, cwd=V, e=dict(os.environ, VERIF_REPO=wt), timeout=6000)
        lines = [l for l in o.split("\n") if l.startswith("VIOLATION") or l.startswith("  sig:")]
        res["checks"][c] = {"exit": rc, "detected": rc == 1 and any(l.startswith("VIOLATION") for l in lines),
                            "first_sigs": [l.strip() for l in lines if l.startswith("  sig:")][:3], "wall_s": round(time.time() - t, 1),
                            "last_line": o.strip().split("\n")[-1][:300]}
finally:
    shutil.rmtree(ev)
    shutil.copytree(bak, ev)
    shutil.rmtree(bak)
json.dump(res, open(os.path.join(dst, "detection.json"), "w"), indent=1)
print(json.dumps(res, indent=1))
