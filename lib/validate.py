#!/usr/bin/env python3
import json, sys, glob, os
import jsonschema
V = os.path.dirname(os.path.dirname(os.path.abspath(__file__)))
m = json.load(open(V + "/MANIFEST.json"))
jsonschema.validate(m, json.load(open('/root/.vp/MANIFEST.schema.json')))
es = json.load(open('/root/.vp/EVIDENCE.schema.json'))
for c in m["checks"]:
    p = c["evidence_file"]
    if os.path.exists(p):
        jsonschema.validate(json.load(open(p)), es); print("ok", p)
    else:
        print("MISSING", p)
ids = [c["property_id"] for c in m["checks"]] + [n["property_id"] for n in m.get("not_applicable", [])]
assert sorted(ids) == ["C%02d" % i for i in range(1, 21)], ids
print("manifest ok")
