#!/usr/bin/env python3
"""Regenerates MANIFEST.json from the table below (single source of truth for the interface)."""
import json, os
V = os.path.dirname(os.path.dirname(os.path.abspath(__file__)))
ALL = ["C%02d" % i for i in range(1, 21)]

CODEC_NOTE = "Trusted: the reflection bridge (identity-checked on every case), the schema universe and alphabets, the reference codecs, the Go toolchain. Schemas enter as the generator's intermediate JSON (the Java parser is absent). Small-scope bounds: depth <= 2 (3 on spines), <= 5 entries, strings <= 2 chars over the metacharacter set + tokens."
WIRE_NOTE = "Trusted: mc/wire (net/http serialisation + server-side parsing, no sockets), the reflection bridge and call/reply machinery, the resource universe. Resources enter as the generator's intermediate JSON. Association resources are not in the grammar (the generator does not support them)."
CHECKS = {
 "C09": dict(engine="enumx", category="model_checking", design="§3 C09",
   technique="exhaustive permutation enumeration at the seams where ordering enters (keyWriter call order, parameter order, key insertion order) on the real v2 writers / key sets; Equal-values-same-bytes over enumerated pools; repetition over fresh Go maps and processes as a labelled supplement",
   text="All five v2 writers x 4 key sets x every permutation of keyWriter call order for up to 5 (thorough 6) keys, flat and nested, with and without an excluded key; every parameter order through BuildQueryParams; every insertion order into string, int64, bytes and hash-colliding key sets: output must be byte-identical across orders, with keys / parameters / ids in ascending byte order. Equal values (copies and every map-insertion-order rebuild of every reduced-alphabet value of the map-bearing wrappers) must encode identically in all 5 formats, also after unrelated encodes. Supplementary: 64 re-encodings on freshly built Go maps and an encoding digest compared across 16 processes.",
   note=CODEC_NOTE + " Go's map iteration order cannot be controlled; the layers above the seam are covered by repetition only."),
 "C17": dict(engine="sched", category="model_checking", design="§3 C17",
   technique="stateless DFS over all schedules of real goroutines under a cooperative scheduler (all interleavings for 2 threads, preemption-bounded for 3) with an isolation-equivalence oracle; plus a free-running pass of the same bodies under the Go race detector as a supplementary detector",
   text="(a) One server handler and one generated client shared by 2 (all interleavings) or 3 (preemption bound 2, thorough 3) concurrent requests drawn from 11 mixed requests (get, create, update, delete, finder, entity action, batch_get, an ErrorResponse object shared by all requests, a status override, a key with reserved characters): every request's observations - routing facts seen by the filter, resource arguments, wire status / headers / body, client result - must equal its observations in isolation, and the shared error object must stay untouched; scheduling points are the harness-owned callbacks (round-trip entry/exit, PreRequest, resource entry/exit, PostRequest). (b) 2-3 concurrent D2 resolutions plus the cluster's updater thread on one client with the lazy map's sync operations shimmed and RNG draws as points. (c) Supplementary: the same bodies free-running with -race at GOMAXPROCS 1/2/16; any report is a violation.",
   note="Trusted: scheduler, verifsync shim, wire. The property's own quantifier (randomized runs under the race detector) is a sampling formulation; what is decided here is isolation-equivalence over all interleavings at the listed points. Accesses between two points and weak-memory effects are only covered by the -race pass, whose silence is not claimed as coverage."),
 "C07": dict(engine="enumx", category="model_checking", design="§3 C07",
   technique="exhaustive enumeration of exclusion specs (1 and 2 paths over candidate paths incl. wildcards and absent names) x writers / readers / leading-scope offsets against a reference path matcher; enumerated annotated-resource cases over the in-memory wire",
   text="Codec level: 9 nested schemas x every single-path spec and every pair over the candidate paths (all value paths of the fully populated value to depth 4, plus one segment replaced by * or by an absent name; ~80000 specs in quick) x {JSON writer, ROR2 writer, JSON / ROR2 / untyped readers at leading-scope offsets 0-3}: writer output must denote the value minus exactly the matching sub-trees; readers must raise ExcludedFieldError iff the document carries a value at a matching path and must not report excluded required fields missing. Wire level: a resource with read-only and create-only fields at top level, nested, under array and map wildcards: create / batch_create bodies carry no read-only field, update / batch_update no read-only or create-only field, 6 offending patches are refused by the client with zero requests on the wire while 4 clean ones arrive intact, and 13 raw offending bodies are answered 400 without invoking the resource.",
   note=CODEC_NOTE + " " + WIRE_NOTE + " Specs that would remove the member of a union (leaving a non-value) are not generated."),
 "C16": dict(engine="enumx", category="model_checking", design="§3 C16",
   technique="exhaustive enumeration of key multisets over an adversarial key pool x reply scripts through generated batch clients -> wire -> server -> mock; oracle = refbatch (duplicates rejected before send, ids once and ascending, entries under the caller's own key object)",
   text="For every keyed root collection (string, int64, complex key; more key types in thorough) and batch_get / batch_update / batch_partial_update / batch_delete: every key multiset of size <=3 (thorough 4) over a pool containing FNV-1a-colliding keys (found by deterministic search), complex keys equal up to params, keys differing only in escaping-relevant characters, the empty string and reserved characters; replies assign each key to subsets of {results, statuses, errors} (all 512 assignments on a base key set) and add never-requested keys. Duplicates must be refused with no request on the wire; ids must list each key once in ascending encoded order; every response entry must sit under the very key value the caller supplied (pointer identity for complex keys).",
   note=WIRE_NOTE + " bytes-keyed collections are excluded (their generated bindings do not compile, see C12)."),
 "C08": dict(engine="enumx", category="model_checking", design="§3 C08",
   technique="exhaustive enumeration of (method, implementation outcome) through generated client -> wire -> real server -> mock, with deep before/after snapshots of the error object held by the resource",
   text="Every method of every resource x 70 outcomes (value, overridden status, typed nil result, ErrorResponse with each of the 64 subsets of {status, message, serviceErrorCode, exceptionClass, code, stackTrace} set, plain error, wrapped ErrorResponse, panic(string), panic(error)): the client error must carry an equal ErrorResponse, HTTP status = its status or 500, error header iff error; other failures must yield a status >= 400 carrying the message and never a crashed connection; successes must use the protocol default status unless overridden; the resource's error object must be bit-for-bit unchanged. Plus one error object shared by 3 sequential requests and all 27 assignments of {result, error, status} to 3 batch keys.",
   note=WIRE_NOTE + " Concurrent sharing of error objects is C17's."),
 "C02": dict(engine="enumx", category="model_checking", design="§3 C02",
   technique="bounded-exhaustive enumeration of (resource, method, argument position, value, client/server configuration) through generated client -> in-memory HTTP wire -> real router -> generated mock resource and back; oracle = recorded mock arguments and client results equal the abstract call and scripted reply",
   text="Every method (11 rest methods, return-entity variants, 2 finders with params/paging/metadata, 5 actions) of every resource of the R-universe (collections keyed by string, int64, complex key [+ int32, bool, bytes, float64, enum, typerefs in thorough], simple, action set, sub-resources to 3 levels with 2 parent keys, collection under simple) is called with one argument deviating at a time over the value alphabets (full 1760-string alphabet on get keys, finder/action string parameters and created ids) under the default configuration and reduced alphabets under 9 configuration deviations (tunnelling thresholds 1 / 10^6, lenient, three resolver bases, ServeMux and prefix mounting). Exactly the matching resource method must run with equal keys, parameters, paging and body, and the client must return the scripted entity / elements+paging+metadata / action result / created id+status / batch results.",
   note=WIRE_NOTE),
 "C14": dict(engine="enumx", category="model_checking", design="§3 C14",
   technique="exhaustive enumeration of verb x query x body x threshold through the real tunnelling encoder / client request builders, net/http serialisation + server-side parsing and the real decoder, compared field by field with the untunnelled request; enumerated malformed tunnelled requests against a server with stub resource code",
   text="4 verbs x 24 queries (escaped metacharacters, CR/LF, boundary-looking text, 300-byte) x 7 bodies (absent, JSON with boundary-like lines, 64 KB) at function level; client builders with thresholds {0,1,len-1,len,len+1,10^6}: tunnelled iff len(query) > threshold > 0, otherwise byte-identical to the plain request; 14 malformed tunnelled requests must yield 400 without touching resource code. Both generations.",
   note="Trusted: net/http serialisation/parsing, hand-built malformed requests. The random multipart boundary is not owned and never inspected."),
 "C15": dict(engine="enumx", category="model_checking", design="§3 C15",
   technique="exhaustive product of a base-URL grammar x encoded resource paths x queries through the real NewGetRequest / NewJsonRequest, against a reference URL construction; wire request line included",
   text="5 scheme/host combinations x 85 context paths (0-3 segments over {root, root+suffix, prefix-of-root, other}) x trailing slash x 61 resource paths (20 key contents incl. %XX, dot segments, ; ? # and reserved characters at one and two key positions) x 10 queries x 2 request kinds = 2.07e6 request constructions per run; scheme, host, escaped path, raw query, String() re-parse and the request target as written to the wire must equal the reference construction.",
   note="Trusted: refurl (written from the statement), net/url. Contexts holding the root name as a complete non-final segment are don't-care."),
 "C05": dict(engine="enumx", category="model_checking", design="§3 C05, Appendix A",
   technique="explicit-state enumeration of (registered tree, request) pairs served by the real router with stub resource code through an in-memory HTTP wire, against a routing decision table",
   text="About 70 (quick) / 200 (thorough) registered trees (6 shapes x method sets none / each single / all / all-but-one) x the full product of verb, method header (absent, 13 names, unknown), 12 path shapes, q / ids / action presence, tunnelled or not, 6 filter stacks and 3 mountings (quick: filter stack and mounting one at a time) - 2.8e7 requests in quick - are parsed by net/http's server parser and routed by the real handler of both generations; status, the invoked stub, the filter/method order and the routing facts seen by filters must match the reference table; handlers obtained before later registrations must not change.",
   note="Trusted: mc/wire, the decision table (written from the statement; don't-care cells as listed in the evidence assumptions), the stub decoders. Key/parameter/body decoding is stubbed here and checked by C02."),
 "C04": dict(engine="enumx", category="model_checking", design="§3 C04",
   technique="exhaustive enumeration of hostile inputs (all short strings over the ROR2 delimiter alphabet, all short JSON token sequences, all single edits of valid encodings, small untyped value trees) x every reading program, executed on the real readers and generated unmarshalers; oracle = returns, no panic, no hang",
   text="Every ROR2 string of <=6 (thorough 7) symbols over {( ) , : ' a % List( 1} through NewRor2Reader, as a query-parameter value and as a whole query string; every JSON token sequence of <=5 (6) tokens; every truncation and single-byte deletion/substitution/insertion of the reference encodings (json, header, query) of two values of every wrapper record; and ~10^4 untyped Go value trees are run through 19 hand-written reading programs plus generated unmarshalers in both generations. Any panic (identified by its site in the library) or hang is a violation.",
   note=CODEC_NOTE + " Guided/random mutation beyond these bounds is not done (sampling). HTTP-level robustness is added by the wire harness."),
 "C06": dict(engine="enumx", category="model_checking", design="§3 C06",
   technique="bounded-exhaustive enumeration of deletion / null subsets of record-field positions x key orders x injected unknown fields x 4 reader kinds on generated bindings, against an independently computed missing-path set",
   text="For every schema with nested records (records inside arrays, maps, unions, includes; plus flat representatives) the fully populated value is encoded by the reference encoders with every subset of field positions removed (all 2^n for n<=8, every subset of size<=3 beyond; deeper in thorough), also as JSON null, in three key orders and with unknown primitive/object/array fields at three positions, then decoded by the JSON, ROR2, query-parameter and untyped-value readers of both generations. The single MissingRequiredFieldsError must list exactly the sorted full paths of the absent required fields, nothing when none is missing, and the returned value must hold every present field; malformed leaves must raise a DeserializationError scoped at the leaf.",
   note=CODEC_NOTE + " The lenient-client clause is covered at wire level."),
 "C11": dict(engine="enumx", category="model_checking", design="§3 C11",
   technique="exhaustive enumeration of constraint-satisfying and constraint-violating values and documents (all member subsets of 5 unions, all payload lengths around 3 fixed sizes, all constants/symbol strings of 2 enums, every assignment of a subset of {delete,set,nested patch} to each field of 4 records x 3 exclusion specs) executed on bindings generated at check time; oracle = the statement's legality predicate + reference patch document",
   text="On bindings generated at check time for both generations from a dedicated 'constraints' universe: every subset of members of unions with 1/2/4 members (nullable and not) is set and encoded (JSON, ROR2) and the equivalent 0/1/2-member and unknown-member documents decoded: an error exactly when the cardinality rule is broken; fixed sizes 1/2/16 x payload lengths 0..size+2 decode with an error exactly when the length differs; enum constants -1..n+1 encode only when declared, and declared/unknown/wrong-case/padded/numeric symbol strings decode to their constant or to the unknown value which refuses to re-encode; for 4 records (required/optional/defaulted fields, nested record, included record) every assignment of a subset of {delete, set, nested patch} per field (nested patches: family in quick, all in thorough) x 3 exclusion specs is built as a Go value through the canonical struct locations and as the reference {patch:{$set,$delete,<field>:{...}}} document: encode / decode must fail exactly for illegal ones (set+delete, set+patch, delete+patch, delete of required, touching excluded) and legal ones must emit the reference document and decode back to the same patch; every exported delete flag reachable through embedded structs must be honoured.",
   note=CODEC_NOTE + " Unknown member keys in nullable unions are not judged. Custom typerefs are not in the universe."),
 "C13": dict(engine="enumx", category="model_checking", design="§3 C13",
   technique="bounded-exhaustive enumeration of (default-bearing schema, subset of defaulted positions supplied/omitted, reader) on bindings generated at check time; oracle = reference parse of the schema literal; in-place mutation aliasing check over all maker pairs",
   text="A dedicated universe declares 63 (field type, default literal) pairs (extremes, escapes, empty and nested containers, records with own defaults, every union member and enum symbol, fixed, typerefs) directly, in nested required records, in included records, two include levels deep and only-in-include; for every record every subset of defaulted positions is supplied or omitted in reference documents read by the JSON, ROR2 and untyped readers of both generations and by the generated constructor, and every ordered pair of independently obtained instances is checked for shared default storage.",
   note=CODEC_NOTE),
 "C10": dict(engine="enumx", category="model_checking", design="§3 C10",
   technique="exhaustive pairwise comparison over enumerated value pools: generated Equals vs a reference structural equivalence, Equal => equal ComputeHash, hash purity across copies / map insertion orders / processes",
   text="For every wrapper record of the universe the pool of all reduced-alphabet single-deviation values plus copies, map-insertion-order rebuilds, nil<->empty swaps and round-tripped copies is built; every ordered pair (thorough) / every pair involving an alphabet value (quick) is put to the real generated Equals and ComputeHash of both generations: Equals must coincide with the reference equivalence (so it is reflexive, symmetric, transitive on the pool and distinguishes every single-position difference), Equal values must hash alike, and hashes of a common sub-pool must agree across all 16 shard processes.",
   note=CODEC_NOTE + " NaN-bearing pairs are checked for totality only."),
 "C03": dict(engine="enumx", category="model_checking", design="§3 C03, Appendix B",
   technique="bounded-exhaustive differential check of the real codecs against independent reference JSON/ROR2 codecs, both directions, incl. enumerated document variants",
   text="Over the C01 case space: every library encoding (5 formats) must parse under the strict reference parser for its format/escaping context and denote the same abstract value; the reference encoding of every value, and for the reduced alphabets every enumerated variant (all key permutations of <=4 keys, unknown fields of 6 shapes at 3 positions, whitespace, alternative JSON escapes, lower-case / superfluous percent-escapes, + for space), must be accepted by the library and yield the value.",
   note=CODEC_NOTE + " The reference codecs are my reading of the Rest.li 2.0 rules (keys escaped like strings; bytes as code points <= U+00FF; null union = JSON null). Envelopes are checked at wire level (C02/C08/C16)."),
 "C01": dict(engine="enumx", category="model_checking", design="§3 C01",
   technique="bounded-exhaustive enumeration of (schema, value with <=1 deviation [<=2 reduced in thorough], wire format) executed on bindings generated at check time by the current generator; oracle = self-inverse + the type's own Equals + structural equality",
   text="Every wrapper record of the schema universe (every leaf/array/map field type x required/optional/defaulted, include chains, unions; 85 records quick, ~250 thorough) x every single-deviation value over full per-type alphabets (all 256 bytes, every metacharacter pair, float/int extremes) x 5 wire formats is round-tripped through the real generated code of both module generations and compared after default filling.",
   note=CODEC_NOTE),
 "C18": dict(engine="sched", category="model_checking", design="§3 C18, Appendix C",
   technique="stateless DFS over all schedules of the real lazymap.go (sync ops shimmed) with state-key pruning + on-the-fly linearizability monitor",
   text="All interleavings (at sync.Map / WaitGroup / compute-callback granularity) of every canonical tuple of <=3 thread programs x <=2 operations over 2 keys are executed on the real lazymap.go of both module generations; each is checked against a linearizability monitor for a plain map with compute-if-absent, plus deadlock, placeholder-leak, blocked-after-return and quiescent-value oracles. Exhaustive within that bound, which is the property's own quantifier.",
   note="Trusted: the verifsync shim's model of sync.Map/WaitGroup as atomic sequentially-consistent operations, the monitor, the scheduler. Weak-memory effects are not modelled."),

 "C19": dict(engine="bfs", category="model_checking", design="§3 C19",
   technique="explicit enumeration of all event histories (replayed on fresh instances through the real handlers) against a reference fold + snapshot-immutability oracle; exhaustive announcement-set x scripted-RNG-answer enumeration for selection",
   text="Every ZooKeeper event history up to length 4 (quick) / 6 (thorough) over 3 znodes x {add, change, delete, malformed, weight-less} (+ a wider malformed alphabet at shorter length, + service-definition events at client level) is replayed through the real handleUriUpdate / wait loops of both generations; after every event the snapshot equals the reference fold and every earlier snapshot is unchanged. Host selection is decided for every announcement set (<=3/4 hosts x scheme x weight incl. 0 and fractional x znode grouping) x 6 priority lists x every scripted RNG answer on a 64*W grid plus the extremes.",
   note="Trusted: overlay export file (forwarding only), reference fold, scripted rand.Source. ZooKeeper, treecache.go and timers are below the seam and not exercised. Go map iteration order is not controllable: the selection oracle accepts the choice under any iteration order."),

 "C20": dict(engine="bfs", category="model_checking", design="§3 C20",
   technique="exhaustive enumeration of directory trees (states) run through the real CleanTargetDir (transitions) against a set-based reference model, plus idempotence",
   text="Every directory tree of a bounded grammar (5 file kinds incl. look-alike names; sub-directories as multisets of smaller trees; quick: depth 2 with 3 entries in the target and 2 deeper + a depth-3 spine; thorough: all depth-2 trees with 3 entries at every level + depth 3) is materialised, cleaned by the real CleanTargetDir of both generations and compared entry by entry (existence, bytes, mode) with the reference model; cleaning twice must be a no-op; plus a missing target and the current directory as target.",
   note="Trusted: tmpfs semantics, the refclean model. Nested manifests and directories that never held a file are don't-care. Regeneration after cleaning is covered under C12."),
}

NOT_YET = "check not yet built in this commit; planned in DESIGN.md"

def main():
    checks = []
    for pid in ALL:
        c = CHECKS.get(pid)
        if not c: continue
        checks.append({
            "property_id": pid,
            "quick_cmd": "./check %s --tier quick" % pid,
            "thorough_cmd": "./check %s --tier thorough" % pid,
            "evidence_file": "/verif/evidence/%s.json" % pid,
            "replay_cmd_template": "./check %s --replay {path}" % pid,
            "engine": c["engine"],
            "level_claimed": {"category": c["category"], "text": c["text"], "design_ref": c["design"]},
            "level_note": c["note"],
            "technique": c["technique"],
        })
    m = {
        "version": 1,
        "setup_cmd": "./setup",
        "hooks": {
            "guard": "verif",
            "enable": "go build -tags verif -overlay <generated overlay.json>: instrumentation is injected at build time from /repo's current files (sync import of the files under test rewritten to a virtual verifsync package; in-package export files added); no source change in /repo is needed",
            "baseline_off_cmd": "python3 /verif/lib/baseline.py /repo",
            "source_commits": [],
            "add_only": True,
        },
        "engines": [
            {"name": "sched", "path": "mc/sched", "serves_properties": ["C17", "C18"], "kind_free_text": "cooperative scheduler + stateless DFS over schedules of real goroutines, preemption bounding, state-key pruning"},
            {"name": "enumx", "path": "mc/enumx", "serves_properties": [], "kind_free_text": "deviation-bounded exhaustive enumeration of finite case spaces against reference models"},
            {"name": "bfs", "path": "mc/bfs", "serves_properties": ["C19", "C20"], "kind_free_text": "explicit-state breadth-first search over event histories / directory trees, replayed on fresh real instances"},
        ],
        "checks": checks,
        "not_applicable": [{"property_id": p, "reason": NOT_YET} for p in ALL if p not in CHECKS],
        "notes": "See DESIGN.md. Every check executes the implementation built from /repo's working tree; no model is checked instead of the code.",
    }
    json.dump(m, open(os.path.join(V, "MANIFEST.json"), "w"), indent=1)

main()
