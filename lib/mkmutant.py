#!/usr/bin/env python3
"""mkmutant.py <name> <file> <old> <new> [<file> <old> <new> ...]: writes mutants/<name>.diff
(applies textual replacements to a scratch copy of /repo and stores git diff)."""
import sys, os, subprocess, shutil, tempfile
V = os.path.dirname(os.path.dirname(os.path.abspath(__file__)))
name = sys.argv[1]; rest = sys.argv[2:]
tmp = tempfile.mkdtemp(prefix="verif-mk-", dir="/tmp")
try:
    copy = os.path.join(tmp, "repo"); shutil.copytree("/repo", copy, symlinks=True)
    for i in range(0, len(rest), 3):
        f, old, new = rest[i:i+3]
        for ff in ([f, "v2/" + f] if not f.startswith("v2/") and not f.startswith("./") else [f.lstrip("./")] if f.startswith("./") else [f]):
            p = os.path.join(copy, ff)
            if not os.path.exists(p): continue
            s = open(p).read()
            if s.count(old) != 1:
                print("ERROR: %s: pattern occurs %d times" % (ff, s.count(old))); sys.exit(1)
            open(p, "w").write(s.replace(old, new))
    d = subprocess.run(["git", "diff"], cwd=copy, stdout=subprocess.PIPE, text=True).stdout
    if not d.strip(): print("ERROR: empty diff"); sys.exit(1)
    open(os.path.join(V, "mutants", name + ".diff"), "w").write(d)
    print("wrote mutants/%s.diff (%d lines)" % (name, d.count("\n")))
finally:
    shutil.rmtree(tmp, ignore_errors=True)
