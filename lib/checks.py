"""One function per property: builds, runs, merges, finishes. Signature (scratch, tier, replay, t0) -> exit code."""
import os, json, subprocess, sys
import driver as D

MC_ASSUME = ["go toolchain and runtime", "verif/mc engines (sched, report)", "the reference model / oracle written for this check"]


def replay_run(binary, gen, replay, extra=()):
    p = subprocess.run([binary, "-gen", gen, "-replay", replay] + list(extra), env=D.goenv())
    return p.returncode


def replay_gen(replay):
    doc = json.load(open(replay))
    return (doc.get("replay") or {}).get("gen", "v2")


def C18(sc, tier, replay, t0):
    reports = []
    gens = ["v2", "root"] if not replay else [replay_gen(replay)]
    for gen in gens:
        mod = D.make_module(sc, gen, "c18")
        od, repl = D.overlay_sync(sc, gen, ["d2/lazymap/lazymap.go"])
        ov = D.write_overlay(od, repl)
        binary = D.go_build(mod, os.path.join(mod, "h"), overlay=ov)
        if replay:
            return replay_run(binary, gen, replay)
        n = D.NCPU // len(gens)
        reports += D.run_shards(binary, gen, tier, max(1, n), os.path.join(sc.dir, "out"),
                                deadline=(3000 if tier == "thorough" else 600))
    merged = D.merge_reports(reports)
    return D.finish("C18", tier, "model_checking", merged, t0,
        rule="every canonical tuple (thread- and key-symmetry reduced) of thread programs over {LoadOrStore,Load,Store}x{k1,k2} is explored over all interleavings of the real lazymap.go at sync.Map / WaitGroup / compute-function granularity (state-key pruning; preemption bound where stated in sub_checks.bounds); a class is a (family, max preemptions needed) pair",
        assumptions=["sync.Map and sync.WaitGroup operations are atomic and sequentially consistent (modelled by the verifsync shim)",
                     "no weak-memory effects; data accesses between two shim operations are not interleaved",
                     "3 threads x 2 operations x 2 keys bound"],
        trusted_base=MC_ASSUME + ["verifsync shim", "linearizability monitor (DESIGN.md Appendix C)"])
