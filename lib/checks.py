"""One function per property: builds, runs, merges, finishes. Signature (scratch, tier, replay, t0) -> exit code."""
import os, json, subprocess, sys, re
import driver as D

MC_ASSUME = ["go toolchain and runtime", "verif/mc engines (sched, report)", "the reference model / oracle written for this check"]


def replay_run(binary, gen, replay, extra=(), env=None):
    p = subprocess.run([binary, "-gen", gen, "-replay", replay] + list(extra), env=dict(D.goenv(), **(env or {})))
    return p.returncode


def replay_gen(replay):
    doc = json.load(open(replay))
    return (doc.get("replay") or {}).get("gen", "v2")


def C18(sc, tier, replay, t0):
    reports = []
    gens = ["v2", "root"] if not replay else [replay_gen(replay)]
    for gen in gens:
        mod = D.make_module(sc, gen, "c18")
        od, repl = D.overlay_sync(sc, gen, ["d2/lazymap/lazymap.go"])
        ov = D.write_overlay(od, repl)
        binary = D.go_build(mod, os.path.join(mod, "h"), overlay=ov)
        if replay:
            return replay_run(binary, gen, replay)
        n = D.NCPU // len(gens)
        reports += D.run_shards(binary, gen, tier, max(1, n), os.path.join(sc.dir, "out"),
                                deadline=(3000 if tier == "thorough" else 600))
    merged = D.merge_reports(reports)
    return D.finish("C18", tier, "model_checking", merged, t0,
        rule="every canonical tuple (thread- and key-symmetry reduced) of thread programs over {LoadOrStore,Load,Store}x{k1,k2} is explored over all interleavings of the real lazymap.go at sync.Map / WaitGroup / compute-function granularity (state-key pruning; preemption bound where stated in sub_checks.bounds); a class is a (family, max preemptions needed) pair",
        assumptions=["sync.Map and sync.WaitGroup operations are atomic and sequentially consistent (modelled by the verifsync shim)",
                     "no weak-memory effects; data accesses between two shim operations are not interleaved",
                     "3 threads x 2 operations x 2 keys bound"],
        trusted_base=MC_ASSUME + ["verifsync shim", "linearizability monitor (DESIGN.md Appendix C)"])


def build_c19(sc, gen):
    mod = D.make_module(sc, gen, "c19")
    repl = {}
    od = D.overlay_add(sc, gen, repl, "d2/verif_export.go", os.path.join(D.VERIF, "overlay", "d2", "verif_export.go"), name="ov19")
    # the selection walks Go maps twice per call: their iteration order is owned through the runtime overlay
    import c12
    repl.update(json.load(open(c12.maprot_overlay(sc)))["Replace"])
    tags = "verif"
    if treecache_rig(sc, gen, od, repl):
        tags = "verif,tcrig"
    ov = D.write_overlay(od, repl)
    return D.go_build(mod, os.path.join(mod, "h"), overlay=ov, tags=tags)


def treecache_rig(sc, gen, od, repl):
    """Bind treecache.go to the explorer (see overlay/d2/verif_treecache.go.tmpl): returns False when the
    current source no longer has the shape the textual derivation relies on (the harness then reports the
    treecache part as not explored instead of guessing)."""
    gdir = D.GENS[gen]["dir"]
    path = os.path.join(gdir, "d2", "treecache.go")
    try:
        src = open(path).read()
    except OSError:
        return False
    m = re.search(r'"(github\.com/[^"]*go-zookeeper/zk)"', src)
    lm = re.search(r"\nfunc \(tc \*TreeCache\) loop\(path string\) \{\n(.*?)\n\}\n", src, re.S)
    if not m or not lm:
        return False
    loop = lm.group(1)
    def between(a, b):
        i = loop.find(a)
        j = loop.find(b, i + len(a)) if i >= 0 else -1
        if i < 0 or j < 0:
            return None
        return loop[i + len(a):j]
    first = "\terr := tc.recursiveNodeUpdate(path, tc.head)\n"
    pro = between(first, "\n\tfor {\n")
    ev = between("\t\tcase ev := <-tc.head.events:\n", "\t\tcase <-retryChan:\n")
    rt = between("\t\tcase <-retryChan:\n", "\t\tcase <-tc.stop:\n")
    if pro is None or ev is None or rt is None:
        return False
    pro = first + pro
    def adapt(b):
        b = re.sub(r"\bcontinue\b", "return", b)
        b = re.sub(r"\bfailureMode\b", "d.failureMode", b)
        return re.sub(r"\bfailure\(\)", "d.failure()", b)
    new_src, n1 = re.subn(r"conn(\s+)\*zk\.Conn", r"conn\1verifZk", src)
    new_src, n2 = re.subn(r"\n\tgo func\(\) \{\n.*?\n\t\}\(\)\n", "\n\tverifRegisterForwarder(tc, path, node, dataWatcher, childWatcher)\n", new_src, count=1, flags=re.S)
    if n1 < 2 or n2 != 1 or "dataWatcher" not in src or "childWatcher" not in src:
        return False
    tmpl = open(os.path.join(D.VERIF, "overlay", "d2", "verif_treecache.go.tmpl")).read()
    tmpl = tmpl.replace("__ZKIMPORT__", m.group(1)).replace("__PROLOGUE__", adapt(pro)).replace("__EVENT__", adapt(ev)).replace("__RETRY__", adapt(rt))
    rig = os.path.join(od, "verif_treecache.go")
    open(rig, "w").write(tmpl)
    tc = os.path.join(od, "treecache_rewritten.go")
    open(tc, "w").write(new_src)
    repl[os.path.join(gdir, "d2", "verif_treecache.go")] = rig
    repl[path] = tc
    return True


C19_MAPROT = {"VERIF_MAPROT": "3"}


def C19(sc, tier, replay, t0):
    reports = []
    gens = ["v2", "root"] if not replay else [replay_gen(replay)]
    for gen in gens:
        binary = build_c19(sc, gen)
        if replay:
            return replay_run(binary, gen, replay, env=C19_MAPROT)
        part = os.environ.get("VERIF_C19_PART")  # development aid: run one part (A, B, C, T) only
        reports += D.run_shards(binary, gen, tier, max(1, D.NCPU // len(gens)), os.path.join(sc.dir, "out"), env=C19_MAPROT,
                                extra_args=(["-part", part] if part else []), deadline=(3000 if tier == "thorough" else 600))
    merged = D.merge_reports(reports)
    return D.finish("C19", tier, "model_checking", merged, t0,
        rule="explicit enumeration of every ZooKeeper event history up to the stated length over 3 znodes, each replayed on a fresh snapshot chain through the real handleUriUpdate (function level) and through the real waitForUriUpdates/waitForServiceUpdates loops + ResolveHostnameAndContextForQuery (client level), compared with a reference fold after every event, with every earlier snapshot re-compared to the copy taken when it was handed out; selection: every announcement set x priority list x scripted RNG answer on a grid; treecache: explicit-state exploration of (fake ZooKeeper, TreeCache) over every sequence of ZooKeeper writes up to the stated depth (create / set / delete of root, children, grandchild; session lost), every order in which the watch events they trigger reach the cache, both fates of events of nodes already told to stop, one connection error at any of the next 4 connection calls and the retry timer firing before or after later writes - the three blocks of TreeCache.loop and everything below them run on the real code without goroutines or timers (rig derived textually from the current treecache.go) and the fold of the emitted TreeCacheEvents must equal ZooKeeper's content at every quiescent point; states = distinct fold contents / announcement sets / explorer nodes, transitions = handler, chooseHost or rig calls; a class is (family, history length | selection outcome kind | execution shape)",
        assumptions=["D2 is driven below ZooKeeper: events are injected at handleUriUpdate / the wait loops, and treecache.go runs against a fake ZooKeeper (znodes, one-shot data / child watches, ErrNoNode, an injectable connection error); the zk client library itself is not exercised",
                     "treecache: the per-node relay goroutine (first watch event of a node generation is passed to the loop, then the goroutine ends; an event racing with the node's stop signal may or may not get through) and the 10 s retry timer are modelled by the rig, not executed; if the current treecache.go no longer has the shape the textual derivation needs, the part is reported as not explored (exhaustive=false), never guessed",
                     "Go map iteration order is owned through the runtime overlay (lib/c12.py maprot_overlay, one fixed iteration start per process, hash seeds fixed): the announcement maps are walked in the same order by both passes of a selection and by every call, which the client-level completeness clause (every eligible host with weight > 0 is returned for some draw of the 16-point grid) relies on; the per-draw selection oracle still accepts the choice of any order",
                     "history length and announcement-set size bounds as in sub_checks.bounds"],
        trusted_base=MC_ASSUME + ["in-package export file overlay/d2/verif_export.go (forwards only)", "scripted rand.Source", "fake ZooKeeper and relay model in overlay/d2/verif_treecache.go.tmpl"])


def simple_check(prop, harness, level, rule, assumptions, trusted, gens=("v2", "root"), deadline_q=600, deadline_t=3000,
                 overlay_fn=None, extra_args=(), shards=None):
    def fn(sc, tier, replay, t0):
        reports = []
        gl = list(gens) if not replay else [replay_gen(replay)]
        for gen in gl:
            mod = D.make_module(sc, gen, harness)
            ov = overlay_fn(sc, gen) if overlay_fn else None
            binary = D.go_build(mod, os.path.join(mod, "h"), overlay=ov)
            if replay:
                return replay_run(binary, gen, replay, extra_args)
            n = shards or max(1, D.NCPU // len(gl))
            reports += D.run_shards(binary, gen, tier, n, os.path.join(sc.dir, "out"), extra_args=extra_args,
                                    deadline=(deadline_t if tier == "thorough" else deadline_q))
        merged = D.merge_reports(reports)
        return D.finish(prop, tier, level, merged, t0, rule=rule, assumptions=assumptions, trusted_base=MC_ASSUME + trusted)
    return fn


_C20_clean = simple_check("C20", "c20", "model_checking",
    rule="every directory tree of the bounded grammar (file kinds G=x.gr.go, M=manifest, U=user.go, N=notes.txt, B=y.gr.go.bak; sub-directories as multisets of smaller trees; budgets per level in sub_checks.bounds) is materialised on tmpfs, cleaned with the real CleanTargetDir, compared with a set-based reference model, and cleaned again (idempotence); states = trees, transitions = CleanTargetDir calls; a class is (target mode, removal outcome)",
    assumptions=["entry kinds are regular files and directories (no symlinks, no unreadable directories)",
                 "a manifest is generator-owned at every depth (generation with a package root writes it below the target, and cleaning applies the same rules at every level)",
                 "directories that held no file at all before cleaning are don't-care (the pinned test removes them)",
                 "regeneration after cleaning is checked by C12's generator runs, not here"],
    trusted=["tmpfs file system semantics", "refclean model in harness/c20"])


CODEC_ASSUME = ["schemas enter as the generator's intermediate JSON (the Java schema parser is a 0-byte file in this tree)",
                "small-scope bounds: nesting depth <= 2 (3 on listed spines), collections <= 5 entries, strings <= 2 characters over the metacharacter set plus listed tokens and one 300-char string",
                "Go strings that are not valid UTF-8 are not values of the Pegasus string type"]
CODEC_TRUST = ["reflection bridge mc/bind (checked for identity AV->Go->AV on every case)", "reference codecs mc/ref", "schema universes mc/schema"]


def codec_check(prop, part, level, rule, assumptions=(), gens=("v2", "root"), deadline_q=900, deadline_t=3300, universes=None, maprot=False, genrots=(None,)):
    def fn(sc, tier, replay, t0):
        universe = "codec-full" if tier == "thorough" else "codec-quick"
        if universes:
            universe = universes[1] if tier == "thorough" else universes[0]
        reports = []
        gl = list(gens)
        if replay:
            doc = json.load(open(replay)).get("replay") or {}
            gl = [doc.get("gen", "v2")]
            universe = doc.get("universe", universe)
        for gen in gl:
          # genrots: the bindings are generated once per listed map-iteration start of the GENERATOR process; the
          # cross-process digests then also span bindings from different generator runs
          for gr in (genrots if not replay else genrots[:1]):
            ov = None
            if maprot:
                import c12
                ov = c12.maprot_overlay(sc)
            binary = D.build_with_bindings(sc, gen, "codec", universe, overlay=ov, genrot=gr)
            env = {"VERIF_UNIVERSE": universe}
            if replay:
                p = subprocess.run([binary, "-gen", gen, "-replay", replay], env=dict(D.goenv(), **env))
                return p.returncode
            nsh = max(1, D.NCPU // len(gl))
            if maprot:
                # one process per map-iteration start: every start bucket / slot of maps up to 2 (64: 8) buckets
                nsh = 64 if tier == "thorough" else 16
            reports += D.run_shards(binary, gen, tier, nsh, os.path.join(sc.dir, "out" if gr is None else "out-genrot%d" % gr),
                                    extra_args=["-part", part], env=env,
                                    env_fn=(lambda i: {"VERIF_MAPROT": str(i)}) if maprot else None,
                                    deadline=(deadline_t if tier == "thorough" else deadline_q))
        merged = D.merge_reports(reports)
        return D.finish(prop, tier, level, merged, t0, rule=rule, assumptions=CODEC_ASSUME + list(assumptions),
                        trusted_base=MC_ASSUME + CODEC_TRUST)
    return fn


C01 = codec_check("C01", "C01", "model_checking",
    rule="bounded-exhaustive enumeration: every wrapper record of the schema universe (one per field type of the grammar x {required, optional, defaulted} + include chains + unions) x every value with at most one deviation from the base value over the full per-type alphabets (thorough: also every pair of field deviations over the reduced alphabets) x 5 wire formats is encoded and decoded by the real generated bindings; states = distinct values, transitions = encode/decode calls; a class is (outcome kind, format)")

_C03_codec = codec_check("C03", "C03", "model_checking",
    rule="differential check against an independent reference codec pair (mc/ref/refjson, mc/ref/refror2) over the C01 case space: (lib-to-ref) every library encoding must parse under the strict reference parser of its format/context and denote the same abstract value; (ref-to-lib) the reference encoding of every value, and for the reduced alphabets every document variant (key permutations, unknown fields, whitespace, alternative escapes), must be accepted by the library reader and yield the value; states = values, transitions = encode or decode calls; a class is (direction, outcome, format, variant family)",
    assumptions=["the reference codecs are my reading of the Rest.li 2.0 wire rules: keys are escaped like strings; bytes/fixed are strings of code points <= U+00FF in JSON and ROR2; a null union is JSON null / the empty map in ROR2",
                 "request/response envelopes are checked by the wire-level checks, not here"])

C10 = codec_check("C10", "C10", "model_checking",
    rule="for every wrapper record: the pool of all reduced-alphabet deviation<=1 values, their copies, copies with maps rebuilt in every insertion order, nil<->empty swaps and JSON/ROR2 round-tripped copies; every ordered pair is compared with the generated Equals (must coincide with structural equality, which is an equivalence, hence symmetry and transitivity), and Equal pairs must have equal ComputeHash; the hashes of the whole pool of every map-bearing wrapper are computed in one process per Go map-iteration start (runtime overlay, VERIF_MAPROT = shard index; 16 starts quick, 64 thorough) and the digests of all processes must agree; states = pool values, transitions = Equals calls; a class is the pair outcome",
    maprot=True,
    assumptions=["pairs containing a NaN are only checked for totality (NaN never equals itself)",
                 "transitivity follows from agreement with the reference equivalence on every pair of the pool; triples are not enumerated separately"])


C13 = codec_check("C13", "C13", "model_checking", universes=("defaults", "defaults"),
    rule="defaults universe: 67 (field type, default literal) pairs placed directly, in a nested required record, in an included record, two include levels deep and only-in-include; per record every subset of defaulted positions supplied (with a non-default value) or omitted, decoded from reference documents by the JSON, ROR2 and untyped-value readers and compared with the reference parse of the schema literal; constructor instances; every ordered pair of independently obtained instances (constructor / JSON decode / ROR2 decode) is checked for aliasing by mutating the first in place; states = (record, subset), transitions = decode calls; a class is (reader | maker pair, outcome)")


_C06_codec = codec_check("C06", "C06", "model_checking",
    rule="per schema with nested records (plus three flat representatives) the rich value is encoded by the reference encoders with every enumerated subset of record-field positions deleted (or JSON-nulled), in several key orders and with unknown fields injected, and decoded by the JSON, ROR2, query-parameter (QueryParamsReader.ReadRecord around the parameter) and untyped readers; the reported MissingRequiredFieldsError.Fields must equal the independently computed sorted set of full paths of absent required fields, and the partially decoded value must hold every present field; malformed leaves must raise a DeserializationError scoped at the leaf; states = schemas, transitions = decode calls; a class is (reader, deletion count | outcome)",
    assumptions=["the path syntax (a.b[1].c, map keys and union aliases as segments, query parameters prefixed by the parameter name) is the library's own API, taken from upstream's tests",
                 "the lenient-client clause is checked at wire level (C02)"])


_C04_codec = codec_check("C04", "C04", "model_checking",
    rule="exhaustive enumeration of hostile inputs, each run through every reading program (19 hand-written Reader programs covering every Read*/Skip/RawBytes/ReadInterface/RawRecord combination + generated unmarshalers): (1) every string of <=L symbols over the ROR2 delimiter alphabet via NewRor2Reader and as a ParseQueryParams value, and whole as a query string; (2) every sequence of <=L JSON tokens; (3) every truncation and every single-byte deletion / substitution / insertion (22 bytes) of the reference encodings of the base and rich value of every wrapper in json/header/query, fed to the schema's own unmarshaler; (4) Go value trees of depth<=2 through NewInterfaceReader; the oracle is: the call returns (no panic; a 90 s no-progress watchdog flags hangs); states = inputs, transitions = decoder runs; failures are identified by the panic site in the library",
    assumptions=["coverage-guided mutation beyond the exhaustive bounds is sampling, a different technique family, and is not done",
                 "HTTP-level robustness (path, query, headers, tunnelled bodies, client-side responses) is the wire-level part of this check"])

C05 = simple_check("C05", "c05", "model_checking",
    rule="explicit enumeration of (registered resource tree, request) pairs: trees = shapes {collection, collection>collection, simple>collection, two roots, simple, collection>simple} x method sets {none, each single method/finder/action, all, all-but-one}; requests = full product verb x X-RestLi-Method x path shape x q x ids x action x tunnelled x filter stack x mounting; every request is serialised, parsed by net/http's server-side parser and served by the real router with stub resource code; the observed (status, invoked stub, filter/method sequence, routing facts seen by filters) is compared with the decision table of DESIGN.md Appendix A; plus handler snapshots; states = trees, transitions = ServeHTTP calls; a class is the expected outcome kind",
    assumptions=["two request families are left unspecified by the property and are don't-care: a method header that contradicts the HTTP verb, and a non-GET/POST/PUT/DELETE verb carrying a method header on a simple resource",
                 "a trailing slash may be answered like the slash-less path or with any 4xx; a method header naming no method may be ignored or answered 4xx",
                 "paths that net/http's ServeMux itself redirects (//, dot segments) are outside the request alphabet"],
    trusted=["mc/wire in-memory HTTP exchange (net/http request/response serialisation and parsing)", "refrouter decision table in harness/c05"])

_C15_url = simple_check("C15", "c15", "model_checking",
    rule="exhaustive product of resolver base URLs (scheme/host x context paths of 0-3 segments over {root, root+suffix, prefix-of-root, other, two segments with percent-escapes} x trailing slash) x encoded resource paths (20 key contents incl. %XX, dot segments, ;, ?, #, reserved characters, at 1 and 2 key positions) x queries x {NewGetRequest, NewJsonRequest}; the URL of the built *http.Request (scheme, host, EscapedPath, RawQuery, String() re-parse) and the request target written to the wire are compared with the reference construction; states = bases, transitions = request constructions",
    assumptions=["contexts holding the root resource name as a complete non-final segment are don't-care, as the property says"],
    trusted=["refurl in harness/c15", "net/url parsing"])

_C14_fn = simple_check("C14", "c14", "model_checking", shards=1,
    rule="enumeration of verb x query x body x threshold: (function level) EncodeTunnelledQuery output is serialised, parsed by net/http's server parser and de-tunnelled by DecodeTunnelledQuery, and compared field by field (verb, path, raw query, request URI, body bytes, content type, Rest.li headers) with the plain request parsed the same way; (client level) request builders with thresholds {0,1,len-1,len,len+1,10^6}: tunnelled iff threshold>0 and len(query)>threshold, otherwise byte-identical to the plain request; (malformed) hand-built malformed tunnelled requests must be answered 400 without reaching stub resource code; states = cases, transitions = encode/decode calls",
    assumptions=["queries that cannot be sent untunnelled at all (raw control characters) have no plain counterpart and are skipped at function level (counted)",
                 "the multipart boundary is random (crypto/rand) and not owned; the oracle never looks at it"],
    trusted=["net/http request serialisation and parsing", "hand-written reference tunnelling encodings in harness/c14"])


WIRE_TRUST = ["mc/wire in-memory HTTP exchange", "reflection bridge mc/bind and the call/reply machinery of harness/wire", "resource universe mc/schema/universe_resources.go"]


def wire_check(prop, part, level, rule, assumptions=(), gens=("v2", "root"), deadline_q=900, deadline_t=3300, race=False):
    def fn(sc, tier, replay, t0):
        universe = "resources-full" if tier == "thorough" else "resources-quick"
        reports = []
        gl = list(gens)
        if replay:
            doc = json.load(open(replay)).get("replay") or {}
            gl = [doc.get("gen", "v2")]
            universe = doc.get("universe", universe)
        for gen in gl:
            binary = D.build_with_bindings(sc, gen, "wire", universe, resources=True)
            env = {"VERIF_UNIVERSE": universe}
            if replay:
                p = subprocess.run([binary, "-gen", gen, "-replay", replay], env=dict(D.goenv(), **env))
                return p.returncode
            reports += D.run_shards(binary, gen, tier, max(1, D.NCPU // len(gl)), os.path.join(sc.dir, "out"),
                                    extra_args=["-part", part], env=env,
                                    deadline=(deadline_t if tier == "thorough" else deadline_q))
        merged = D.merge_reports(reports)
        return D.finish(prop, tier, level, merged, t0, rule=rule, assumptions=CODEC_ASSUME[:1] + list(assumptions),
                        trusted_base=MC_ASSUME + WIRE_TRUST)
    return fn


C02 = wire_check("C02", "C02", "model_checking",
    rule="bounded-exhaustive enumeration of (resource, method, argument position, value, configuration): every method of every resource of the R-universe (collections keyed by primitives / typerefs / enum / complex key, simple, action set, sub-resources to 3 levels; 11 rest methods, return-entity variants, 2 finders, 5 actions) is called through the generated client over the in-memory wire against the real server with generated mock resources; exactly the corresponding resource method must be invoked with equal keys / parameters / paging / body, and the client must return what the resource returned; states = (config, resource, method), transitions = client calls")


C08 = wire_check("C08", "C08", "model_checking",
    rule="every method of every resource x every implementation outcome (value, overridden status, typed nil result, ErrorResponse with every subset of its scalar fields set, plain error, wrapped ErrorResponse, panic(string), panic(error)) executed through generated client -> wire -> real server -> mock; checked: client error carries an equal ErrorResponse, HTTP status = its status or 500, error header iff error, failures have a status >= 400 and carry the message, no panic escapes ServeHTTP, success statuses are the protocol defaults unless overridden, the resource's error object is bit-for-bit unchanged; plus a shared error object over 3 sequential requests and every assignment of {result, error, status} to 3 batch keys; states = (resource, method), transitions = calls",
    assumptions=["a default message supplied for an ErrorResponse without message is accepted (the client must still see every field the resource set)",
                 "concurrent sharing of error objects is explored by C17"])


C16 = wire_check("C16", "C16", "model_checking",
    rule="every keyed root collection x 4 batch methods x every key multiset up to the size bound over an adversarial key pool (FNV-1a-colliding strings found by deterministic search, complex keys equal up to params, keys differing only in escaping-relevant characters, empty string, reserved characters) x scripted replies (rotating assignment of keys to {results, statuses, errors}; all 8^3 assignments and a never-requested key in each map for a base key set), through generated client -> wire -> server -> mock; checked: duplicates rejected before anything is sent, ids on the wire list each encoded key exactly once in ascending order, every response entry is filed under the caller's own key value (pointer identity for complex keys), nothing lost / duplicated / misattributed, an unrequested key yields an error; states = (resource, method), transitions = calls",
    assumptions=["bytes-keyed collections are absent: the generator's output for them does not compile (recorded under C12)"])


def C07(sc, tier, replay, t0):
    """C07 = codec-level exclusion exactness (codec harness) + wire-level annotated resources (wire harness)."""
    reports = []
    gens = ["v2", "root"]
    rp = None
    if replay:
        rp = json.load(open(replay)).get("replay") or {}
        gens = [rp.get("gen", "v2")]
    for gen in gens:
        if not rp or rp.get("part") == "C07":
            uni = "codec-full" if tier == "thorough" else "codec-quick"
            binary = D.build_with_bindings(sc, gen, "codec", uni)
            env = {"VERIF_UNIVERSE": uni}
            if rp:
                return subprocess.run([binary, "-gen", gen, "-replay", replay], env=dict(D.goenv(), **env)).returncode
            reports += D.run_shards(binary, gen, tier, max(1, D.NCPU // 2), os.path.join(sc.dir, "out"), extra_args=["-part", "C07"], env=env,
                                    deadline=(3000 if tier == "thorough" else 600), tag="-codec")
        if not rp or rp.get("part") == "C07W":
            uni = "resources-full" if tier == "thorough" else "resources-quick"
            binary = D.build_with_bindings(sc, gen, "wire", uni, resources=True)
            env = {"VERIF_UNIVERSE": uni}
            if rp:
                return subprocess.run([binary, "-gen", gen, "-replay", replay], env=dict(D.goenv(), **env)).returncode
            reports += D.run_shards(binary, gen, tier, 1, os.path.join(sc.dir, "out"), extra_args=["-part", "C07W"], env=env, deadline=600, tag="-wire")
    merged = D.merge_reports(reports)
    return D.finish("C07", tier, "model_checking", merged, t0,
        rule="(codec) for 9 nested schemas every exclusion spec of one path and every pair of paths over the candidate paths (every value path of the fully populated value to depth 4, plus one segment replaced by the wildcard or an absent name) is given to the JSON and ROR2 writers (output must denote the value minus exactly the matching sub-trees) and to the JSON, ROR2 and untyped readers at leading-scope offsets 0-3 (ExcludedFieldError iff the document carries a value at a matching path; excluded required fields not reported missing); (wire) the annotated resource (read-only / create-only fields at top level, nested, under array and map wildcards) x create, batch_create, update, batch_update, partial_update, batch_partial_update: bodies on the wire, client-side refusal before sending, server 400 without invoking the resource for raw bodies carrying excluded fields; states = specs, transitions = encode/decode calls or exchanges",
        assumptions=CODEC_ASSUME + ["the wildcard matches any one path segment (array items, map keys and field names alike)",
                                    "specs ending in the array wildcard are included; whether an excluded array item disappears or is emptied is judged by the pruned reference value (items keep their place, emptied)"],
        trusted_base=MC_ASSUME + CODEC_TRUST + WIRE_TRUST)


def build_c17d2(sc, gen, race=False):
    mod = D.make_module(sc, gen, "c17d2", name="c17d2-%s-%s" % (gen, "race" if race else "coop"))
    if race:
        # free-running pass: real sync; only the export file (and the unused shim package, which the harness imports)
        repl = {}
        od = D.overlay_add(sc, gen, repl, "d2/verif_export.go", os.path.join(D.VERIF, "overlay", "d2", "verif_export.go"), name="ov17r")
        shim = os.path.join(od, "verifsync.go")
        open(shim, "w").write(open(os.path.join(D.VERIF, "overlay", "verifsync", "verifsync.go")).read())
        repl[os.path.join(D.GENS[gen]["dir"], "verifsync", "verifsync.go")] = shim
    else:
        files = ["d2/lazymap/lazymap.go", "d2/client.go"]
        if re.search(r'(?m)^\s*"sync"\s*$', open(os.path.join(D.GENS[gen]["dir"], "d2/serviceUris.go")).read()):
            files.append("d2/serviceUris.go")
        od, repl = D.overlay_sync(sc, gen, files, name="ov17")
        D.overlay_add(sc, gen, repl, "d2/verif_export.go", os.path.join(D.VERIF, "overlay", "d2", "verif_export.go"), name="ov17")
    ov = D.write_overlay(od, repl, name="overlay-%s.json" % ("race" if race else "coop"))
    return D.go_build(mod, os.path.join(mod, "h"), overlay=ov, race=race)


def C17(sc, tier, replay, t0):
    """C17: cooperative exhaustive interleaving exploration (deciding step) of handler+client and of the D2
    resolver, plus a free-running pass of the same bodies under the race detector (supplementary detector)."""
    reports = []
    universe = "resources-quick"
    gens = ["v2", "root"]
    rp = None
    if replay:
        rp = json.load(open(replay)).get("replay") or {}
        gens = [rp.get("gen", "v2")]
    race_runs = []
    for gen in gens:
        env = {"VERIF_UNIVERSE": universe}
        if not rp or rp.get("part") == "C17":
            binary = D.build_with_bindings(sc, gen, "wire", universe, resources=True)
            if rp:
                return subprocess.run([binary, "-gen", gen, "-replay", replay], env=dict(D.goenv(), **env)).returncode
            reports += D.run_shards(binary, gen, tier, max(1, D.NCPU // 2 - 1), os.path.join(sc.dir, "out"), extra_args=["-part", "C17"], env=env,
                                    deadline=(3000 if tier == "thorough" else 600), tag="-wire")
        if not rp or rp.get("scenario"):
            binary = build_c17d2(sc, gen)
            if rp:
                return subprocess.run([binary, "-gen", gen, "-replay", replay], env=D.goenv()).returncode
            reports += D.run_shards(binary, gen, tier, 5, os.path.join(sc.dir, "out"), deadline=(3000 if tier == "thorough" else 600), tag="-d2")
        if rp:
            continue
        # supplementary: free-running under the race detector
        rb_wire = D.build_with_bindings(sc, gen, "wire-race" if False else "wire", universe, resources=True, race=True) if tier == "thorough" or True else None
        rb_d2 = build_c17d2(sc, gen, race=True)
        for gmp in ["1", "2", "16"]:
            for name, cmd in (("handler+client", [rb_wire, "-gen", gen, "-part", "C17race", "-tier", tier]), ("d2 resolver", [rb_d2, "-gen", gen, "-part", "race"])):
                e = dict(D.goenv(), GOMAXPROCS=gmp, GORACE="halt_on_error=0", **env)
                p = subprocess.run(cmd, env=e, stdout=subprocess.PIPE, stderr=subprocess.STDOUT, text=True)
                races = p.stdout.count("WARNING: DATA RACE") + p.stdout.count("REGISTRY-OUTCOME:")
                race_runs.append({"gen": gen, "target": name, "GOMAXPROCS": int(gmp), "races": races, "exit": p.returncode})
                if races or p.returncode not in (0, 66):
                    site = "unknown"
                    m = re.search(r"(?:restli|restlicodec|d2|fnv1a|restlidata)[\w/]*/[\w.]+\.go:\d+", p.stdout)
                    if m:
                        site = m.group(0)
                    logp = os.path.join(D.VERIF, "evidence", "replay", "C17-race-%s-%s.log" % (gen, name.split()[0]))
                    os.makedirs(os.path.dirname(logp), exist_ok=True)
                    open(logp, "w").write(p.stdout[:200000])
                    reports.append({"gen": gen, "sub": {}, "failures": [{"sig": "%s race %s at %s" % (gen, name, site),
                                    "detail": "the race detector reported %d data race(s) in the free-running pass (GOMAXPROCS=%s); first report:\n%s" % (races, gmp, p.stdout[:3000]),
                                    "replay": {"gen": gen, "race_log": logp}}], "fail_count": 1})
    merged = D.merge_reports(reports)
    return D.finish("C17", tier, "model_checking", merged, t0,
        rule="deciding step: stateless DFS over all schedules (cooperative scheduler) of (a) pairs (all interleavings) and triples (preemption bound 2 / 3) of mixed requests - get, create, update, delete, finder, action, batch_get, error and status-override outcomes, one ErrorResponse shared by all requests - against ONE handler and ONE client, at the harness-owned points round-trip entry/exit, PreRequest, resource entry/exit, PostRequest; each request's observations must equal those of the same request in isolation; (b) 2-3 concurrent D2 resolutions plus the cluster's single updater thread on one client, all interleavings at the lazy map's sync operations (shimmed) and RNG draws; states = request combinations / scenarios, transitions = scheduler steps, executions = schedules run on the real code. Supplementary: the same bodies free-running under the race detector (GOMAXPROCS 1, 2, 16); a race report is a violation, silence is not counted as coverage",
        assumptions=["unsynchronised accesses between two scheduling points cannot be interleaved by a cooperative scheduler and weak-memory effects are not modelled: those are only detected (soundly, not completely) by the supplementary -race pass",
                     "the custom-typeref registry is written at init time only and read through sync.Map; it is not explored separately",
                     "a cluster's ZooKeeper events are consumed by one goroutine (waitForUriUpdates), so scenarios have at most one updater thread"],
        trusted_base=MC_ASSUME + WIRE_TRUST + ["verifsync shim", "overlay/d2/verif_export.go", "Go race detector (supplementary)"],
        extra_cov={"race_pass": race_runs})


_C09_codec = codec_check("C09", "C09", "model_checking", gens=("v2",), maprot=True, genrots=(1, 6),
    rule="exhaustive at the seam where order enters: every permutation of keyWriter call order (n<=5, thorough 6) for WriteMap on all five writers x 4 key sets (prefix pairs, case, non-ASCII, empty, reserved characters) x {flat, nested} x {no exclusion, one key excluded}; every permutation of parameter order through BuildQueryParams; every insertion order of keys into string / int64 / bytes / hash-colliding key sets; outputs must be byte-identical across orders with keys, parameters and ids ascending; Equal values (copies, map-insertion-order rebuilds) must encode identically in all 5 formats, also after a warm-up of unrelated encodes; the whole pool of map-bearing values is encoded in one process per Go map-iteration start (runtime overlay; 16 starts quick, 64 thorough) and the digests must agree; supplementary: 64 re-encodings from freshly built maps inside each process; states = key sets / values, transitions = encode calls",
    assumptions=["Go map iteration order is owned through a runtime overlay (lib/c12.py maprot_overlay): one process per iteration start VERIF_MAPROT with fixed hash seeds; one global start per process is enumerated, not independent starts per iteration",
                 "v2 only, as the property states"])


C11 = codec_check("C11", "C11", "model_checking", universes=("constraints", "constraints"),
    rule="exhaustive enumeration of constraint-violating and constraint-satisfying values and documents on generated bindings: unions (5 unions, every subset of members set, documents with 0/1/2 members, unknown member) both directions in JSON and ROR2; fixed (sizes 1, 2, 16 x payload lengths 0..size+2); enums (constants -1..n+1; symbol strings declared / unknown / wrong case / padded / numeric); partial updates (4 records x every assignment of a subset of {delete, set, nested patch} to each field with a family of nested patches x 3 exclusion specs): encode errors iff the constraint is violated, decoding the equivalent reference document errors iff violated, legal patches emit the protocol's patch/$set/$delete document and round-trip; states = values / patches, transitions = encode or decode calls")

from c12 import C12


def C20(sc, tier, replay, t0):
    """Directory cleaning (harness/c20) + the generator-level clauses of the statement: hand-written
    custom typeref files beside generated code are located, never generated over, modified or removed,
    and regeneration reproduces the same files (lib/c12.py on the schema sets with custom typerefs)."""
    if replay:
        return _C20_clean(sc, tier, replay, t0)
    import io, contextlib, c12
    # run the cleaning part without letting it write the evidence: capture its merged report
    captured = {}
    orig_finish = D.finish
    def fake_finish(prop, tier_, level, merged, t0_, **kw):
        captured["merged"], captured["kw"] = merged, kw
        return 0
    D.finish = fake_finish
    try:
        _C20_clean(sc, tier, None, t0)
    finally:
        D.finish = orig_finish
    merged, kw = captured["merged"], captured["kw"]
    import zlib
    # schema sets with hand-written files (v2), the sets whose types are relocated or renamed (namespace cycles, name
    # clashes: regeneration must reproduce their files too) and, in both generations, a fixed eighth (thorough: half) of all
    # schema sets for the clauses about entries the generator does not own
    share = 2 if tier == "thorough" else 8
    subs, failures, samples, notes, capped = c12.run_part_a(
        sc, tier, ["v2", "root"], select=lambda e: bool(e.get("Files")) or "cycle" in e["ID"] or "clash" in e["ID"] or zlib.crc32(e["ID"].encode()) % share == 0,
        rots=[0, 1, 2, 3] if tier == "thorough" else [0, 1], universes=False)
    for name, sd in subs.items():
        if name.endswith("/compile") or name.endswith("/vet"):
            continue
        sd = dict(sd)
        merged["sub"]["generator-" + name] = sd
    kept = 0
    for f in failures:
        item = (f.get("replay") or {}).get("item", "")
        kind = f["sig"].split(" ")[1] if " " in f["sig"] else ""
        # the sampled sets without hand-written files are here for the clauses about entries the generator does not
        # own; whether the generator can handle them at all is C12's business (and C12's known findings)
        if not ("Ct" in item or "custom" in item) and kind not in ("regenerate", "user-files", "package-root-layout", "deterministic", "missing-target"):
            continue
        f = dict(f)
        f["sig"] = "generator " + f["sig"]
        f["replay"] = None
        merged["failures"].append(f)
        kept += 1
    merged["fail_count"] = merged.get("fail_count", 0) + kept
    kw["rule"] = kw["rule"] + "; plus, for every schema set of the C12 grammar that has hand-written custom typeref files (v2), the real generator run flat, again over its own output, and with the package-root layout: the files are located (no <Type>.gr.go generated beside them), left byte-identical, and the generated tree is reproduced exactly; and, for those sets plus a fixed share of all other sets in both generations, a generation into a directory already holding a non-empty user directory at the path of a generated file, a user file beside generated files and a user directory leaves all of them byte for byte untouched"
    return D.finish("C20", tier, "model_checking", merged, t0, **kw)


def plus_wire(prop, codec, part, rule_suffix, doc, deadline_q=600, deadline_t=3000, gens=("v2", "root")):
    """prop = its codec-harness check + a wire-harness part on resources-quick; the two reports are merged."""
    def run(sc, tier, replay, t0):
        if replay:
            rp = json.load(open(replay)).get("replay") or {}
            if rp.get("part") == part:
                gen = rp.get("gen", "v2")
                uni = rp.get("universe", "resources-quick")
                binary = D.build_with_bindings(sc, gen, "wire", uni, resources=True)
                return subprocess.run([binary, "-gen", gen, "-replay", replay], env=dict(D.goenv(), VERIF_UNIVERSE=uni)).returncode
            return codec(sc, tier, replay, t0)
        captured = {}
        orig_finish = D.finish
        def fake_finish(prop_, tier_, level, merged, t0_, **kw):
            captured["merged"], captured["kw"] = merged, kw
            return 0
        D.finish = fake_finish
        try:
            codec(sc, tier, None, t0)
        finally:
            D.finish = orig_finish
        merged, kw = captured["merged"], captured["kw"]
        uni = "resources-quick"  # the R-universe's resources are enough here
        reports = []
        for gen in gens:
            binary = D.build_with_bindings(sc, gen, "wire", uni, resources=True)
            reports += D.run_shards(binary, gen, tier, max(1, D.NCPU // 2), os.path.join(sc.dir, "out-" + part), extra_args=["-part", part],
                                    env={"VERIF_UNIVERSE": uni}, deadline=(deadline_t if tier == "thorough" else deadline_q), tag="-" + part)
        m2 = D.merge_reports(reports)
        for k, v in m2["sub"].items():
            merged["sub"][k] = v
        merged["failures"] += m2["failures"]
        merged["failures"].sort(key=lambda f: f["sig"])
        merged["fail_count"] = merged.get("fail_count", 0) + m2.get("fail_count", 0)
        merged["exhaustive"] = merged["exhaustive"] and m2["exhaustive"]
        merged["capped"] += m2["capped"]
        kw["rule"] = kw["rule"] + rule_suffix
        return D.finish(prop, tier, "model_checking", merged, t0, **kw)
    run.__doc__ = doc
    return run


C04 = plus_wire("C04", _C04_codec, "C04H", "; (HTTP level) the valid request of every method of every resource with every short ROR2 string as extra / whole query and as key segment, every truncation / single-byte edit of query and JSON body, header variants, replayed raw against the real server: never a panic, 5xx or stack trace, and 4xx without resource invocation whenever the reference parser rejects the query / body; the valid response with every truncation / single-byte edit of its body and id / location / error-header / status / content-type variants fed to the generated client: the call returns, never panics",
                      "C04 = reader-level robustness (codec harness) + HTTP-level robustness of server and client (wire harness, part C04H).")

C06 = plus_wire("C06", _C06_codec, "C06W", "; (wire level) the complete response of every method answering with an entity, with every required path deleted / nulled and every pair deleted, fed to the generated client: a lenient client returns the value with every other field intact and no error, a strict client the same value and one MissingRequiredFieldsError naming exactly those paths",
                      "C06 = required-field accounting of the four readers (codec harness) + lenient / strict client on incomplete responses (wire harness, part C06W).")


C14 = plus_wire("C14", _C14_fn, "C14W", "; (wire level) every method of every resource of the R-universe x every argument position x its reduced alphabet through generated clients with tunnelling thresholds 1, 40 and 10^6 against the real router: the call reaches the method it names with the arguments given, exactly as the untunnelled call does",
                "C14 = tunnelling encode / decode at function and client level (harness c14) + tunnelled calls end to end through generated clients and the router (wire harness, part C14W).")

C15 = plus_wire("C15", _C15_url, "C15W", "; (wire level) every method of every resource (top-level, sub-resources two and three levels deep, below a simple resource) through the generated clients, whose RootResource() feeds the resolver, with bases /ctx, /ctx/, /a/b, a context path ending in a sub-resource's name, and context paths ending in the root resource's name (server deployed at the path without it): the request reaches the method it names with the arguments given",
                "C15 = URL construction over the base-URL grammar (harness c15, hand-written resource path) + generated resource paths end to end (wire harness, part C15W).")


C03 = plus_wire("C03", _C03_codec, "C03W", "; (wire level) every keyed collection x {create, batch_create} x the full key alphabet x {no context path, /ctx/} through generated client, router and mock: X-RestLi-Id and element ids are the created key in ROR2 header form, the Location header and element locations are the request path followed by the key escaped for a URL path",
               "C03 = codec conformance against the reference codecs (codec harness) + id / location envelope of create responses (wire harness, part C03W).")


C09 = plus_wire("C09", _C09_codec, "C09W", "; (wire level, v2) every method of every resource x every argument position x its reduced alphabet through the generated clients: the query of the request that goes out lists its parameters in strictly ascending byte order of their names and the ids of batch requests in ascending encoded order",
               "C09 = canonical serialization at codec level (codec harness, map-iteration overlay) + canonical request queries of generated clients (wire harness, part C09W).", gens=("v2",))
