#!/usr/bin/env python3
"""Warm the build cache: build each harness once for each generation (no run)."""
import os, sys
sys.path.insert(0, os.path.dirname(os.path.abspath(__file__)))
import driver as D, checks
with D.Scratch() as sc:
    for name in sorted(dir(checks)):
        if name.startswith("warm_"):
            getattr(checks, name)(sc)
