#!/usr/bin/env python3
"""Build the base Go build cache (/verif/.work/gocache-base): the standard library (plain, with the
race detector, and with the runtime overlay that owns map iteration), the packages of both
repository modules and of verif/mc. Every check seeds its private cache with hard links to it."""
import os, shutil, subprocess, sys
sys.path.insert(0, os.path.dirname(os.path.abspath(__file__)))
import driver as D

base = D.GOCACHE_BASE
tmp = base + ".building"
shutil.rmtree(tmp, ignore_errors=True)
os.makedirs(tmp)
env = D.goenv()
env["GOCACHE"] = tmp


def go(args, cwd, extra=None, ok_to_fail=False):
    e = dict(env)
    if extra:
        e.update(extra)
    p = subprocess.run(["go"] + args, cwd=cwd, env=e, stdout=subprocess.PIPE, stderr=subprocess.STDOUT, text=True)
    if p.returncode != 0 and not ok_to_fail:
        print(p.stdout[-2000:])
        sys.exit(1)


for gen in ("v2", "root"):
    d = D.GENS[gen]["dir"]
    # (restlidata/generated holds a main package without main(): its link step fails, the rest is cached)
    go(["build", "./..."], d, ok_to_fail=True)
    go(["vet", "./restli/...", "./restlicodec/...", "./d2/..."], d, ok_to_fail=True)
    go(["build", "-race", "./restli/...", "./restlicodec/...", "./d2/...", "./fnv1a/..."], d, extra={"CGO_ENABLED": "1"}, ok_to_fail=True)
go(["build", "./..."], os.path.join(D.VERIF, "mc"))
# the generator with the map-iteration overlay (rebuilds the runtime and everything above it)
with D.Scratch(gocache=False) as sc:
    import c12
    ov = c12.maprot_overlay(sc)
    for gen in ("v2", "root"):
        mod = D.make_module(sc, gen, "genmain")
        p = subprocess.run(["go", "build", "-tags", "verifgen", "-overlay", ov, "-o", os.path.join(sc.dir, "g-" + gen), "."], cwd=mod, env=env,
                           stdout=subprocess.PIPE, stderr=subprocess.STDOUT, text=True)
        if p.returncode != 0:
            print(p.stdout[-2000:])
            sys.exit(1)
shutil.rmtree(base, ignore_errors=True)
os.rename(tmp, base)
n = sum(len(f) for _, _, f in os.walk(base))
print("base build cache: %d files" % n)
