#!/usr/bin/env python3
"""Runs the pinned test suite of a go-restli tree (default /repo) and compares the set of
passing tests with /root/.vp/BASELINE.json. Exit 0 iff all 316 stable tests pass."""
import json, os, subprocess, sys
repo = sys.argv[1] if len(sys.argv) > 1 else "/repo"
base = json.load(open("/root/.vp/BASELINE.json"))
want = set(base["stable_pass"])
env = dict(os.environ, GOFLAGS="-mod=mod", GOPROXY="off", GOSUMDB="off", GOTOOLCHAIN="local")
passed = set(); failed = set()
for m in [".", "v2"]:
    p = subprocess.run(["go", "test", "-json", "-vet=off", "-count=1", "-timeout", "25m", "./..."],
                       cwd=os.path.join(repo, m), env=env, stdout=subprocess.PIPE, stderr=subprocess.DEVNULL, text=True)
    for line in p.stdout.splitlines():
        try: ev = json.loads(line)
        except Exception: continue
        if ev.get("Test") and ev.get("Action") in ("pass", "fail"):
            name = "%s::%s" % (ev["Package"], ev["Test"])
            (passed if ev["Action"] == "pass" else failed).add(name)
missing = sorted(want - passed)
print("baseline: %d/%d stable tests pass; %d failed tests" % (len(want & passed), len(want), len(failed)))
for n in missing[:20]: print("  NOT PASSING:", n)
sys.exit(0 if not missing else 1)
