"""C12: the code generator is total, deterministic and yields compilable bindings; the checked-in
bindings are equivalent to what the current generator produces.

Part A enumerates every schema set of the bounded grammar (mc/schema/grammar.go) plus the big
universes used by the other checks, runs the generator of /repo's working tree on each of them in
fresh processes - one per value of the runtime's map-iteration start (the only source of
nondeterminism inside the generator; owned through a runtime overlay, see maprot_overlay) - compares
the outputs byte for byte, regenerates over the previous output, and compiles and vets every output
in isolation.  Part B regenerates the checked-in bindings and compares bytes, then syntax trees,
then exported API and behaviour (harness/c12diff)."""
import hashlib, json, os, re, shutil, subprocess, sys, time
from concurrent.futures import ThreadPoolExecutor, ProcessPoolExecutor
import driver as D

BIG_UNIVERSES = {"quick": ["codec-quick", "resources-quick", "defaults", "constraints"],
                 "thorough": ["codec-full", "resources-full", "defaults", "constraints"]}


def maprot_overlay(sc):
    """Overlay replacing runtime/map.go and runtime/alg.go: when VERIF_MAPROT=<n> is in the
    environment every map iteration starts at the bucket / slot derived from n instead of a random
    one, and map hash seeds and hash keys are constants, so that the iteration order of every map is
    a function of (contents, insertion history, n) only."""
    od = os.path.join(sc.dir, "maprot")
    p = os.path.join(od, "overlay.json")
    if os.path.exists(p):
        return p
    os.makedirs(od, exist_ok=True)
    goroot = D.run(["go", "env", "GOROOT"]).stdout.strip()
    src = os.path.join(goroot, "src", "runtime", "map.go")
    s = open(src).read()
    old = "\tr := uintptr(rand())\n\tit.startBucket = r & bucketMask(h.B)"
    if s.count(old) != 1 or s.count("hash0 = uint32(rand())") < 3:
        raise D.Internal("runtime/map.go of %s does not have the expected iteration start / seed code" % goroot)
    s = s.replace(old, "\tr := uintptr(rand())\n\tif v, ok := verifMapRot(); ok {\n\t\tr = v\n\t}\n\tit.startBucket = r & bucketMask(h.B)")
    s = s.replace("hash0 = uint32(rand())", "hash0 = verifHash0(uint32(rand()))")
    s += '''

var verifRotState uint8 // 0 unknown, 1 off, 2 on
var verifRotVal uintptr

// verifMapRot returns the fixed iteration start chosen by VERIF_MAPROT (decimal), if set. The
// environment is read straight from the process arguments so that it is available before goenvs.
func verifMapRot() (uintptr, bool) {
	if verifRotState == 0 {
		verifRotState = 1
		if argv != nil {
			for n := int32(0); ; n++ {
				p := argv_index(argv, argc+1+n)
				if p == nil {
					break
				}
				s := gostringnocopy(p)
				if len(s) > 13 && s[:13] == "VERIF_MAPROT=" {
					var v uintptr
					for i := 13; i < len(s); i++ {
						v = v*10 + uintptr(s[i]-'0')
					}
					verifRotVal = v
					verifRotState = 2
				}
			}
		}
	}
	return verifRotVal, verifRotState == 2
}

func verifHash0(random uint32) uint32 {
	if _, ok := verifMapRot(); ok {
		return 0x9e3779b9
	}
	return random
}

func verifBootstrapRand(random uint64, i int) uint64 {
	if _, ok := verifMapRot(); ok {
		return 0x9e3779b97f4a7c15 * uint64(i+1)
	}
	return random
}
'''
    patched = os.path.join(od, "map.go.txt")
    open(patched, "w").write(s)
    asrc = os.path.join(goroot, "src", "runtime", "alg.go")
    a = open(asrc).read()
    o1, o2 = "hashkey[i] = uintptr(bootstrapRand())", "key[i] = bootstrapRand()"
    if a.count(o1) != 1 or a.count(o2) != 1:
        raise D.Internal("runtime/alg.go of %s does not have the expected hash key initialisation" % goroot)
    a = a.replace(o1, "hashkey[i] = uintptr(verifBootstrapRand(bootstrapRand(), i))").replace(o2, "key[i] = verifBootstrapRand(bootstrapRand(), i)")
    apatched = os.path.join(od, "alg.go.txt")
    open(apatched, "w").write(a)
    rsrc = os.path.join(goroot, "src", "runtime", "rand.go")
    r = open(rsrc).read()
    o3 = "func rand32() uint32 {\n\treturn uint32(rand())\n}"
    if r.count(o3) != 1:
        raise D.Internal("runtime/rand.go of %s does not have the expected rand32 (seed of stack-allocated maps)" % goroot)
    r = r.replace(o3, "func rand32() uint32 {\n\treturn verifHash0(uint32(rand()))\n}")
    rpatched = os.path.join(od, "rand.go.txt")
    open(rpatched, "w").write(r)
    json.dump({"Replace": {src: patched, asrc: apatched, rsrc: rpatched}}, open(p, "w"))
    return p


def rmtree(d):
    if not os.path.exists(d):
        return
    for root, dirs, files in os.walk(d):
        for x in dirs:
            try:
                os.chmod(os.path.join(root, x), 0o755)
            except OSError:
                pass
    shutil.rmtree(d, ignore_errors=True)


def tree_hash(d, skip=()):
    """sha256 over (relative path, content) of every file below d; returns (hash, nfiles)."""
    h = hashlib.sha256()
    n = 0
    for root, dirs, files in os.walk(d):
        dirs.sort()
        for f in sorted(files):
            p = os.path.join(root, f)
            rel = os.path.relpath(p, d)
            if rel in skip:
                continue
            h.update(rel.encode() + b"\0")
            h.update(open(p, "rb").read())
            h.update(b"\0")
            n += 1
    return h.hexdigest(), n


def tree_files(d):
    out = {}
    for root, dirs, files in os.walk(d):
        for f in files:
            p = os.path.join(root, f)
            out[os.path.relpath(p, d)] = open(p, "rb").read()
    return out


def first_diff(a, b):
    fa, fb = tree_files(a), tree_files(b)
    for k in sorted(set(fa) | set(fb)):
        if k not in fa:
            return "file %s only in the second output" % k
        if k not in fb:
            return "file %s only in the first output" % k
        if fa[k] != fb[k]:
            la, lb = fa[k].decode("utf8", "replace").split("\n"), fb[k].decode("utf8", "replace").split("\n")
            for i in range(max(len(la), len(lb))):
                x = la[i] if i < len(la) else "<eof>"
                y = lb[i] if i < len(lb) else "<eof>"
                if x != y:
                    return "%s line %d: %r vs %r" % (k, i + 1, x[:160], y[:160])
    return "no difference found"


class Sub:
    def __init__(self, bounds):
        self.d = {"evaluations": 0, "states": 0, "transitions": 0, "traces": 0, "classes": {}, "exhaustive": True, "bounds": bounds}

    def cls(self, c, n=1):
        self.d["classes"][c] = self.d["classes"].get(c, 0) + n

    def ev(self, n=1):
        self.d["evaluations"] += n
        self.d["transitions"] += n
        self.d["traces"] += n


ERR_LINE = re.compile(r"^(?:\./)?(g/(i\d{4}_[a-z0-9_]+)/[^:]*):(\d+):(?:\d+:)? (.*)$")


def norm_msg(m):
    m = re.sub(r"verifharness/g/i\d{4}_[a-z0-9_]+", "<root>", m)
    m = re.sub(r"g/i\d{4}_[a-z0-9_]+/", "", m)
    m = re.sub(r"\s+", " ", m)
    return m.strip()[:200]


def attribute(output):
    """Map compiler / vet output to {item dir: [messages]}."""
    per = {}
    cur = None
    for line in output.split("\n"):
        m = ERR_LINE.match(line.strip())
        if m:
            per.setdefault(m.group(2), []).append("%s: %s" % (os.path.basename(m.group(1)), norm_msg(m.group(4))))
            continue
        m2 = re.search(r"g/(i\d{4}_[a-z0-9_]+)", line)
        if m2 and ("cycle" in line or "imports" in line or "invalid" in line or "cannot" in line or "malformed" in line or "use of internal" in line or "is not in std" in line or "found packages" in line):
            per.setdefault(m2.group(1), []).append(norm_msg(line))
    return per


def gen_item(job):
    """All generator runs of one grammar item (runs in a worker process)."""
    gen, genbin, gdir, mod, scdir, rots, e = job

    def gen_once(e, r, target, with_pkgroot=False, make=True):
        if make:
            os.makedirs(target, exist_ok=True)
        for rel in e.get("Files") or []:
            p = os.path.join(target, e["PkgRoot"], rel) if with_pkgroot else os.path.join(target, rel)
            os.makedirs(os.path.dirname(p), exist_ok=True)
            shutil.copy(os.path.join(gdir, e["Dir"], "files", rel), p)
        env = D.goenv()
        env["VERIF_MAPROT"] = str(r)
        if with_pkgroot:
            env["VERIF_GEN_WITH_PKGROOT"] = "1"
        args = [genbin, os.path.join(gdir, e["Dir"], "manifest.json"), target] + ([e["PkgRoot"]] if gen == "root" else [])
        try:
            p = subprocess.run(args, cwd=gdir, env=env, stdout=subprocess.PIPE, stderr=subprocess.STDOUT, text=True, timeout=600)
        except subprocess.TimeoutExpired:
            return 124, "generator did not finish within 600 s"
        return p.returncode, p.stdout

    res = {"e": e, "fails": [], "runs": 0}
    target0 = os.path.join(mod, "g", e["Dir"])
    rc, out = gen_once(e, rots[0], target0)
    res["runs"] += 1
    if rc != 0:
        res["fails"].append(("generate", "generator exits %d: %s" % (rc, norm_gen_msg(out))))
        rmtree(target0)
        return res
    h0, n0 = tree_hash(target0)
    res["files"] = n0
    custom = {rel: open(os.path.join(gdir, e["Dir"], "files", rel), "rb").read() for rel in e.get("Files") or []}
    for rel, content in custom.items():
        if not os.path.exists(os.path.join(target0, rel)) or open(os.path.join(target0, rel), "rb").read() != content:
            res["fails"].append(("regenerate", "hand-written file %s was modified or removed by generation" % rel))
    if res["fails"]:
        return res
    for r in rots[1:]:
        t = os.path.join(scdir, "rot-%s-%s-%d" % (gen, e["Dir"], r))
        rc, out = gen_once(e, r, t)
        res["runs"] += 1
        if rc != 0:
            res["fails"].append(("generate", "generator exits %d with VERIF_MAPROT=%d only: %s" % (rc, r, norm_gen_msg(out))))
        else:
            h, n = tree_hash(t)
            if h != h0:
                res["fails"].append(("deterministic", "output with map-iteration start %d differs from start %d: %s" % (r, rots[0], first_diff(target0, t))))
        rmtree(t)
        if res["fails"]:
            break
    # regenerate over the previous output
    rc, out = gen_once(e, rots[0], target0)
    res["runs"] += 1
    if rc != 0:
        res["fails"].append(("regenerate", "regenerating over the previous output exits %d: %s" % (rc, norm_gen_msg(out))))
    else:
        h1, n1 = tree_hash(target0)
        if h1 != h0:
            res["fails"].append(("regenerate", "regenerating over the previous output changes the tree (%d -> %d files)" % (n0, n1)))
        for rel, content in custom.items():
            if not os.path.exists(os.path.join(target0, rel)) or open(os.path.join(target0, rel), "rb").read() != content:
                res["fails"].append(("regenerate", "hand-written file %s was modified or removed by regeneration" % rel))
    # entries the generator does not own survive a generation: a non-empty directory sitting at the path of a file
    # the generator wants to write, a user directory and a user file beside generated files (whatever the exit code)
    if not res["fails"]:
        t = os.path.join(scdir, "userfiles-%s-%s" % (gen, e["Dir"]))
        gen_files = []
        for root, _, files in os.walk(target0):
            for f in sorted(files):
                if f.endswith(".gr.go"):
                    gen_files.append(os.path.relpath(os.path.join(root, f), target0))
        gen_files.sort()
        user = {}
        if gen_files:
            g0 = gen_files[len(gen_files) // 2]
            user[os.path.join(g0, "notes.txt")] = b"mine\n"
            user[os.path.join(g0, "patches", "0001.diff")] = b"--- a\n+++ b\n"
            user[os.path.join(os.path.dirname(g0), "NOTES.md")] = b"# notes\n"
        user[os.path.join("mine", "readme.txt")] = b"not generated\n"
        for rel, content in user.items():
            pth = os.path.join(t, rel)
            os.makedirs(os.path.dirname(pth), exist_ok=True)
            open(pth, "wb").write(content)
        rc, out = gen_once(e, rots[0], t)
        res["runs"] += 1
        res["userfiles"] = True
        for rel, content in sorted(user.items()):
            pth = os.path.join(t, rel)
            if not os.path.isfile(pth) or open(pth, "rb").read() != content:
                res["fails"].append(("user-files", "user file %s was removed or changed by a generation (generator exit %d)" % (re.sub(r"^.*?/(?=[^/]+\.gr\.go/)", "<pkg>/", rel), rc)))
                break
        rmtree(t)
    # a target that does not exist yet, two levels below a directory that does not exist either
    if not res["fails"] and not (e.get("Files") or []):
        top = os.path.join(scdir, "missing-%s-%s" % (gen, e["Dir"]))
        t = os.path.join(top, "not", "there", "out")
        rc, out = gen_once(e, rots[0], t, make=False)
        res["runs"] += 1
        if rc != 0:
            res["fails"].append(("missing-target", "generating into a target whose parents do not exist exits %d: %s" % (rc, norm_gen_msg(out))))
        else:
            hm, nm = tree_hash(t) if os.path.isdir(t) else ("", 0)
            if hm != h0:
                res["fails"].append(("missing-target", "the tree generated into a target that did not exist differs from the one generated into an existing directory (%d vs %d files)" % (nm, n0)))
        rmtree(top)
    # v2: the package-root layout must hold the same tree below <outdir>/<packageRoot>
    if gen == "v2" and not res["fails"]:
        t = os.path.join(scdir, "pkgroot-%s-%s" % (gen, e["Dir"]))
        # (generator-owned leftovers of an earlier layout outside <outdir>/<packageRoot>: cleaning covers the whole
        # output directory, so they must be gone afterwards)
        stale = [os.path.join(t, "oldroot", "pkg", "Old.gr.go"), os.path.join(t, "Stray.gr.go")]
        for pth in stale:
            os.makedirs(os.path.dirname(pth), exist_ok=True)
            open(pth, "w").write("package old\n")
        rc, out = gen_once(e, rots[0], t, with_pkgroot=True)
        left = [os.path.relpath(pth, t) for pth in stale if os.path.exists(pth)]
        if rc == 0 and left:
            res["fails"].append(("package-root-layout", "generator-owned files outside <outdir>/<packageRoot> survive cleaning and regeneration with the package-root layout: %s" % ", ".join(left)))
        res["runs"] += 1
        res["pkgroot"] = True
        if rc != 0:
            res["fails"].append(("package-root-layout", "generating with the package-root layout exits %d: %s" % (rc, norm_gen_msg(out))))
        else:
            sub = os.path.join(t, e["PkgRoot"])
            hp, np_ = tree_hash(sub) if os.path.isdir(sub) else ("", 0)
            if hp != h0:
                res["fails"].append(("package-root-layout", "the tree generated below <outdir>/<packageRoot> differs from the flat one: %s" % (first_diff(target0, sub) if os.path.isdir(sub) else "directory missing")))
        rmtree(t)
    # v2: a second schema set that depends on this one through the manifest this generation wrote: a record in
    # another package root using every typeref of the set (custom ones are only known as such through that
    # manifest). Generated below the item's directory, so that it is compiled and vetted with it.
    if gen == "v2" and not res["fails"] and (e.get("Files") or []):
        written = os.path.join(target0, "go-restli-manifest.gr.json")
        try:
            first = json.load(open(os.path.join(gdir, e["Dir"], "manifest.json")))
            refs = []
            for dt in first.get("inputDataTypes", []):
                if "typeref" in dt:
                    refs.append((dt["typeref"]["name"], dt["typeref"]["namespace"]))
            if refs and os.path.isfile(written):
                fields = []
                for i, (n, ns) in enumerate(sorted(refs)):
                    fields.append({"name": "f%d" % i, "doc": "", "type": {"reference": {"name": n, "namespace": ns}}, "isOptional": i % 2 == 1})
                    fields.append({"name": "l%d" % i, "doc": "", "type": {"array": {"reference": {"name": n, "namespace": ns}}}, "isOptional": True})
                dep = {"packageRoot": e["PkgRoot"] + "/dependent", "dependencyDataTypes": [], "resources": [],
                       "inputDataTypes": [{"record": {"name": "DepUser", "namespace": "dep", "sourceFile": "verif-dependent", "doc": "", "includes": [], "fields": fields}}]}
                depdir = os.path.join(scdir, "dep-%s-%s" % (gen, e["Dir"]))
                os.makedirs(depdir, exist_ok=True)
                depman = os.path.join(depdir, "manifest.json")
                json.dump(dep, open(depman, "w"))
                env = D.goenv()
                env["VERIF_MAPROT"] = str(rots[0])
                t = os.path.join(target0, "dependent")
                os.makedirs(t, exist_ok=True)
                p = subprocess.run([genbin, depman, t, written], cwd=gdir, env=env, stdout=subprocess.PIPE, stderr=subprocess.STDOUT, text=True, timeout=600)
                res["runs"] += 1
                res["dependent"] = True
                if p.returncode != 0:
                    res["fails"].append(("dependent", "generating a schema set that depends on this one through its written manifest exits %d: %s" % (p.returncode, norm_gen_msg(p.stdout))))
                rmtree(depdir)
        except (OSError, ValueError) as x:
            res["fails"].append(("dependent", "cannot prepare the dependent schema set: %s" % x))
    return res


def run_part_a(sc, tier, gens, only=None, t_deadline=None, select=None, rots=None, universes=True):
    subs, failures, samples, notes = {}, [], [], []
    capped = []
    emit = D.build_emit(sc)
    ov = maprot_overlay(sc)
    if rots is None:
        rots = list(range(64)) if tier == "thorough" else list(range(8))
    for gen in gens:
        gmod = D.make_module(sc, gen, "genmain")
        genbin = D.go_build(gmod, os.path.join(sc.dir, "genbin-rot-" + gen), overlay=ov, tags="verifgen")
        gdir = os.path.join(sc.dir, "grammar-" + gen)
        D.run([emit, "-grammar", tier, "-gen", gen, "-pkgroot", "verifharness/g", "-outdir", gdir], timeout=300)
        index = json.load(open(os.path.join(gdir, "index.json")))
        for i, uni in enumerate(BIG_UNIVERSES[tier] if universes else []):
            d = "i9%03d_%s" % (i, re.sub(r"[^a-z0-9]+", "_", uni))
            os.makedirs(os.path.join(gdir, d))
            D.run([emit, "-universe", uni, "-gen", gen, "-pkgroot", "verifharness/g/" + d, "-manifest", os.path.join(gdir, d, "manifest.json")], timeout=300)
            index.append({"ID": "universe-" + uni, "Family": "universe", "Desc": "the schema universe %s of the codec / wire checks" % uni, "Dir": d,
                          "PkgRoot": "verifharness/g/" + d, "Files": []})
        if select:
            index = [e for e in index if select(e)]
        if only:
            index = [e for e in index if e["ID"] == only]
            if not index:
                raise D.Internal("no grammar item %s in tier %s / generation %s" % (only, tier, gen))
        mod = os.path.join(sc.dir, "c12mod-" + gen)
        os.makedirs(os.path.join(mod, "g"))
        g = D.GENS[gen]
        open(os.path.join(mod, "go.mod"), "w").write("module verifharness\n\ngo 1.18\n\nrequire %s %s\n\nreplace %s => %s\n" % (g["mod"], g["ver"], g["mod"], g["dir"]))
        shutil.copy(os.path.join(g["dir"], "go.sum"), os.path.join(mod, "go.sum"))

        sg = Sub("every grammar item (families field / param / key / methods / nest / ns, see mc/schema/grammar.go) and the big universes; the generator must exit 0")
        sd = Sub("every item generated in %d fresh processes, one per map-iteration start VERIF_MAPROT=0..%d (covers every start bucket and slot of maps up to 8 buckets): byte-identical output trees" % (len(rots), len(rots) - 1))
        sr = Sub("every item regenerated over its own previous output (clean + generate): identical tree, hand-written files untouched")
        sp = Sub("v2: every item generated once more with the package-root layout (custom typeref files placed below <outdir>/<packageRoot>): the tree below <outdir>/<packageRoot> equals the flat one byte for byte")
        sc_ = Sub("every generated tree compiled in isolation (own package root inside one module): go build")
        sv = Sub("every generated tree including its generated tests: go vet")
        su = Sub("every item generated into a directory that already holds a non-empty user directory at the path of a generated file, a user file beside generated files and a user directory: all of them byte for byte untouched, whatever the generator's exit code")
        subs[gen + "/user-files"] = su.d
        if gen == "v2":
            subs[gen + "/package-root-layout"] = sp.d
        subs.update({gen + "/generate": sg.d, gen + "/deterministic": sd.d, gen + "/regenerate": sr.d, gen + "/compile": sc_.d, gen + "/vet": sv.d})
        bydir = {e["Dir"]: e for e in index}

        jobs = [(gen, genbin, gdir, mod, sc.dir, rots, e) for e in index]
        with ProcessPoolExecutor(max_workers=D.NCPU) as ex:
            results = list(ex.map(gen_item, jobs, chunksize=2))
        ok_dirs = []
        for res in results:
            e = res["e"]
            sg.d["states"] += 1
            sg.ev(1)
            sd.ev(max(0, res["runs"] - 2 - (1 if res.get("pkgroot") else 0) - (1 if res.get("userfiles") else 0)))
            sr.ev(1)
            kinds = set(k for k, _ in res["fails"])
            if res.get("userfiles"):
                su.ev(1)
                su.d["states"] += 1
                su.cls("touched" if "user-files" in kinds else "untouched")
            if res.get("pkgroot"):
                sp.ev(1)
                sp.d["states"] += 1
                sp.cls("differs" if "package-root-layout" in kinds else "same-tree")
            sd.ev(0)
            for kind, msg in res["fails"]:
                failures.append({"sig": "%s %s %s :: %s" % (gen, kind, e["ID"], re.sub(r"\d+", "N", msg)[:160]),
                                 "detail": "%s (%s): %s" % (e["ID"], e["Desc"], msg),
                                 "replay": {"gen": gen, "tier": tier, "item": e["ID"]}})
            sg.cls(("fail:" if "generate" in kinds else "ok:") + e["Family"])
            if "generate" not in kinds:
                sd.cls("differs" if "deterministic" in kinds else "identical:%s" % e["Family"])
                sr.cls("changed" if "regenerate" in kinds else "stable")
                ok_dirs.append(e["Dir"])
        if len(samples) < 6 and results:
            e = results[0]["e"]
            samples.append({"generation": gen, "item": e["ID"], "what": e["Desc"], "generator_runs": results[0]["runs"], "files": results[0].get("files")})

        # ---- load errors (import cycles, invalid package names), then build, then vet
        env = D.goenv()
        bad = {}
        pkgs = {}  # item dir -> non-main packages
        if ok_dirs:
            p = subprocess.run(["go", "list", "-e", "-f", "{{.ImportPath}}\t{{.Name}}\t{{if .Error}}{{.Error}}{{end}}{{range .DepsErrors}} | {{.}}{{end}}", "./g/..."],
                               cwd=mod, env=env, stdout=subprocess.PIPE, stderr=subprocess.STDOUT, text=True)
            for line in p.stdout.split("\n"):
                line = line.replace("\n", " ")
                m = re.match(r"verifharness/g/(i\d{4}_[a-z0-9_]+)(\S*)\t(\S*)\t(.*)$", line)
                if not m:
                    m2 = re.search(r"g/(i\d{4}_[a-z0-9_]+)", line)
                    if m2 and line.strip():
                        bad.setdefault(m2.group(1), []).append(norm_msg(line))
                    continue
                if m.group(4).strip():
                    bad.setdefault(m.group(1), []).append(norm_msg(m.group(4)))
                elif m.group(3) != "main":
                    pkgs.setdefault(m.group(1), []).append("./g/" + m.group(1) + m.group(2))
        buildable = [d for d in ok_dirs if d not in bad]
        outs = {"compile": {}, "vet": {}}
        outs["compile"].update(bad)

        def go_step(cmd, dirs, patterns):
            per = {}
            # chunks keep the command line short and let a chunk-level failure be attributed
            chunks = [dirs[i:i + 40] for i in range(0, len(dirs), 40)]

            def do(chunk):
                args = []
                for d in chunk:
                    args += patterns(d)
                if not args:
                    return {}
                p = subprocess.run(cmd + args, cwd=mod, env=env, stdout=subprocess.PIPE, stderr=subprocess.STDOUT, text=True)
                a = attribute(p.stdout)
                if p.returncode != 0 and not a:
                    raise D.Internal("%s failed without attributable output:\n%s" % (" ".join(cmd), p.stdout[-4000:]))
                return a
            with ThreadPoolExecutor(max_workers=4) as ex:
                for a in ex.map(do, chunks):
                    for k, v in a.items():
                        per.setdefault(k, []).extend(v)
            return per
        # the generated all_imports_test.gr.go makes the package root a main package without main():
        # it is type-checked by go vet only
        outs["compile"].update(go_step(["go", "build", "-gcflags=-e"], buildable, lambda d: pkgs.get(d, [])))
        vettable = [d for d in buildable if d not in outs["compile"]]
        outs["vet"].update(go_step(["go", "vet"], vettable, lambda d: ["./g/%s/..." % d]))
        for d in ok_dirs:
            e = bydir[d]
            sc_.ev(1)
            sc_.d["states"] += 1
            if d in outs["compile"]:
                msgs = outs["compile"][d]
                sc_.cls("fail:" + e["Family"])
                failures.append({"sig": "%s compile %s :: %s" % (gen, e["ID"], msgs[0]),
                                 "detail": "%s (%s): the generated code does not compile:\n%s" % (e["ID"], e["Desc"], "\n".join(msgs[:12])),
                                 "replay": {"gen": gen, "tier": tier, "item": e["ID"]}})
                continue
            sc_.cls("ok:" + e["Family"])
            sv.ev(1)
            if d in outs["vet"]:
                msgs = outs["vet"][d]
                sv.cls("fail:" + e["Family"])
                failures.append({"sig": "%s vet %s :: %s" % (gen, e["ID"], msgs[0]),
                                 "detail": "%s (%s): go vet rejects the generated code:\n%s" % (e["ID"], e["Desc"], "\n".join(msgs[:12])),
                                 "replay": {"gen": gen, "tier": tier, "item": e["ID"]}})
            else:
                sv.cls("ok:" + e["Family"])
        rmtree(mod)
    return subs, failures, samples, notes, capped


def norm_gen_msg(out):
    lines = [l for l in out.strip().split("\n") if l.strip()]
    keep = [l for l in lines if "panic" in l or "rror" in l or "go-restli" in l]
    s = " | ".join((keep or lines)[-3:])
    s = re.sub(r"^\d{4}/\d\d/\d\d \d\d:\d\d:\d\d ", "", s)
    s = re.sub(r"/tmp/verif-[A-Za-z0-9_]+/", "", s)
    return s[:300]


# ---------------------------------------------------------------- part B

def run_part_b(sc, tier):
    subs, failures, samples = {}, [], []
    sb = Sub("the checked-in bindings (v2/restlidata/generated from its manifest, v2/restlidata/PagingContext, root restlidata/*.gr.go) regenerated by the current generator and compared byte for byte; on a difference: syntax trees without comments; on a difference: exported API and the behavioural differential harness/c12diff")
    subs["checked-in/equivalence"] = sb.d
    pairs = []  # (name, checked-in dir, regenerated dir, gen, package import path)
    # v2 bindings from the checked-in manifest
    v2dir = D.GENS["v2"]["dir"]
    gmod = D.make_module(sc, "v2", "genmain", name="genmain-plain-v2")
    genbin = D.go_build(gmod, os.path.join(sc.dir, "genbin-plain-v2"), tags="verifgen")
    checked = os.path.join(v2dir, "restlidata", "generated")
    regen = os.path.join(sc.dir, "regen-v2")
    p = D.run([genbin, os.path.join(checked, "go-restli-manifest.gr.json"), regen], cwd=sc.dir, check=False, timeout=600)
    if p.returncode != 0:
        failures.append({"sig": "v2 checked-in regenerate :: generator fails", "detail": "the generator fails on the checked-in manifest: " + norm_gen_msg(p.stdout), "replay": {"part": "B"}})
    else:
        pairs.append(("v2/restlidata/generated", checked, regen, "v2"))
    # v2 PagingContext and root restlidata have their own small generator programs
    for name, gen, pkg, rel in (("v2/restlidata (PagingContext)", "v2", "./internal/pagingcontext", "restlidata"),
                                ("restlidata (root)", "root", "./internal/restlidata", "restlidata")):
        gdir = D.GENS[gen]["dir"]
        b = os.path.join(sc.dir, "regenbin-" + gen)
        D.run(["go", "build", "-o", b, pkg], cwd=gdir, timeout=600)
        work = os.path.join(sc.dir, "regen-small-" + gen)
        os.makedirs(os.path.join(work, "x"))
        cwd = os.path.join(work, "x") if gen == "v2" else work
        p = D.run([b], cwd=cwd, check=False, timeout=300)
        if p.returncode != 0:
            failures.append({"sig": "%s checked-in regenerate :: generator fails" % gen, "detail": "%s fails: %s" % (pkg, norm_gen_msg(p.stdout)), "replay": {"part": "B"}})
            continue
        pairs.append((name, os.path.join(gdir, rel), os.path.join(work, "restlidata"), gen))
    astdiff = None
    for name, checked, regen, gen in pairs:
        new = {k: v for k, v in tree_files(regen).items() if k.endswith(".gr.go") or k.endswith(".gr.json")}
        old = {k: v for k, v in tree_files(checked).items() if (k.endswith(".gr.go") or k.endswith(".gr.json")) and (os.sep not in k or name == "v2/restlidata/generated")}
        if name != "v2/restlidata/generated":
            old = {k: v for k, v in old.items() if os.sep not in k}
        sb.d["states"] += len(set(old) | set(new))
        differing = []
        for k in sorted(set(old) | set(new)):
            sb.ev(1)
            if k not in new:
                failures.append({"sig": "%s checked-in %s :: not produced any more" % (gen, k), "detail": "%s: the checked-in generated file %s is not produced by the current generator" % (name, k), "replay": {"part": "B"}})
                sb.cls("missing")
            elif k not in old:
                failures.append({"sig": "%s checked-in %s :: not checked in" % (gen, k), "detail": "%s: the current generator produces %s, which is not checked in" % (name, k), "replay": {"part": "B"}})
                sb.cls("extra")
            elif old[k] == new[k]:
                sb.cls("byte-identical")
            else:
                differing.append(k)
        if not differing:
            continue
        # level 2: syntax trees
        if astdiff is None:
            astdiff = os.path.join(sc.dir, "astdiff")
            D.run(["go", "build", "-o", astdiff, "./cmd/astdiff"], cwd=os.path.join(D.VERIF, "mc"), timeout=600)
        still = []
        for k in differing:
            if k.endswith(".json"):
                if json.loads(old[k]) == json.loads(new[k]):
                    sb.cls("same-json")
                else:
                    failures.append({"sig": "%s checked-in %s :: manifest differs" % (gen, k), "detail": "%s: the regenerated manifest %s differs from the checked-in one" % (name, k), "replay": {"part": "B"}})
                continue
            p = D.run([astdiff, os.path.join(checked, k), os.path.join(regen, k)], check=False)
            if p.returncode == 0:
                sb.cls("same-syntax-tree")
            else:
                still.append((k, p.stdout.strip()[:600]))
        if not still:
            continue
        # level 3: exported API + behaviour
        rc, out = behavioural_diff(sc, name, checked, regen, gen)
        if rc == 0:
            for k, _ in still:
                sb.cls("behaviourally-equivalent")
        else:
            for k, d in still:
                sb.cls("differs")
            first = out.split("\n")[0]
            m = re.match(r"^(\w+: (?:ComputeHash|Equals|\w+ encoding|decoding \w+))", first)
            what = m.group(1) if m else re.sub(r"0x[0-9a-f]+|\d+", "N", first)[:100]
            failures.append({"sig": "%s checked-in %s :: %s" % (gen, name, what),
                             "detail": "%s: regenerated files %s differ from the checked-in ones (%s) and the differential harness reports:\n%s" % (name, [k for k, _ in still], still[0][1], out[:3000]),
                             "replay": {"part": "B"}})
    samples.append({"checked_in": [n for n, _, _, _ in pairs]})
    return subs, failures, samples


def behavioural_diff(sc, name, checked, regen, gen):
    """Builds harness/c12diff over package A (checked-in directory) and package B (the same directory
    with the regenerated files) and runs it. Returns (exit code, output)."""
    tag = re.sub(r"[^a-z0-9]+", "_", name.lower())
    mod = D.make_module(sc, gen, "c12diff", name="c12diff-" + tag)
    # the package directory that holds the Go files
    def pkgdir(root):
        for r, _, files in os.walk(root):
            if any(f.endswith(".gr.go") and not f.endswith("_test.gr.go") for f in files):
                return r
        raise D.Internal("no generated Go file below " + root)
    src = pkgdir(checked)
    new = pkgdir(regen)
    for side, overlay in (("a", None), ("b", new)):
        dst = os.path.join(mod, "side" + side)
        os.makedirs(dst)
        for f in os.listdir(src):
            if f.endswith(".go") and not f.endswith("_test.go"):
                shutil.copy(os.path.join(src, f), os.path.join(dst, f))
                os.chmod(os.path.join(dst, f), 0o644)
        if overlay:
            for f in os.listdir(overlay):
                if f.endswith(".gr.go") and not f.endswith("_test.gr.go"):
                    shutil.copy(os.path.join(overlay, f), os.path.join(dst, f))
                    os.chmod(os.path.join(dst, f), 0o644)
    reg = os.path.join(sc.dir, "c12reg")
    if not os.path.exists(reg):
        D.run(["go", "build", "-o", reg, "./cmd/c12reg"], cwd=os.path.join(D.VERIF, "mc"), timeout=600)
    p = D.run([reg, os.path.join(mod, "sidea"), os.path.join(mod, "sideb"), os.path.join(mod, "zz_registry.go")], check=False)
    if p.returncode != 0:
        return 1, "exported API differs: " + p.stdout.strip()
    try:
        binary = D.go_build(mod, os.path.join(mod, "h"))
    except D.Internal as e:
        return 1, "the regenerated package does not build next to the checked-in one: " + str(e)[-1500:]
    p = D.run([binary], check=False, timeout=3000)
    lines = [l for l in p.stdout.strip().split("\n") if not l.startswith("c12diff:")]
    summary = [l for l in p.stdout.strip().split("\n") if l.startswith("c12diff:")]
    if p.returncode not in (0, 1):
        raise D.Internal("c12diff crashed:\n" + p.stdout[-3000:])
    return p.returncode, "\n".join(lines + summary)


def C12(sc, tier, replay, t0):
    gens = ["v2", "root"]
    only = None
    if replay:
        doc = json.load(open(replay)).get("replay") or {}
        if doc.get("part") == "B":
            subs, failures, samples = run_part_b(sc, tier)
            for f in failures:
                print("FAIL:", f["sig"], "\n ", f["detail"])
            return 1 if failures else 0
        gens, only, tier = [doc["gen"]], doc["item"], doc.get("tier", tier)
    subs, failures, samples, notes, capped = run_part_a(sc, tier, gens, only=only)
    if replay:
        for f in failures:
            print("FAIL:", f["sig"], "\n ", f["detail"])
        print("replayed item %s: %d failures" % (only, len(failures)))
        return 1 if failures else 0
    sb, fb, smb = run_part_b(sc, tier)
    subs.update(sb)
    failures += fb
    samples += smb
    merged = {"sub": subs, "failures": sorted(failures, key=lambda f: f["sig"]), "fail_count": len(failures), "samples": samples,
              "exhaustive": True, "capped": capped, "skipped": {}, "notes": notes, "extra": {}}
    return D.finish("C12", tier, "model_checking", merged, t0,
                    rule="bounded-exhaustive enumeration of schema sets (grammar families field / param / key / methods / nest / ns + the universes of the other checks), each run through the real generator of both generations in one fresh process per map-iteration start (runtime overlay makes the start a parameter: 8 starts quick, 64 thorough), outputs compared byte for byte, regenerated in place, compiled and vetted in isolation; checked-in bindings regenerated and compared (bytes, syntax trees, API + behavioural differential); states = schema sets, transitions = generator / compiler runs",
                    assumptions=["schema sets enter as the generator's intermediate JSON (manifest / parsed spec); the Java schema parser is not exercised",
                                 "well-formed means: names are legal Pegasus identifiers, references resolve, defaults are valid literals of their type, include graphs are acyclic",
                                 "map iteration order is the generator's only internal nondeterminism (no goroutines, clocks or random numbers in cmd/ and codegen/); one global start value per process is enumerated, not independent starts per iteration",
                                 "behavioural equivalence of checked-in bindings is decided by bytes or syntax trees when those coincide, otherwise over the value pools of harness/c12diff"],
                    trusted_base=["go build / go vet of the installed toolchain", "runtime overlay for map iteration start", "mc/schema grammar emitter"])
