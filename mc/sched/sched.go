// Package sched is a cooperative scheduler plus a stateless depth-first explorer over
// schedules of real goroutines. Exactly one registered thread runs at a time; at every
// Point/Block call the running thread parks and the explorer decides who runs next.
//
// Exploration is exhaustive within a preemption bound (Bound >= 0) or outright (Bound < 0);
// optional state-key pruning cuts an execution as soon as it reaches a state (harness state
// key + per-thread observation logs + scheduler budget) that was already expanded.
package sched

import (
	"fmt"
	"hash/fnv"
	"runtime/debug"
	"sort"
	"strings"
	"time"
)

type abortSentinel struct{}

// Thread is one controlled goroutine.
type Thread struct {
	ID     int
	Name   string
	resume chan struct{}
	label  string
	pred   func() bool
	done   bool
	start  bool
	obs    []string
	fn     func()
	Panic  interface{}
	Stack  string
}

// Exec is one execution (one schedule) of a harness.
type Exec struct {
	threads  []*Thread
	cur      *Thread
	parked   chan struct{}
	aborting bool
	// Trace is the list of (thread id, label) steps taken so far.
	Trace []Step
	// user data
	Data interface{}
}

type Step struct {
	Thread int
	Label  string
}

var active *Exec

// Active reports whether a controlled execution is in progress.
func Active() bool { return active != nil }

// CurID is the id of the running thread, -1 outside an execution.
func CurID() int {
	if active == nil || active.cur == nil {
		return -1
	}
	return active.cur.ID
}

// Go registers a thread. Must be called from setup or from a running thread.
func (e *Exec) Go(name string, fn func()) *Thread {
	t := &Thread{ID: len(e.threads), Name: name, resume: make(chan struct{}), fn: fn, label: "start", start: true}
	e.threads = append(e.threads, t)
	go func() {
		<-t.resume
		defer func() {
			if r := recover(); r != nil {
				if _, ok := r.(abortSentinel); !ok {
					t.Panic = r
					t.Stack = string(debug.Stack())
				}
			}
			t.done = true
			e.parked <- struct{}{}
		}()
		if e.aborting {
			panic(abortSentinel{})
		}
		t.fn()
	}()
	return t
}

// Point is a scheduling point placed before an atomic operation of the code under test.
func Point(label string) {
	e := active
	if e == nil || e.cur == nil { // outside an execution, or during its sequential setup phase
		return
	}
	if e.aborting { // a deferred call of a thread that is being unwound
		panic(abortSentinel{})
	}
	t := e.cur
	t.label = label
	t.pred = nil
	e.parked <- struct{}{}
	<-t.resume
	if e.aborting {
		panic(abortSentinel{})
	}
}

// Block parks the running thread until pred holds; it is a scheduling point too. When the
// thread is resumed pred is true and nothing ran in between.
func Block(label string, pred func() bool) {
	e := active
	if e == nil || e.cur == nil {
		if !pred() {
			panic("sched.Block outside an execution would block forever: " + label)
		}
		return
	}
	if e.aborting {
		panic(abortSentinel{})
	}
	t := e.cur
	t.label = label
	t.pred = pred
	e.parked <- struct{}{}
	<-t.resume
	t.pred = nil
	if e.aborting {
		panic(abortSentinel{})
	}
}

// Observe appends to the running thread's observation log (part of the state key).
func Observe(s string) {
	e := active
	if e == nil || e.cur == nil {
		return
	}
	e.cur.obs = append(e.cur.obs, s)
}

// Threads returns the threads of the execution.
func (e *Exec) Threads() []*Thread { return e.threads }

func (t *Thread) Done() bool     { return t.done }
func (t *Thread) Label() string  { return t.label }
func (t *Thread) Blocked() bool  { return !t.done && t.pred != nil && !t.pred() }
func (t *Thread) Obs() []string  { return t.obs }

func (e *Exec) enabled() []*Thread {
	var en []*Thread
	if e.cur != nil && !e.cur.done && (e.cur.pred == nil || e.cur.pred()) {
		en = append(en, e.cur)
	}
	for _, t := range e.threads {
		if t == e.cur || t.done {
			continue
		}
		if t.pred == nil || t.pred() {
			en = append(en, t)
		}
	}
	return en
}

func (e *Exec) allDone() bool {
	for _, t := range e.threads {
		if !t.done {
			return false
		}
	}
	return true
}

func (e *Exec) abort() {
	e.aborting = true
	for _, t := range e.threads {
		for !t.done {
			t.resume <- struct{}{}
			<-e.parked
		}
	}
}

func (e *Exec) threadKey() string {
	var sb strings.Builder
	for _, t := range e.threads {
		h := fnv.New64a()
		for _, o := range t.obs {
			h.Write([]byte(o))
			h.Write([]byte{0})
		}
		fmt.Fprintf(&sb, "|%d:%v:%s:%d:%x", t.ID, t.done, t.label, len(t.obs), h.Sum64())
	}
	return sb.String()
}

// Harness describes one closed system to explore.
type Harness struct {
	// Setup builds a fresh instance and registers threads with e.Go.
	Setup func(e *Exec)
	// StateKey returns a canonical description of shared state + monitor (for pruning).
	StateKey func(e *Exec) string
	// OnState is evaluated at every decision point (all threads parked). Non-nil = violation.
	OnState func(e *Exec) error
	// OnEnd is evaluated after every complete execution. Non-nil = violation.
	OnEnd func(e *Exec) error
}

type Options struct {
	Bound    int  // max preemptions; <0 = unbounded
	Prune    bool // state-key pruning
	Deadline time.Time
	MaxFail  int // stop after this many failures (default 1)
}

type Failure struct {
	Kind     string // deadlock | panic | state | end
	Msg      string
	Schedule []int
	Trace    []Step
}

type Result struct {
	Execs        int64 // executions started (complete or pruned)
	Complete     int64 // executions that ran to completion
	Pruned       int64
	Transitions  int64 // scheduler steps
	States       int64 // distinct state keys (only with Prune) else decision points
	MaxPreempt   int
	MaxDepth     int
	Capped       bool
	Failures     []Failure
	SampleTraces [][]Step
	Outcomes     map[string]int64
}

type frame struct {
	n      int // enabled count
	choice int
	cost   []int // preemption cost of each alternative (0/1)
	used   int   // preemptions used before this frame
}

// Explore enumerates schedules of h.
func Explore(h Harness, opt Options) *Result {
	res := &Result{Outcomes: map[string]int64{}}
	if opt.MaxFail == 0 {
		opt.MaxFail = 1
	}
	seen := map[string]struct{}{}
	var stack []frame
	for {
		if !opt.Deadline.IsZero() && time.Now().After(opt.Deadline) {
			res.Capped = true
			return res
		}
		fail, pruned := runOne(h, opt, &stack, seen, res)
		res.Execs++
		if pruned {
			res.Pruned++
		} else {
			res.Complete++
		}
		if fail != nil {
			res.Failures = append(res.Failures, *fail)
			if len(res.Failures) >= opt.MaxFail {
				return res
			}
		}
		// backtrack
		for len(stack) > 0 {
			f := &stack[len(stack)-1]
			next := -1
			for alt := f.choice + 1; alt < f.n; alt++ {
				if opt.Bound < 0 || f.used+f.cost[alt] <= opt.Bound {
					next = alt
					break
				}
			}
			if next >= 0 {
				f.choice = next
				break
			}
			stack = stack[:len(stack)-1]
		}
		if len(stack) == 0 {
			if opt.Prune {
				res.States = int64(len(seen))
			}
			return res
		}
	}
}

// runOne executes one schedule: replays stack choices, then extends with choice 0.
func runOne(h Harness, opt Options, stack *[]frame, seen map[string]struct{}, res *Result) (fail *Failure, pruned bool) {
	e := &Exec{parked: make(chan struct{})}
	active = e
	defer func() { active = nil }()
	h.Setup(e)
	depth := 0
	used := 0
	mk := func(kind, msg string) *Failure {
		sch := make([]int, 0, depth)
		for i := 0; i < depth && i < len(*stack); i++ {
			sch = append(sch, (*stack)[i].choice)
		}
		return &Failure{Kind: kind, Msg: msg, Schedule: sch, Trace: append([]Step(nil), e.Trace...)}
	}
	for {
		en := e.enabled()
		if h.OnState != nil {
			if err := h.OnState(e); err != nil {
				f := mk("state", err.Error())
				e.abort()
				return f, false
			}
		}
		if len(en) == 0 {
			if e.allDone() {
				break
			}
			var bl []string
			for _, t := range e.threads {
				if !t.done {
					bl = append(bl, fmt.Sprintf("T%d@%s", t.ID, t.label))
				}
			}
			f := mk("deadlock", "no enabled thread; blocked: "+strings.Join(bl, ","))
			e.abort()
			return f, false
		}
		var choice int
		if depth < len(*stack) {
			f := &(*stack)[depth]
			if f.n != len(en) {
				panic(fmt.Sprintf("INTERNAL: replay divergence at depth %d: recorded %d enabled, now %d", depth, f.n, len(en)))
			}
			choice = f.choice
			used = f.used + f.cost[choice]
		} else {
			if opt.Prune {
				key := ""
				if h.StateKey != nil {
					key = h.StateKey(e)
				}
				cur := -1
				if e.cur != nil {
					cur = e.cur.ID
				}
				if opt.Bound >= 0 {
					key = fmt.Sprintf("%s#%d#%d", key, cur, used)
				}
				key += e.threadKey()
				if _, ok := seen[key]; ok {
					e.abort()
					return nil, true
				}
				seen[key] = struct{}{}
			} else {
				res.States++
			}
			cost := make([]int, len(en))
			if e.cur != nil && len(en) > 0 && en[0] == e.cur {
				for i := 1; i < len(en); i++ {
					cost[i] = 1
				}
			}
			*stack = append(*stack, frame{n: len(en), choice: 0, cost: cost, used: used})
			choice = 0
			used += cost[0]
		}
		if used > res.MaxPreempt {
			res.MaxPreempt = used
		}
		t := en[choice]
		e.cur = t
		e.Trace = append(e.Trace, Step{t.ID, t.label})
		depth++
		res.Transitions++
		t.resume <- struct{}{}
		<-e.parked
		if t.Panic != nil {
			f := mk("panic", fmt.Sprintf("thread %d panicked: %v\n%s", t.ID, t.Panic, t.Stack))
			e.abort()
			return f, false
		}
	}
	if depth > res.MaxDepth {
		res.MaxDepth = depth
	}
	if len(res.SampleTraces) < 3 {
		res.SampleTraces = append(res.SampleTraces, append([]Step(nil), e.Trace...))
	}
	e.cur = nil // the harness may call shimmed operations from OnEnd: they are plain calls now
	if h.OnEnd != nil {
		if err := h.OnEnd(e); err != nil {
			return mk("end", err.Error()), false
		}
	}
	return nil, false
}

// Replay runs exactly one schedule (choices beyond the list default to 0) and returns the
// failure, if any, plus the trace.
func Replay(h Harness, schedule []int) (*Failure, []Step) {
	stack := make([]frame, 0, len(schedule))
	// Build frames lazily: we cannot know n/cost in advance, so run with a custom loop.
	e := &Exec{parked: make(chan struct{})}
	active = e
	defer func() { active = nil }()
	h.Setup(e)
	_ = stack
	depth := 0
	for {
		en := e.enabled()
		if h.OnState != nil {
			if err := h.OnState(e); err != nil {
				tr := append([]Step(nil), e.Trace...)
				e.abort()
				return &Failure{Kind: "state", Msg: err.Error(), Schedule: schedule, Trace: tr}, tr
			}
		}
		if len(en) == 0 {
			if e.allDone() {
				break
			}
			tr := append([]Step(nil), e.Trace...)
			e.abort()
			return &Failure{Kind: "deadlock", Msg: "no enabled thread", Schedule: schedule, Trace: tr}, tr
		}
		c := 0
		if depth < len(schedule) {
			c = schedule[depth]
		}
		if c >= len(en) {
			panic(fmt.Sprintf("INTERNAL: replay divergence at depth %d: choice %d of %d", depth, c, len(en)))
		}
		t := en[c]
		e.cur = t
		e.Trace = append(e.Trace, Step{t.ID, t.label})
		depth++
		t.resume <- struct{}{}
		<-e.parked
		if t.Panic != nil {
			tr := append([]Step(nil), e.Trace...)
			e.abort()
			return &Failure{Kind: "panic", Msg: fmt.Sprintf("thread %d panicked: %v", t.ID, t.Panic), Schedule: schedule, Trace: tr}, tr
		}
	}
	tr := append([]Step(nil), e.Trace...)
	e.cur = nil
	if h.OnEnd != nil {
		if err := h.OnEnd(e); err != nil {
			return &Failure{Kind: "end", Msg: err.Error(), Schedule: schedule, Trace: tr}, tr
		}
	}
	return nil, tr
}

// FormatTrace renders a trace compactly.
func FormatTrace(tr []Step) string {
	parts := make([]string, len(tr))
	for i, s := range tr {
		parts[i] = fmt.Sprintf("T%d:%s", s.Thread, s.Label)
	}
	return strings.Join(parts, " ")
}

// SortedKeys is a helper for canonical map rendering.
func SortedKeys(m map[string]string) []string {
	ks := make([]string, 0, len(m))
	for k := range m {
		ks = append(ks, k)
	}
	sort.Strings(ks)
	return ks
}
