// Package wire is a faithful in-memory HTTP exchange: the outgoing request is serialised
// with (*http.Request).Write, parsed with http.ReadRequest (the parser net/http's server
// uses, so URL.Path / RawPath / RequestURI are what a real server sees), handed to the
// handler, and the recorded response is serialised and parsed back with http.ReadResponse.
// No sockets, no timing. A panic escaping ServeHTTP is what a real server turns into a
// closed connection: it is reported as such.
package wire

import (
	"bufio"
	"bytes"
	"fmt"
	"io"
	"net/http"
	"net/http/httptest"
	"runtime/debug"
	"strings"
)

type Exchange struct {
	RawRequest  []byte
	RawResponse []byte
	ServerReq   *http.Request // as parsed on the server side (before the handler ran)
	Response    *http.Response
	Body        []byte
	Panic       interface{} // panic escaping ServeHTTP
	PanicStack  string
}

// ConnectionClosed is the transport error the client sees when the handler panicked.
type ConnectionClosed struct{ Cause interface{} }

func (c *ConnectionClosed) Error() string {
	return fmt.Sprintf("wire: connection closed by the server (handler panicked: %v)", c.Cause)
}

// Do performs one exchange against h.
func Do(h http.Handler, req *http.Request) (*Exchange, error) {
	var buf bytes.Buffer
	if err := req.Write(&buf); err != nil {
		return nil, fmt.Errorf("wire: cannot serialise request: %w", err)
	}
	return DoRaw(h, buf.Bytes())
}

// DoRaw feeds raw request bytes to the server side.
func DoRaw(h http.Handler, raw []byte) (*Exchange, error) {
	x := &Exchange{RawRequest: raw}
	sreq, err := http.ReadRequest(bufio.NewReader(bytes.NewReader(raw)))
	if err != nil {
		return x, fmt.Errorf("wire: server cannot parse request: %w", err)
	}
	sreq.RemoteAddr = "192.0.2.1:1234"
	x.ServerReq = sreq
	rec := httptest.NewRecorder()
	func() {
		defer func() {
			if r := recover(); r != nil {
				x.Panic = r
				x.PanicStack = string(debug.Stack())
			}
		}()
		h.ServeHTTP(rec, sreq)
	}()
	if x.Panic != nil {
		return x, &ConnectionClosed{x.Panic}
	}
	res := rec.Result()
	var rbuf bytes.Buffer
	if err := res.Write(&rbuf); err != nil {
		return x, fmt.Errorf("wire: cannot serialise response: %w", err)
	}
	x.RawResponse = rbuf.Bytes()
	cres, err := http.ReadResponse(bufio.NewReader(bytes.NewReader(x.RawResponse)), nil)
	if err != nil {
		return x, fmt.Errorf("wire: client cannot parse response: %w", err)
	}
	body, err := io.ReadAll(cres.Body)
	if err != nil {
		return x, fmt.Errorf("wire: truncated response body: %w", err)
	}
	x.Body = body
	cres.Body = io.NopCloser(bytes.NewReader(body))
	x.Response = cres
	return x, nil
}

// Transport is an http.RoundTripper backed by a handler; it keeps every exchange.
type Transport struct {
	Handler   http.Handler
	Exchanges []*Exchange
	// Hook, if set, is called at round-trip entry (scheduling point for concurrency checks).
	Hook func(req *http.Request)
	// Respond, if set, may replace the response the client sees (a peer answering with other bytes).
	Respond func(x *Exchange) *http.Response
}

func (t *Transport) RoundTrip(req *http.Request) (*http.Response, error) {
	if t.Hook != nil {
		t.Hook(req)
	}
	x, err := Do(t.Handler, req)
	if x != nil {
		t.Exchanges = append(t.Exchanges, x)
	}
	if err != nil {
		return nil, err
	}
	res := x.Response
	if t.Respond != nil {
		res = t.Respond(x)
	}
	res.Request = req
	return res, nil
}

// Last returns the most recent exchange.
func (t *Transport) Last() *Exchange {
	if len(t.Exchanges) == 0 {
		return nil
	}
	return t.Exchanges[len(t.Exchanges)-1]
}

// RequestLine extracts the request line of raw request bytes.
func RequestLine(raw []byte) string {
	if i := bytes.Index(raw, []byte("\r\n")); i >= 0 {
		return string(raw[:i])
	}
	return strings.TrimSpace(string(raw))
}
