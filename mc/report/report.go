// Package report is the result format shared by every harness binary. A harness fills a
// Report and writes it as JSON; the driver merges shards, applies the known-findings file,
// writes evidence and prints VIOLATION / KNOWN-FINDING lines.
package report

import (
	"encoding/json"
	"fmt"
	"os"
	"sort"
	"sync"
)

type Failure struct {
	// Sig identifies the failing element: "<gen> <sub-check> <locus> <element>".
	Sig    string          `json:"sig"`
	Detail string          `json:"detail"`
	Replay json.RawMessage `json:"replay,omitempty"`
}

type Report struct {
	mu          sync.Mutex
	Gen         string            `json:"gen"`
	Sub         map[string]*Sub   `json:"sub"`
	Failures    []Failure         `json:"failures"`
	FailCount   int64             `json:"fail_count"`
	Samples     []interface{}     `json:"samples"`
	Exhaustive  bool              `json:"exhaustive"`
	Capped      []string          `json:"capped,omitempty"`
	Skipped     map[string]int64  `json:"skipped,omitempty"`
	Notes       []string          `json:"notes,omitempty"`
	Extra       map[string]interface{} `json:"extra,omitempty"`
	maxFailKeep int
	sigSeen     map[string]int
}

// Sub holds the counters of one sub-check.
type Sub struct {
	Evaluations int64            `json:"evaluations"`
	States      int64            `json:"states"`
	Transitions int64            `json:"transitions"`
	Traces      int64            `json:"traces"`
	Classes     map[string]int64 `json:"classes"`
	Exhaustive  bool             `json:"exhaustive"`
	Bounds      string           `json:"bounds,omitempty"`
}

func New(gen string) *Report {
	return &Report{Gen: gen, Sub: map[string]*Sub{}, Exhaustive: true, Skipped: map[string]int64{},
		Extra: map[string]interface{}{}, maxFailKeep: 6000, sigSeen: map[string]int{}}
}

func (r *Report) S(name string) *Sub {
	r.mu.Lock()
	defer r.mu.Unlock()
	s := r.Sub[name]
	if s == nil {
		s = &Sub{Classes: map[string]int64{}, Exhaustive: true}
		r.Sub[name] = s
	}
	return s
}

// Class counts an outcome class for a sub-check (vacuity indicator).
func (s *Sub) Class(c string) { s.Classes[c]++ }

// Fail records a failing element. Failures with the same signature are kept once (first
// occurrence = smallest case because enumeration is simplest-first) and counted.
func (r *Report) Fail(sig, detail string, replay interface{}) {
	r.mu.Lock()
	defer r.mu.Unlock()
	r.FailCount++
	r.sigSeen[sig]++
	if r.sigSeen[sig] > 1 {
		return
	}
	if len(r.Failures) >= r.maxFailKeep {
		r.Failures = append(r.Failures[:r.maxFailKeep], Failure{Sig: "overflow", Detail: "more distinct failure signatures than kept"})
		return
	}
	var raw json.RawMessage
	if replay != nil {
		b, err := json.Marshal(replay)
		if err == nil {
			raw = b
		}
	}
	if len(detail) > 4000 {
		detail = detail[:4000] + "...(truncated)"
	}
	r.Failures = append(r.Failures, Failure{Sig: sig, Detail: detail, Replay: raw})
}

func (r *Report) Sample(v interface{}) {
	r.mu.Lock()
	defer r.mu.Unlock()
	if len(r.Samples) < 12 {
		r.Samples = append(r.Samples, v)
	}
}

func (r *Report) Skip(what string, n int64) {
	r.mu.Lock()
	r.Skipped[what] += n
	r.mu.Unlock()
}

func (r *Report) Cap(what string) {
	r.mu.Lock()
	r.Exhaustive = false
	r.Capped = append(r.Capped, what)
	r.mu.Unlock()
}

func (r *Report) Note(s string) {
	r.mu.Lock()
	r.Notes = append(r.Notes, s)
	r.mu.Unlock()
}

func (r *Report) Write(path string) {
	r.mu.Lock()
	defer r.mu.Unlock()
	sort.SliceStable(r.Failures, func(i, j int) bool { return r.Failures[i].Sig < r.Failures[j].Sig })
	b, err := json.Marshal(r)
	if err != nil {
		fmt.Fprintln(os.Stderr, "INTERNAL: cannot marshal report:", err)
		os.Exit(2)
	}
	if path == "" || path == "-" {
		os.Stdout.Write(b)
		os.Stdout.Write([]byte("\n"))
		return
	}
	if err := os.WriteFile(path, b, 0o644); err != nil {
		fmt.Fprintln(os.Stderr, "INTERNAL: cannot write report:", err)
		os.Exit(2)
	}
}

// Internal aborts the harness with an internal error (exit 2): never a property violation.
func Internal(format string, a ...interface{}) {
	fmt.Fprintf(os.Stderr, "INTERNAL: "+format+"\n", a...)
	os.Exit(2)
}
