// Package bind is the reflection bridge between abstract values (schema.V) and the Go
// values of generated bindings. It knows the layout rules of the generator's output
// (optional/defaulted fields are pointers, includes are embedded structs, unions are structs
// of pointers tagged with the member alias, enums are int32, fixed are byte arrays) and
// nothing about the library itself.
package bind

import (
	"fmt"
	"reflect"
	"strings"
	"unicode"

	"verif/mc/schema"
)

// GoFieldName mirrors the generator's identifier export rule for the simple names used in
// the universes (letters, digits, '_', '$').
func GoFieldName(name string) string {
	var sb strings.Builder
	for i, c := range name {
		switch {
		case unicode.IsLetter(c):
			if i == 0 {
				sb.WriteRune(unicode.ToUpper(c))
			} else {
				sb.WriteRune(c)
			}
		case unicode.IsNumber(c):
			if i == 0 {
				sb.WriteString("Exported_")
			}
			sb.WriteRune(c)
		case c == '_':
			if i == 0 {
				sb.WriteString("Exported")
			}
			sb.WriteRune(c)
		case c == '$':
			if i != 0 {
				sb.WriteRune('_')
			}
			sb.WriteString("DOLLAR_")
		}
	}
	return sb.String()
}

type Error struct{ Msg string }

func (e *Error) Error() string { return e.Msg }

func fail(format string, a ...interface{}) { panic(&Error{fmt.Sprintf(format, a...)}) }

// Custom converts custom-typeref values; set by harnesses that use them.
var CustomToGo func(v *schema.V, rt reflect.Type) (reflect.Value, bool)
var CustomFromGo func(rv reflect.Value, t *schema.Type) (*schema.V, bool)

// ToGo builds a Go value of type rt from v. v == nil means "unset" (nil pointer / zero).
func ToGo(v *schema.V, rt reflect.Type) reflect.Value {
	if rt.Kind() == reflect.Ptr {
		if v == nil {
			return reflect.Zero(rt)
		}
		p := reflect.New(rt.Elem())
		p.Elem().Set(ToGo(v, rt.Elem()))
		return p
	}
	if v == nil {
		return reflect.Zero(rt)
	}
	if v.T.Kind == schema.Typeref && v.T.Custom && CustomToGo != nil {
		if r, ok := CustomToGo(v, rt); ok {
			return r
		}
	}
	if v.T.Kind == schema.Typeref && v.T.Custom && rt.Kind() == reflect.Struct {
		// the hand-written custom type: struct{ V <primitive> }
		out := reflect.New(rt).Elem()
		f := out.FieldByName("V")
		if !f.IsValid() {
			fail("custom typeref %s: Go type %s has no field V", v.T.Name, rt)
		}
		under := *v
		under.T = v.T.Elem
		f.Set(ToGo(&under, f.Type()))
		return out
	}
	out := reflect.New(rt).Elem()
	switch v.T.Base().Kind {
	case schema.Int32, schema.Int64:
		out.SetInt(v.I)
	case schema.Float32, schema.Float64:
		out.SetFloat(v.F)
	case schema.Bool:
		out.SetBool(v.B)
	case schema.String:
		out.SetString(v.S)
	case schema.Bytes:
		if !v.Nil && v.Y != nil {
			out.SetBytes(append([]byte{}, v.Y...))
		}
	case schema.Fixed:
		if rt.Kind() != reflect.Array || rt.Len() != len(v.Y) {
			fail("fixed %s: Go type %s cannot hold %d bytes", v.T.Name, rt, len(v.Y))
		}
		for i, b := range v.Y {
			out.Index(i).SetUint(uint64(b))
		}
	case schema.Enum:
		out.SetInt(int64(v.Ord))
	case schema.Record:
		if rt.Kind() != reflect.Struct {
			fail("record %s: Go type %s is not a struct", v.T.Name, rt)
		}
		setRecord(v, out)
	case schema.Union:
		if v.Alias != "" {
			f, ok := unionField(rt, v.Alias)
			if !ok {
				fail("union %s: no Go field for member %q in %s", v.T.Name, v.Alias, rt)
			}
			out.FieldByIndex(f.Index).Set(ToGo(v.Mem, f.Type))
		}
		for _, extra := range v.Items { // additional members set (invalid unions, C11)
			f, ok := unionField(rt, extra.Alias)
			if !ok {
				fail("union %s: no Go field for member %q", v.T.Name, extra.Alias)
			}
			out.FieldByIndex(f.Index).Set(ToGo(extra.Mem, f.Type))
		}
	case schema.Array:
		if !v.Nil {
			s := reflect.MakeSlice(rt, len(v.Items), len(v.Items))
			for i, it := range v.Items {
				s.Index(i).Set(ToGo(it, rt.Elem()))
			}
			out.Set(s)
		}
	case schema.Map:
		if !v.Nil {
			m := reflect.MakeMapWithSize(rt, len(v.Keys))
			for _, k := range v.Keys {
				m.SetMapIndex(reflect.ValueOf(k).Convert(rt.Key()), ToGo(v.Ent[k], rt.Elem()))
			}
			out.Set(m)
		}
	}
	return out
}

func setRecord(v *schema.V, out reflect.Value) {
	rt := out.Type()
	if ck := v.T.ComplexKey; ck != nil {
		// struct { KeyRecord; Params *ParamsRecord }
		for name, fv := range v.Fields {
			if name == "$params" {
				f, ok := rt.FieldByName("Params")
				if !ok {
					fail("complex key %s: no Params field", v.T.Name)
				}
				out.FieldByIndex(f.Index).Set(ToGo(fv, f.Type))
				continue
			}
			f, ok := rt.FieldByName(GoFieldName(name))
			if !ok {
				fail("complex key %s: no Go field for %q", v.T.Name, name)
			}
			out.FieldByIndex(f.Index).Set(ToGo(fv, f.Type))
		}
		return
	}
	for name, fv := range v.Fields {
		f, ok := rt.FieldByName(GoFieldName(name))
		if !ok {
			fail("record %s: no Go field for %q in %s", v.T.Name, name, rt)
		}
		out.FieldByIndex(f.Index).Set(ToGo(fv, f.Type))
	}
}

func unionField(rt reflect.Type, alias string) (reflect.StructField, bool) {
	for i := 0; i < rt.NumField(); i++ {
		f := rt.Field(i)
		tag := f.Tag.Get("json")
		if j := strings.Index(tag, ","); j >= 0 {
			tag = tag[:j]
		}
		if tag == alias {
			return f, true
		}
	}
	// fall back to the generator's naming rule: last dotted component, exported
	want := GoFieldName(alias[strings.LastIndex(alias, ".")+1:])
	return rt.FieldByName(want)
}

// FromGo reads a Go value of a generated type back into an abstract value of type t.
func FromGo(rv reflect.Value, t *schema.Type) *schema.V {
	if rv.Kind() == reflect.Ptr {
		if rv.IsNil() {
			return nil
		}
		return FromGo(rv.Elem(), t)
	}
	if t.Kind == schema.Typeref && t.Custom && CustomFromGo != nil {
		if r, ok := CustomFromGo(rv, t); ok {
			return r
		}
	}
	if t.Kind == schema.Typeref && t.Custom && rv.Kind() == reflect.Struct {
		f := rv.FieldByName("V")
		if !f.IsValid() {
			fail("custom typeref %s: Go type %s has no field V", t.Name, rv.Type())
		}
		under := FromGo(f, t.Elem)
		under.T = t
		return under
	}
	switch t.Base().Kind {
	case schema.Int32, schema.Int64:
		return &schema.V{T: t, I: rv.Int()}
	case schema.Float32, schema.Float64:
		return &schema.V{T: t, F: rv.Float()}
	case schema.Bool:
		return &schema.V{T: t, B: rv.Bool()}
	case schema.String:
		return &schema.V{T: t, S: rv.String()}
	case schema.Bytes:
		if rv.IsNil() {
			return &schema.V{T: t, Nil: true}
		}
		return &schema.V{T: t, Y: append([]byte{}, rv.Bytes()...)}
	case schema.Fixed:
		y := make([]byte, rv.Len())
		for i := range y {
			y[i] = byte(rv.Index(i).Uint())
		}
		return &schema.V{T: t, Y: y}
	case schema.Enum:
		return schema.VEOrd(t, int32(rv.Int()))
	case schema.Record:
		v := &schema.V{T: t, Fields: map[string]*schema.V{}}
		rt := rv.Type()
		if ck := t.ComplexKey; ck != nil {
			for _, f := range ck.Key.AllFields() {
				sf, ok := rt.FieldByName(GoFieldName(f.Name))
				if !ok {
					fail("complex key %s: no Go field for %q", t.Name, f.Name)
				}
				if fv := FromGo(rv.FieldByIndex(sf.Index), f.Type); fv != nil {
					v.Fields[f.Name] = fv
				}
			}
			if sf, ok := rt.FieldByName("Params"); ok {
				if fv := FromGo(rv.FieldByIndex(sf.Index), ck.Params); fv != nil {
					v.Fields["$params"] = fv
				}
			}
			return v
		}
		for _, f := range t.AllFields() {
			sf, ok := rt.FieldByName(GoFieldName(f.Name))
			if !ok {
				fail("record %s: no Go field for %q in %s", t.Name, f.Name, rt)
			}
			if fv := FromGo(rv.FieldByIndex(sf.Index), f.Type); fv != nil {
				v.Fields[f.Name] = fv
			}
		}
		return v
	case schema.Union:
		v := &schema.V{T: t}
		rt := rv.Type()
		for _, m := range t.Members {
			sf, ok := unionField(rt, m.Alias)
			if !ok {
				fail("union %s: no Go field for member %q", t.Name, m.Alias)
			}
			if mv := FromGo(rv.FieldByIndex(sf.Index), m.Type); mv != nil {
				if v.Alias == "" {
					v.Alias, v.Mem = m.Alias, mv
				} else {
					v.Items = append(v.Items, &schema.V{T: t, Alias: m.Alias, Mem: mv})
				}
			}
		}
		return v
	case schema.Array:
		if rv.IsNil() {
			return &schema.V{T: t, Nil: true}
		}
		v := &schema.V{T: t, Items: make([]*schema.V, rv.Len())}
		for i := range v.Items {
			v.Items[i] = FromGo(rv.Index(i), t.Elem)
		}
		return v
	case schema.Map:
		v := &schema.V{T: t, Ent: map[string]*schema.V{}}
		if rv.IsNil() {
			v.Nil = true
			return v
		}
		it := rv.MapRange()
		for it.Next() {
			k := it.Key().String()
			v.Keys = append(v.Keys, k)
			v.Ent[k] = FromGo(it.Value(), t.Elem)
		}
		sortStrings(v.Keys)
		return v
	}
	fail("FromGo: unsupported %s", t)
	return nil
}

func sortStrings(s []string) {
	for i := 1; i < len(s); i++ {
		for j := i; j > 0 && s[j] < s[j-1]; j-- {
			s[j], s[j-1] = s[j-1], s[j]
		}
	}
}

// Safely runs f and converts a bridge panic into an error.
func Safely(f func()) (err error) {
	defer func() {
		if r := recover(); r != nil {
			if be, ok := r.(*Error); ok {
				err = be
				return
			}
			panic(r)
		}
	}()
	f()
	return nil
}
