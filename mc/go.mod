module verif/mc

go 1.18
