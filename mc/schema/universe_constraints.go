package schema

// ConstraintsUniverse: the types C11 (validity constraints) enumerates over.
func ConstraintsUniverse() *Universe {
	u := NewUniverse("c")
	e3 := u.Enum("E3", "RED", "GREEN", "BLUE")
	u.Enum("E1", "ONLY")
	u.Fixed("Fx1", 1)
	u.Fixed("Fx2", 2)
	u.Fixed("Fx16", 16)
	small := u.Record("RecSmall", nil, Req("a", P(Int32)), Opt("b", P(String)))
	u.Union("UTwo", false, MemberOf(P(Int32)), MemberOf(P(String)))
	u.Union("UTwoN", true, MemberOf(P(Int32)), MemberOf(P(String)))
	u.Union("UFour", false, MemberOf(P(Int32)), MemberOf(P(String)), MemberOf(small), MemberOf(ArrayOf(P(Int64))))
	u.Union("UFourN", true, MemberOf(P(Int32)), MemberOf(P(String)), MemberOf(small), MemberOf(e3))
	u.Union("UOne", false, MemberOf(P(Bool)))
	// carriers so that fixed / enum / union values can be decoded inside a record too
	u.Wrappers = append(u.Wrappers,
		u.Record("CFixed", nil, Req("f1", u.ByName["Fx1"]), Opt("f2", u.ByName["Fx2"]), Opt("f16", u.ByName["Fx16"])),
		u.Record("CEnum", nil, Req("e", e3), Opt("eo", e3), Opt("es", ArrayOf(e3))),
		u.Record("CUnion", nil, Req("u", u.ByName["UTwo"]), Opt("un", u.ByName["UTwoN"]), Opt("us", ArrayOf(u.ByName["UFour"]))))
	// records for partial updates
	inner := u.Record("PInner", nil, Req("ir", P(Int32)), Opt("io", P(String)), Def("id", P(Int64), "3"))
	inc := u.Record("PInc", nil, Req("incR", P(String)), Opt("incO", P(Int32)))
	p4 := u.Record("P4", nil, Req("r", P(Int32)), Opt("o", P(String)), Opt("n", inner), Def("d", ArrayOf(P(Int32)), "[1]"))
	pinc := u.Record("PWithInc", []*Type{inc}, Req("own", P(Int32)), Opt("nested", inner))
	p2 := u.Record("P2", nil, Req("nreq", inner), Opt("m", MapOf(P(String))))
	u.Wrappers = append(u.Wrappers, inner, inc, p4, pinc, p2)
	// includes two levels deep, and a record-typed field that arrives through an include
	proot := u.Record("PRoot", nil, Req("rootReq", P(Int32)), Opt("rootOpt", P(String)))
	pmid := u.Record("PMid", []*Type{proot}, Opt("midOpt", P(Int32)))
	pleaf := u.Record("PLeaf", []*Type{pmid}, Req("leafReq", P(Int32)), Opt("leafOpt", P(String)))
	pbase := u.Record("PBaseRec", nil, Opt("baseInner", inner), Opt("b", P(Int32)))
	pouter := u.Record("POuterRec", []*Type{pbase}, Opt("name", P(String)))
	// fields inherited through a record that declares none of its own
	phollow := u.Record("PHollow", []*Type{proot})
	pvia := u.Record("PViaHollow", []*Type{phollow}, Opt("viaOpt", P(String)))
	u.Wrappers = append(u.Wrappers, proot, pmid, pleaf, pbase, pouter, phollow, pvia)
	return u
}

func init() { RegisterUniverse("constraints", ConstraintsUniverse) }
