package schema

import (
	"fmt"
	"sort"
	"strings"
)

// GrammarItem is one well-formed schema set of the C12 generator check: a small program of the
// schema / resource grammar generated and compiled in isolation.
type GrammarItem struct {
	ID     string
	Family string
	Desc   string
	U      *Universe
	V2Only bool
	// CustomFiles are hand-written files placed in the output directory before generation
	// (custom typeref implementations), relative to the package root directory.
	CustomFiles map[string]string
}

// AddNS declares a named type in another namespace of the same universe.
func (u *Universe) AddNS(ns string, t *Type) *Type {
	key := ns + "." + t.Name
	if old, ok := u.named[key]; ok {
		return old
	}
	t.NS = ns
	u.named[key] = t
	u.order = append(u.order, t)
	return t
}

// Prune keeps the named types reachable from the roots and the resources (declaration order kept).
func (u *Universe) Prune(roots ...*Type) {
	seen := map[*Type]bool{}
	var visit func(t *Type)
	visit = func(t *Type) {
		if t == nil || seen[t] {
			return
		}
		seen[t] = true
		visit(t.Elem)
		for _, f := range t.Fields {
			visit(f.Type)
		}
		for _, i := range t.Includes {
			visit(i)
		}
		for _, m := range t.Members {
			visit(m.Type)
		}
		if t.ComplexKey != nil {
			visit(t.ComplexKey.Key)
			visit(t.ComplexKey.Params)
		}
	}
	for _, r := range roots {
		visit(r)
	}
	for _, r := range u.Resources {
		visit(r.Schema)
		for _, s := range r.Segments {
			visit(s.KeyType)
		}
		for _, m := range r.Methods {
			visit(m.Return)
			visit(m.Metadata)
			for _, p := range m.Params {
				visit(p.Type)
			}
		}
	}
	var order []*Type
	for _, t := range u.order {
		if seen[t] {
			order = append(order, t)
		}
	}
	u.order = order
}

// CustomTyperefFile is the hand-written implementation of custom typeref `name` over prim in package pkg.
func CustomTyperefFile(pkg, name string, prim Kind) string { return customTyperefFile(pkg, name, prim) }

func customTyperefFile(pkg, name string, prim Kind) string {
	goPrim := map[Kind]string{Int32: "int32", Int64: "int64", Float32: "float32", Float64: "float64", Bool: "bool", String: "string", Bytes: "[]byte"}[prim]
	hash := map[Kind]string{Int32: "HashInt32", Int64: "HashInt64", Float32: "HashFloat32", Float64: "HashFloat64", Bool: "HashBool", String: "HashString", Bytes: "HashBytes"}[prim]
	eq := "a.V == b.V"
	imports := "\t\"github.com/PapaCharlie/go-restli/v2/fnv1a\"\n"
	if prim == Bytes {
		eq = "bytes.Equal(a.V, b.V)"
		imports = "\t\"bytes\"\n\n" + imports
	}
	return fmt.Sprintf(`// hand-written custom typeref implementation (not generated)
package %[1]s

import (
%[6]s)

type %[2]s struct{ V %[3]s }

func Marshal%[2]s(c %[2]s) (%[3]s, error)   { return c.V, nil }
func Unmarshal%[2]s(p %[3]s) (%[2]s, error) { return %[2]s{V: p}, nil }
func Equals%[2]s(a, b %[2]s) bool           { return %[5]s }
func ComputeHash%[2]s(c %[2]s) fnv1a.Hash   { return fnv1a.%[4]s(c.V) }
`, pkg, name, goPrim, hash, eq, imports)
}

var allCollectionMethods = allRestMethods
var simpleMethods = []string{"get", "update", "partial_update", "delete"}

func gEntity(u *Universe) *Type {
	return u.Record("Ent", nil, Req("a", P(Int32)), Opt("o", P(String)))
}

func gCollection(u *Universe, name string, keyType *Type, entity *Type, methods []string, returnEntity bool, parents ...Segment) *Resource {
	r := &Resource{Namespace: u.NS + "." + strings.ToLower(name), Schema: entity}
	r.Segments = append(append([]Segment{}, parents...), Segment{Name: name, KeyName: name + "Id", KeyType: keyType})
	for _, m := range methods {
		re := returnEntity && (m == "create" || m == "batch_create" || m == "partial_update")
		rm := restMethod(m, re)
		rm.OnEntity = m == "get" || m == "update" || m == "partial_update" || m == "delete"
		r.Methods = append(r.Methods, rm)
	}
	u.Resources = append(u.Resources, r)
	return r
}

func gSimple(u *Universe, name string, entity *Type, methods []string, parents ...Segment) *Resource {
	r := &Resource{Namespace: u.NS + "." + strings.ToLower(name), Schema: entity}
	r.Segments = append(append([]Segment{}, parents...), Segment{Name: name})
	for _, m := range methods {
		r.Methods = append(r.Methods, restMethod(m, false))
	}
	u.Resources = append(u.Resources, r)
	return r
}

func gActionSet(u *Universe, name string, actions ...*Method) *Resource {
	r := &Resource{Namespace: u.NS + "." + strings.ToLower(name), Segments: []Segment{{Name: name}}}
	r.Methods = actions
	u.Resources = append(u.Resources, r)
	return r
}

func segOf(r *Resource) Segment { return r.Segments[len(r.Segments)-1] }

// Grammar enumerates the schema sets of the C12 check. tier "quick": nesting depth <= 1 in every
// position plus representative depth-2 shapes, single methods and the full set; "thorough": depth
// <= 2 everywhere, every pair of methods, more namespace graphs.
func Grammar(tier string, v2 bool) []GrammarItem {
	full := tier == "thorough"
	var items []GrammarItem
	add := func(it GrammarItem) {
		if it.V2Only && !v2 {
			return
		}
		items = append(items, it)
	}

	// the type expressions: leaves, then containers
	typeExprs := func(u *Universe, withCustom bool) (d0, d1, d2 []*Type) {
		d0 = u.Leaves(false)
		if withCustom {
			d0 = append(d0, u.CustomTyperef("CtString", String), u.CustomTyperef("CtInt64", Int64), u.CustomTyperef("CtBytes", Bytes))
		}
		for _, t := range d0 {
			d1 = append(d1, ArrayOf(t), MapOf(t))
		}
		for _, t := range d1 {
			d2 = append(d2, ArrayOf(t), MapOf(t))
		}
		return
	}
	customFilesFor := func(u *Universe) map[string]string {
		out := map[string]string{}
		for _, t := range u.order {
			if t.Custom {
				out[strings.ReplaceAll(t.NS, ".", "/")+"/"+t.Name+".go"] = customTyperefFile(t.NS[strings.LastIndex(t.NS, ".")+1:], t.Name, t.Elem.Kind)
			}
		}
		if len(out) == 0 {
			return nil
		}
		return out
	}
	nExprs := func() int { u := NewUniverse("g"); a, b, c := typeExprs(u, v2); return len(a) + len(b) + len(c) }()

	// ---- family field: every type expression as required / optional / defaulted field, inside an
	// included record and as a union member
	for i := 0; i < nExprs; i++ {
		u := NewUniverse("g")
		d0, d1, d2 := typeExprs(u, v2)
		all := append(append(append([]*Type{}, d0...), d1...), d2...)
		t := all[i]
		depth := 0
		if i >= len(d0) {
			depth = 1
		}
		if i >= len(d0)+len(d1) {
			depth = 2
		}
		if depth == 2 && !full {
			// quick keeps the depth-2 shapes over a few leaves only
			l := t.Elem.Elem
			if !(l.Kind == String || l.Name == "RecSmall" || l.Name == "E3" || l.Name == "CtString" || l.Name == "UNull") {
				continue
			}
		}
		custom := strings.Contains(t.Label(), "Ct")
		w := u.Wrapper(t)
		var roots []*Type
		roots = append(roots, w)
		if !custom || true {
			inc := u.Record("RIncluder", []*Type{w}, Req("own", P(Int32)))
			roots = append(roots, inc)
			other := P(Bool)
			if t.Kind == Bool {
				other = P(Int32)
			}
			un := u.Union("UWith", false, MemberOf(t), MemberOf(other))
			roots = append(roots, un, u.Record("RUnionHolder", nil, Req("u", un), Opt("ou", un)))
		}
		u.Prune(roots...)
		add(GrammarItem{ID: "field-" + t.Label(), Family: "field", Desc: "record with required/optional/defaulted field of type " + t.String() + ", also included and as a union member", U: u, V2Only: custom, CustomFiles: customFilesFor(u)})
	}

	// ---- family param: every type expression as action parameter / return and finder parameter
	for i := 0; i < nExprs; i++ {
		u := NewUniverse("g")
		d0, d1, d2 := typeExprs(u, v2)
		all := append(append(append([]*Type{}, d0...), d1...), d2...)
		t := all[i]
		if i >= len(d0)+len(d1) {
			l := t.Elem.Elem
			if !full && !(l.Kind == String || l.Name == "RecSmall") {
				continue
			}
		}
		custom := strings.Contains(t.Label(), "Ct")
		ent := gEntity(u)
		gActionSet(u, "acts",
			&Method{Kind: "ACTION", Name: "withReq", Params: []*Field{Req("p", t)}, Return: t},
			&Method{Kind: "ACTION", Name: "withOpt", Params: []*Field{Opt("p", t), Req("q", P(Int32))}})
		// (parameters never carry default values in the generator's input: the schema parser turns a
		// defaulted parameter into an optional one)
		c := gCollection(u, "coll", P(Int64), ent, []string{"get"}, false)
		c.Methods = append(c.Methods,
			&Method{Kind: "FINDER", Name: "byReq", Params: []*Field{Req("p", t)}, Return: ent},
			&Method{Kind: "FINDER", Name: "byOpt", Params: []*Field{Opt("p", t)}, Return: ent, Paging: true},
			&Method{Kind: "ACTION", Name: "onEntity", OnEntity: true, Params: []*Field{Opt("p", t)}, Return: t})
		u.Prune()
		add(GrammarItem{ID: "param-" + t.Label(), Family: "param", Desc: "action parameter (required/optional), action return, finder parameter of type " + t.String(), U: u, V2Only: custom, CustomFiles: customFilesFor(u)})
	}

	// ---- family key: every key type on a collection with every method, a finder and an action
	{
		// (bytes and fixed keys are left out: Rest.li keys are strings, numbers, booleans, enums, typerefs /
		// custom types of those, or complex keys)
		keyNames := []string{"String", "Int32", "Int64", "Bool", "Float32", "Float64", "E3", "TrString", "TrInt64", "TrBool", "CK", "CKU", "CKD", "CKDS", "CtString", "CtInt64"}
		for _, kn := range keyNames {
			u := NewUniverse("g")
			d0, _, _ := typeExprs(u, v2)
			var kt *Type
			for _, t := range d0 {
				if t.Label() == kn {
					kt = t
				}
			}
			switch kn {
			case "CK":
				kt = u.ComplexKey("CK", u.Record("KeyRec", nil, Req("k1", P(String)), Req("k2", P(Int64))), u.Record("ParRec", nil, Opt("p", P(String))))
			case "CKD":
				// key and parameter records with defaulted fields; the complex key itself is generated in the package
				// of its resource, away from them
				kt = u.ComplexKey("CKD",
					u.AddNS("g.keydefs", &Type{Kind: Record, Name: "KeyRecD", Fields: []*Field{Req("k1", P(String)), Def("k2", P(Int64), "5")}}),
					u.AddNS("g.keydefs", &Type{Kind: Record, Name: "ParRecD", Fields: []*Field{Def("p", P(String), `"dflt"`)}}))
			case "CKDS":
				// the same next to its records
				kt = u.ComplexKey("CKDS", u.Record("KeyRecDS", nil, Req("k1", P(String)), Def("k2", P(Int64), "5")), u.Record("ParRecDS", nil, Def("p", P(String), `"dflt"`)))
			case "CKU":
				small := u.ByName["RecSmall"]
				kt = u.ComplexKey("CKU", u.Record("KeyRecU", nil, Req("k1", u.ByName["USmall"]), Opt("k2", ArrayOf(small)), Req("k3", u.ByName["E3"])), u.Record("ParRecU", nil, Opt("p", MapOf(P(Int32)))))
			}
			if kt == nil {
				continue // custom typerefs in the root generation
			}
			ent := gEntity(u)
			for _, re := range []bool{false, true} {
				name := "plain"
				if re {
					name = "returning"
				}
				c := gCollection(u, name, kt, ent, allCollectionMethods, re)
				if re {
					// REST methods with query parameters of their own (batch methods then get a generated
					// <Method>Params struct that also carries the ids)
					for _, m := range c.Methods {
						switch m.Name {
						case "get", "batch_get", "batch_delete", "batch_update", "batch_partial_update", "get_all", "delete":
							m.Params = []*Field{Opt("extra", P(String)), Opt("flag", P(Bool))}
						}
						if m.Name == "get_all" {
							m.Paging = true
						}
					}
				}
				c.Methods = append(c.Methods,
					&Method{Kind: "FINDER", Name: "byKey", Params: []*Field{Req("k", kt), Opt("ks", ArrayOf(kt))}, Return: ent, Paging: true, Metadata: ent},
					&Method{Kind: "ACTION", Name: "entityAction", OnEntity: true, Params: []*Field{Req("k", kt)}, Return: kt})
				if !re {
					// a sub-resource below the keyed parent
					gCollection(u, "child", P(Int64), ent, []string{"get", "batch_get", "create"}, false, segOf(c))
					gSimple(u, "leaf", ent, simpleMethods, segOf(c))
				}
			}
			u.Prune()
			custom := strings.HasPrefix(kn, "Ct")
			add(GrammarItem{ID: "key-" + kn, Family: "key", Desc: "collections keyed by " + kt.String() + " with every method, with and without returned entities, a finder, an entity action and sub-resources", U: u, V2Only: custom, CustomFiles: customFilesFor(u)})
		}
	}

	// ---- family methods: method subsets on every resource kind
	{
		type sub struct {
			name string
			ms   []string
		}
		var subs []sub
		subs = append(subs, sub{"none", nil}, sub{"all", allCollectionMethods})
		for _, m := range allCollectionMethods {
			subs = append(subs, sub{m, []string{m}})
		}
		if full {
			for i := range allCollectionMethods {
				for j := i + 1; j < len(allCollectionMethods); j++ {
					subs = append(subs, sub{allCollectionMethods[i] + "+" + allCollectionMethods[j], []string{allCollectionMethods[i], allCollectionMethods[j]}})
				}
			}
		}
		for _, s := range subs {
			for _, kn := range []string{"string", "complex"} {
				for _, re := range []bool{false, true} {
					hasRE := false
					for _, m := range s.ms {
						if m == "create" || m == "batch_create" || m == "partial_update" {
							hasRE = true
						}
					}
					if re && !hasRE {
						continue
					}
					if kn == "complex" && strings.Contains(s.name, "+") {
						continue
					}
					u := NewUniverse("g")
					ent := gEntity(u)
					kt := P(String)
					if kn == "complex" {
						kt = u.ComplexKey("CK", u.Record("KeyRec", nil, Req("k1", P(String)), Req("k2", P(Int64))), u.Record("ParRec", nil, Opt("p", P(String))))
					}
					c := gCollection(u, "coll", kt, ent, s.ms, re)
					if len(s.ms) == 0 {
						c.Methods = append(c.Methods, &Method{Kind: "FINDER", Name: "only", Return: ent}, &Method{Kind: "FINDER", Name: "onlyPaged", Return: ent, Paging: true})
					}
					u.Prune()
					id := fmt.Sprintf("methods-collection-%s-%s", kn, s.name)
					if re {
						id += "-returnEntity"
					}
					add(GrammarItem{ID: id, Family: "methods", Desc: fmt.Sprintf("collection (%s key) with methods %v returnEntity=%v", kn, s.ms, re), U: u})
				}
			}
		}
		// simple resources: every subset of the four methods
		for mask := 0; mask < 16; mask++ {
			var ms []string
			for i, m := range simpleMethods {
				if mask&(1<<uint(i)) != 0 {
					ms = append(ms, m)
				}
			}
			u := NewUniverse("g")
			ent := gEntity(u)
			s := gSimple(u, "single", ent, ms)
			if len(ms) == 0 {
				s.Methods = append(s.Methods, &Method{Kind: "ACTION", Name: "ping"})
			}
			u.Prune()
			add(GrammarItem{ID: fmt.Sprintf("methods-simple-%02d", mask), Family: "methods", Desc: fmt.Sprintf("simple resource with methods %v", ms), U: u})
		}
		// finders / actions only, in every count 1..3, on collection, simple, action set
		for n := 1; n <= 3; n++ {
			u := NewUniverse("g")
			ent := gEntity(u)
			c := gCollection(u, "coll", P(Int32), ent, nil, false)
			s := gSimple(u, "single", ent, nil)
			var acts []*Method
			for i := 0; i < n; i++ {
				c.Methods = append(c.Methods, &Method{Kind: "FINDER", Name: fmt.Sprintf("find%d", i), Params: []*Field{Opt("x", P(Int32))}, Return: ent, Paging: i%2 == 0},
					&Method{Kind: "ACTION", Name: fmt.Sprintf("act%d", i), OnEntity: i%2 == 1, Return: P(String)})
				s.Methods = append(s.Methods, &Method{Kind: "ACTION", Name: fmt.Sprintf("act%d", i), Params: []*Field{Req("x", ent)}})
				acts = append(acts, &Method{Kind: "ACTION", Name: fmt.Sprintf("act%d", i), Return: ent})
			}
			gActionSet(u, "acts", acts...)
			u.Prune()
			add(GrammarItem{ID: fmt.Sprintf("methods-finders-actions-%d", n), Family: "methods", Desc: fmt.Sprintf("%d finders and actions on a collection, a simple resource and an action set", n), U: u})
		}
	}

	// ---- family nest: sub-resource chains
	{
		kinds := []string{"C", "S"} // collection, simple
		var chains []string
		for _, a := range kinds {
			for _, b := range kinds {
				chains = append(chains, a+b)
				for _, c := range kinds {
					chains = append(chains, a+b+c)
				}
			}
		}
		for _, ch := range chains {
			u := NewUniverse("g")
			ent := gEntity(u)
			ck := u.ComplexKey("CK", u.Record("KeyRec", nil, Req("k1", P(String))), u.Record("ParRec", nil, Opt("p", P(String))))
			keyTypes := []*Type{P(String), ck, P(Int64)}
			var parents []Segment
			for i, k := range ch {
				name := fmt.Sprintf("lvl%d", i)
				var r *Resource
				if k == 'C' {
					r = gCollection(u, name, keyTypes[i], ent, allCollectionMethods, false, parents...)
					r.Methods = append(r.Methods, &Method{Kind: "FINDER", Name: "f", Return: ent}, &Method{Kind: "ACTION", Name: "a", OnEntity: true})
				} else {
					r = gSimple(u, name, ent, simpleMethods, parents...)
					r.Methods = append(r.Methods, &Method{Kind: "ACTION", Name: "a"})
				}
				parents = append(parents, segOf(r))
			}
			u.Prune()
			add(GrammarItem{ID: "nest-" + ch, Family: "nest", Desc: "sub-resource chain " + ch + " (C = collection, S = simple) with string / complex / long keys", U: u})
		}
	}

	// ---- family ns: namespace graphs with cycles and clashing names
	{
		mk := func(id, desc string, build func(u *Universe) []*Type) {
			u := NewUniverse("g")
			roots := build(u)
			u.Prune(roots...)
			add(GrammarItem{ID: "ns-" + id, Family: "ns", Desc: desc, U: u})
		}
		rec := func(name string, fields ...*Field) *Type { return &Type{Kind: Record, Name: name, Fields: fields} }
		via := map[string]func(t *Type) *Type{
			"field": func(t *Type) *Type { return t },
			"array": func(t *Type) *Type { return ArrayOf(t) },
			"map":   func(t *Type) *Type { return MapOf(t) },
		}
		for _, how := range []string{"field", "array", "map"} {
			how := how
			mk("cycle2-"+how, "two records in two namespaces referring to each other through an optional "+how, func(u *Universe) []*Type {
				a := u.AddNS("g.left", rec("A"))
				b := u.AddNS("g.right", rec("B"))
				a.Fields = []*Field{Req("x", P(Int32)), Opt("b", via[how](b))}
				b.Fields = []*Field{Req("y", P(String)), Opt("a", via[how](a))}
				return []*Type{a, b}
			})
		}
		mk("cycle2-union", "cycle across two namespaces through a union member", func(u *Universe) []*Type {
			a := u.AddNS("g.left", rec("A"))
			un := u.AddNS("g.right", &Type{Kind: Union, Name: "U"})
			b := u.AddNS("g.right", rec("B", Req("u", un)))
			un.Members = []*Member{MemberOf(a), MemberOf(P(String))}
			a.Fields = []*Field{Opt("b", b)}
			return []*Type{a, b, un}
		})
		mk("cycle3", "three namespaces in a ring plus bystander types in each", func(u *Universe) []*Type {
			a := u.AddNS("g.one", rec("A"))
			b := u.AddNS("g.two", rec("B"))
			c := u.AddNS("g.three", rec("C"))
			ea := u.AddNS("g.one", &Type{Kind: Enum, Name: "EA", Symbols: []string{"X", "Y"}})
			eb := u.AddNS("g.two", &Type{Kind: Fixed, Name: "FB", Size: 4})
			ec := u.AddNS("g.three", &Type{Kind: Typeref, Name: "TC", Elem: P(String)})
			a.Fields = []*Field{Opt("b", b), Req("e", ea)}
			b.Fields = []*Field{Opt("c", ArrayOf(c)), Req("f", eb)}
			c.Fields = []*Field{Opt("a", MapOf(a)), Req("t", ec)}
			user := u.AddNS("g.user", rec("User", Req("a", a), Req("b", b), Req("c", c), Opt("e", ea)))
			return []*Type{user}
		})
		mk("selfcycle", "a record referring to itself directly, through an array and through a map", func(u *Universe) []*Type {
			a := u.AddNS("g.self", rec("Node"))
			a.Fields = []*Field{Req("v", P(Int32)), Opt("next", a), Opt("children", ArrayOf(a)), Opt("byName", MapOf(a))}
			return []*Type{a}
		})
		mk("cycle-same-ns", "mutually recursive records inside one namespace", func(u *Universe) []*Type {
			a := u.AddNS("g.same", rec("A"))
			b := u.AddNS("g.same", rec("B"))
			a.Fields = []*Field{Opt("b", b)}
			b.Fields = []*Field{Opt("a", ArrayOf(a))}
			return []*Type{a, b}
		})
		mk("cycle-overlap", "two overlapping namespace cycles (a <-> b, b <-> c) with a tail (d -> a) and a bystander", func(u *Universe) []*Type {
			a := u.AddNS("g.na", rec("A"))
			b := u.AddNS("g.nb", rec("B"))
			c := u.AddNS("g.nc", rec("C"))
			d := u.AddNS("g.nd", rec("D"))
			e := u.AddNS("g.nb", rec("Bystander", Req("x", P(Int32))))
			a.Fields = []*Field{Opt("b", b)}
			b.Fields = []*Field{Opt("a", a), Opt("c", ArrayOf(c)), Opt("e", e)}
			c.Fields = []*Field{Opt("b", MapOf(b))}
			d.Fields = []*Field{Req("a", a), Opt("e", e)}
			return []*Type{a, b, c, d, e}
		})
		mk("cycle-two-paths", "a two-namespace cycle that can be found from two starting points (one.A -> two.B -> one.C, two.D -> one.A)", func(u *Universe) []*Type {
			a := u.AddNS("g.one", rec("A"))
			b := u.AddNS("g.two", rec("B"))
			c := u.AddNS("g.one", rec("C", Req("x", P(Int32))))
			d := u.AddNS("g.two", rec("D"))
			a.Fields = []*Field{Opt("b", b)}
			b.Fields = []*Field{Opt("c", c)}
			d.Fields = []*Field{Opt("a", a)}
			return []*Type{a, b, c, d}
		})
		mk("cycle-disjoint", "two disjoint namespace cycles and a record using both", func(u *Universe) []*Type {
			a := u.AddNS("g.p1", rec("A"))
			b := u.AddNS("g.p2", rec("B"))
			c := u.AddNS("g.q1", rec("C"))
			d := u.AddNS("g.q2", rec("D"))
			a.Fields = []*Field{Opt("b", b)}
			b.Fields = []*Field{Opt("a", a)}
			c.Fields = []*Field{Opt("d", d)}
			d.Fields = []*Field{Opt("c", c)}
			user := u.AddNS("g.user", rec("User", Req("a", a), Req("c", c), Opt("b", b), Opt("d", d)))
			return []*Type{user}
		})
		mk("cycle-clash-many", "three types with one name on a namespace ring, one of them in a nested namespace", func(u *Universe) []*Type {
			x1 := u.AddNS("g.ring.one", rec("X"))
			x2 := u.AddNS("g.ring.two", rec("X"))
			x3 := u.AddNS("g.ring.two.deep", rec("X"))
			x1.Fields = []*Field{Opt("next", x2)}
			x2.Fields = []*Field{Opt("next", x3)}
			x3.Fields = []*Field{Opt("next", x1), Req("v", P(Int32))}
			user := u.AddNS("g.ring", rec("User", Req("a", x1), Req("b", x2), Req("c", x3)))
			return []*Type{user}
		})
		mk("cycle-bystander-back", "a namespace cycle whose member uses a bystander of its own namespace while another type of that namespace uses the member", func(u *Universe) []*Type {
			a := u.AddNS("g.one", rec("A"))
			ea := u.AddNS("g.one", rec("EA", Req("v", P(Int32))))
			deep := u.AddNS("g.one", rec("Deep", Req("w", P(String))))
			h := u.AddNS("g.one", rec("H"))
			b := u.AddNS("g.two", rec("B"))
			ea.Fields = append(ea.Fields, Opt("deep", ArrayOf(deep)))
			a.Fields = []*Field{Opt("b", b), Req("ea", ea)}
			b.Fields = []*Field{Opt("a", a)}
			h.Fields = []*Field{Req("a", a), Opt("ea", ea), Opt("deep", deep)}
			return []*Type{a, b, ea, h, deep}
		})
		mk("cycle-resource", "a resource whose entity sits on a namespace cycle", func(u *Universe) []*Type {
			a := u.AddNS("g.left", rec("A"))
			b := u.AddNS("g.right", rec("B"))
			a.Fields = []*Field{Req("x", P(Int32)), Opt("b", b)}
			b.Fields = []*Field{Opt("a", a)}
			r := gCollection(u, "things", P(Int64), a, allCollectionMethods, false)
			r.Namespace = "g.left.things"
			r.Methods = append(r.Methods, &Method{Kind: "ACTION", Name: "swap", Params: []*Field{Req("b", b)}, Return: a})
			return []*Type{a, b}
		})
		mk("clash-two", "two namespaces declaring a type with the same name, both used by one record", func(u *Universe) []*Type {
			x1 := u.AddNS("g.left", rec("X", Req("l", P(Int32))))
			x2 := u.AddNS("g.right", rec("X", Req("r", P(String))))
			user := u.AddNS("g.user", rec("User", Req("a", x1), Req("b", x2), Opt("as", ArrayOf(x1)), Opt("bs", MapOf(x2))))
			return []*Type{user}
		})
		mk("clash-three-kinds", "the same name as a record, an enum and a fixed in three namespaces, used together in a record and a union", func(u *Universe) []*Type {
			x1 := u.AddNS("g.left", rec("X", Req("l", P(Int32))))
			x2 := u.AddNS("g.right", &Type{Kind: Enum, Name: "X", Symbols: []string{"P", "Q"}})
			x3 := u.AddNS("g.mid", &Type{Kind: Fixed, Name: "X", Size: 3})
			un := u.AddNS("g.user", &Type{Kind: Union, Name: "U"})
			un.Members = []*Member{MemberOf(x1), MemberOf(x2), MemberOf(x3)}
			user := u.AddNS("g.user", rec("User", Req("a", x1), Req("b", x2), Req("c", x3), Opt("u", un)))
			return []*Type{user, un}
		})
		mk("clash-with-user", "a record using a type from another namespace that has its own name", func(u *Universe) []*Type {
			x1 := u.AddNS("g.left", rec("X", Req("l", P(Int32))))
			x2 := u.AddNS("g.right", rec("X", Req("inner", x1), Opt("more", ArrayOf(x1))))
			return []*Type{x2}
		})
		mk("clash-nested-ns", "the same type name in a namespace and in its child namespace", func(u *Universe) []*Type {
			x1 := u.AddNS("g.outer", rec("X", Req("l", P(Int32))))
			x2 := u.AddNS("g.outer.inner", rec("X", Req("up", x1)))
			user := u.AddNS("g.outer", rec("User", Req("a", x1), Req("b", x2)))
			return []*Type{user}
		})
		mk("clash-cycle", "clashing names that also form a namespace cycle", func(u *Universe) []*Type {
			x1 := u.AddNS("g.left", rec("X"))
			x2 := u.AddNS("g.right", rec("X"))
			x1.Fields = []*Field{Opt("other", x2)}
			x2.Fields = []*Field{Opt("other", x1)}
			return []*Type{x1, x2}
		})
		if v2 {
			// rename attempts beyond the first: the clashing types' namespaces share their last segment(s)
			// (v2 only: the root generator already fails the simpler clash-on-cycle sets, see known findings)
			mk("clash-cycle-same-suffix", "clashing names on a cycle whose namespaces end in the same segment (second rename attempt)", func(u *Universe) []*Type {
				x1 := u.AddNS("g.a.x", rec("Foo"))
				x2 := u.AddNS("g.b.x", rec("Foo"))
				x1.Fields = []*Field{Opt("other", x2), Req("v", P(Int32))}
				x2.Fields = []*Field{Opt("other", x1)}
				user := u.AddNS("g.c", rec("Holder", Req("a", x1), Req("b", x2)))
				return []*Type{user}
			})
			mk("clash-cycle-mixed-depth", "clashing names on a cycle, one namespace being a suffix of the other", func(u *Universe) []*Type {
				x1 := u.AddNS("g.a.x", rec("Foo"))
				x2 := u.AddNS("x", rec("Foo"))
				x1.Fields = []*Field{Opt("other", x2), Req("v", P(Int32))}
				x2.Fields = []*Field{Opt("other", x1)}
				user := u.AddNS("g.c", rec("Holder", Req("a", x1), Req("b", x2)))
				return []*Type{user}
			})
			mk("clash-cycle-deep-suffix", "three clashing names on a cycle whose namespaces share their last two segments (third rename attempt)", func(u *Universe) []*Type {
				x1 := u.AddNS("g.a.m.x", rec("Foo"))
				x2 := u.AddNS("g.b.m.x", rec("Foo"))
				x3 := u.AddNS("g.c.n.x", rec("Foo"))
				x1.Fields = []*Field{Opt("next", x2)}
				x2.Fields = []*Field{Opt("next", x3)}
				x3.Fields = []*Field{Opt("next", x1), Req("v", P(Int32))}
				user := u.AddNS("g.c", rec("Holder", Req("a", x1), Req("b", x2), Req("c", x3)))
				return []*Type{user}
			})
		}
		mk("clash-resource", "a resource whose entity, key record and action types share one name across namespaces", func(u *Universe) []*Type {
			x1 := u.AddNS("g.left", rec("X", Req("l", P(Int32))))
			x2 := u.AddNS("g.right", rec("X", Req("r", P(String))))
			x3 := u.AddNS("g.mid", rec("X", Opt("p", P(String))))
			ck := u.AddNS("g.kdefs", &Type{Kind: Record, Name: "CK", ComplexKey: &ComplexKeyDef{x2, x3}})
			r := gCollection(u, "things", ck, x1, allCollectionMethods, false)
			r.Methods = append(r.Methods, &Method{Kind: "ACTION", Name: "mix", Params: []*Field{Req("a", x1), Req("b", x2), Opt("c", x3)}, Return: x2},
				&Method{Kind: "FINDER", Name: "byX", Params: []*Field{Req("b", x2)}, Return: x1, Metadata: x3})
			return []*Type{x1, x2, x3, ck}
		})
		mk("type-named-like-namespace", "a type whose name equals the last segment of its namespace", func(u *Universe) []*Type {
			a := u.AddNS("g.thing", rec("Thing", Req("x", P(Int32))))
			b := u.AddNS("g.other", rec("Thing", Req("up", a)))
			return []*Type{a, b}
		})
		mk("helper-name-clash", "types whose names look like generated helper types", func(u *Universe) []*Type {
			a := u.AddNS("g.h", rec("Foo", Req("x", P(Int32)), Opt("o", P(String))))
			b := u.AddNS("g.h", rec("FooPartialUpdate", Req("x", P(Int32))))
			c := u.AddNS("g.h", rec("Client", Req("foo", a)))
			d := u.AddNS("g.h", rec("Resource", Req("foo", a), Opt("p", b)))
			return []*Type{a, b, c, d}
		})
		for _, w := range []string{"type", "func", "range", "map", "interface", "package", "var", "string", "error", "nil", "len", "int32", "new", "err", "reader", "writer", "other", "equals", "computeHash", "marshalRestLi", "unmarshalRestLi", "pointer", "string_", "String", "restlicodec", "fnv1a", "init", "main", "_", "a_b", "aB", "ID", "x1"} {
			w := w
			if !full && !(w == "type" || w == "string" || w == "err" || w == "reader" || w == "other" || w == "a_b" || w == "init" || w == "restlicodec") {
				continue
			}
			if w == "_" {
				continue
			}
			mk("fieldname-"+w, "a record, an action and a finder with a field / parameter named "+w, func(u *Universe) []*Type {
				a := u.AddNS("g.words", rec("Holder", Req(w, P(Int32)), Opt("plain", P(String))))
				ent := u.AddNS("g.words", rec("Ent", Req("a", P(Int32))))
				r := gCollection(u, "things", P(Int64), ent, []string{"get"}, false)
				r.Methods = append(r.Methods, &Method{Kind: "ACTION", Name: "act", Params: []*Field{Req(w, P(String))}},
					&Method{Kind: "FINDER", Name: "find", Params: []*Field{Opt(w, P(String))}, Return: ent})
				return []*Type{a, ent}
			})
		}
		if v2 {
			u := NewUniverse("g")
			c1 := u.AddNS("g.cust", &Type{Kind: Typeref, Name: "Zeta", Elem: P(String), Custom: true})
			c2 := u.AddNS("g.cust", &Type{Kind: Typeref, Name: "Alpha", Elem: P(Int64), Custom: true})
			c3 := u.AddNS("g.cust", &Type{Kind: Typeref, Name: "Mid", Elem: P(Bytes), Custom: true})
			c4 := u.AddNS("g.cust.second", &Type{Kind: Typeref, Name: "Beta", Elem: P(Int32), Custom: true})
			plain := u.AddNS("g.cust", &Type{Kind: Typeref, Name: "Plain", Elem: P(String)})
			user := u.AddNS("g.cust", rec("User", Req("z", c1), Opt("a", c2), Opt("ms", ArrayOf(c3)), Opt("bm", MapOf(c4)), Req("p", plain), Def("dz", c1, `"d"`)))
			un := u.AddNS("g.cust", &Type{Kind: Union, Name: "CU", Members: []*Member{MemberOf(c1), MemberOf(c2), MemberOf(user)}})
			r := gCollection(u, "things", c2, user, allCollectionMethods, false)
			r.Namespace = "g.cust.things"
			r.Methods = append(r.Methods, &Method{Kind: "ACTION", Name: "act", Params: []*Field{Req("z", c1), Opt("u", un)}, Return: c4})
			u.Prune(user, un)
			add(GrammarItem{ID: "ns-custom-many", Family: "ns", Desc: "four custom typerefs in two packages used as fields, array items, map values, union members, default, key, action parameter and return", U: u, V2Only: true, CustomFiles: customFilesFor(u)})
		}
		if v2 {
			// a custom typeref dragged into conflictResolution by a namespace cycle: its hand-written file lives there
			u := NewUniverse("g")
			t := u.AddNS("g.ca", &Type{Kind: Typeref, Name: "Tok", Elem: P(String), Custom: true})
			free := u.AddNS("g.cc", &Type{Kind: Typeref, Name: "Free", Elem: P(Int64), Custom: true})
			x := u.AddNS("g.ca", rec("X"))
			y := u.AddNS("g.cb", rec("Y"))
			z := u.AddNS("g.ca", rec("Z", Req("tok", t), Opt("toks", ArrayOf(t))))
			x.Fields = []*Field{Opt("y", y)}
			y.Fields = []*Field{Opt("z", z), Opt("x", x)}
			user := u.AddNS("g.cu", rec("User", Req("x", x), Opt("t", t), Opt("f", free)))
			u.Prune(user)
			add(GrammarItem{ID: "ns-custom-on-cycle", Family: "ns", Desc: "a custom typeref used by a record on a namespace cycle (its file sits in conflictResolution) next to one outside the cycle", U: u, V2Only: true,
				CustomFiles: map[string]string{"conflictResolution/Tok.go": customTyperefFile("conflictresolution", "Tok", String), "g/cc/Free.go": customTyperefFile("cc", "Free", Int64)}})
		}
		for _, w := range []string{"lower", "Mixed_Case", "ALLCAPS", "X", "Type", "Error", "String"} {
			w := w
			if !full && !(w == "lower" || w == "Mixed_Case" || w == "Error") {
				continue
			}
			mk("typename-"+w, "record, enum, fixed, typeref and union named with the pattern "+w, func(u *Universe) []*Type {
				r := u.AddNS("g.names", rec(w+"Rec", Req("x", P(Int32))))
				e := u.AddNS("g.names", &Type{Kind: Enum, Name: w + "Enum", Symbols: []string{"lower", "UPPER", "Mixed_1", w + "Sym"}})
				f := u.AddNS("g.names", &Type{Kind: Fixed, Name: w + "Fixed", Size: 2})
				t := u.AddNS("g.names", &Type{Kind: Typeref, Name: w + "Ref", Elem: P(String)})
				un := u.AddNS("g.names", &Type{Kind: Union, Name: w + "Union"})
				un.Members = []*Member{MemberOf(r), MemberOf(e), MemberOf(f), MemberOf(t)}
				user := u.AddNS("g.names", rec("User", Req("r", r), Req("e", e), Req("f", f), Req("t", t), Req("u", un)))
				return []*Type{user}
			})
		}
		mk("enum-shared-symbols", "two enums of one namespace sharing symbols, one symbol equal to an enum name", func(u *Universe) []*Type {
			e1 := u.AddNS("g.enums", &Type{Kind: Enum, Name: "Color", Symbols: []string{"RED", "GREEN", "Shade"}})
			e2 := u.AddNS("g.enums", &Type{Kind: Enum, Name: "Shade", Symbols: []string{"RED", "DARK", "Color"}})
			user := u.AddNS("g.enums", rec("User", Req("c", e1), Def("s", e2, `"DARK"`)))
			return []*Type{user}
		})
		mk("single-element-types", "an enum with one symbol, a union with one member, a record without fields, a fixed of size 1", func(u *Universe) []*Type {
			e := u.AddNS("g.tiny", &Type{Kind: Enum, Name: "One", Symbols: []string{"ONLY"}})
			emptyRec := u.AddNS("g.tiny", rec("Nothing"))
			un := u.AddNS("g.tiny", &Type{Kind: Union, Name: "Solo", Members: []*Member{MemberOf(P(String))}})
			unn := u.AddNS("g.tiny", &Type{Kind: Union, Name: "SoloNull", HasNull: true, Members: []*Member{MemberOf(emptyRec)}})
			f := u.AddNS("g.tiny", &Type{Kind: Fixed, Name: "Byte1", Size: 1})
			user := u.AddNS("g.tiny", rec("User", Req("e", e), Req("n", emptyRec), Req("u", un), Opt("un", unn), Req("f", f), Opt("ns", ArrayOf(emptyRec))))
			inc := u.AddNS("g.tiny", &Type{Kind: Record, Name: "OnlyIncludes", Includes: []*Type{user}})
			r := gCollection(u, "nothings", P(Int64), emptyRec, allCollectionMethods, false)
			r.Namespace = "g.tiny.nothings"
			return []*Type{user, inc}
		})
		mk("include-diamond", "includes in a chain, two includes side by side, included record from another namespace with optional and defaulted fields", func(u *Universe) []*Type {
			base := u.AddNS("g.inc.base", rec("Base", Req("id", P(Int64)), Opt("note", P(String)), Def("flag", P(Bool), "true")))
			mid := u.AddNS("g.inc.mid", &Type{Kind: Record, Name: "Mid", Includes: []*Type{base}, Fields: []*Field{Req("m", P(Int32)), Def("tags", ArrayOf(P(String)), `["t"]`)}})
			side := u.AddNS("g.inc.side", rec("Side", Opt("s", MapOf(P(Int32)))))
			top := u.AddNS("g.inc", &Type{Kind: Record, Name: "Top", Includes: []*Type{mid, side}, Fields: []*Field{Req("t", P(String)), Opt("again", mid)}})
			r := gCollection(u, "tops", P(String), top, allCollectionMethods, true)
			r.Namespace = "g.inc.tops"
			return []*Type{top}
		})
		for _, w := range []string{"type", "internal", "go", "main", "testing", "vendor", "r", "c", "keys", "restli", "restlicodec"} {
			w := w
			if !full && !(w == "type" || w == "r" || w == "keys") {
				continue
			}
			mk("namespace-"+w, "types and a resource in a namespace whose last segment is "+w, func(u *Universe) []*Type {
				a := u.AddNS("g."+w, rec("A", Req("x", P(Int32)), Opt("o", P(String))))
				user := u.AddNS("g.user", rec("User", Req("a", a)))
				r := gCollection(u, "things", P(Int64), a, allCollectionMethods, false)
				r.Namespace = "g." + w + ".things"
				return []*Type{a, user}
			})
		}
	}

	sort.SliceStable(items, func(i, j int) bool { return false })
	seen := map[string]bool{}
	for _, it := range items {
		if seen[it.ID] {
			panic("duplicate grammar item " + it.ID)
		}
		seen[it.ID] = true
	}
	return items
}
