package schema

import "fmt"

// DefaultsUniverse: every field type of the grammar that admits a literal x several default
// literals, placed directly, in a nested required record, in an included record, two include
// levels deep, and in a record whose defaults all come from includes.
func DefaultsUniverse() *Universe {
	u := NewUniverse("d")
	e3 := u.Enum("E3", "RED", "GREEN", "BLUE")
	fx := u.Fixed("Fx2", 2)
	small := u.Record("RecSmall", nil, Req("a", P(Int32)), Opt("b", P(String)))
	// a record with its own defaults: nesting it as a default must fill them too
	recd := u.Record("RecD", nil, Req("r", P(Int32)), Def("s", P(String), `"inner"`), Def("n", P(Int64), "9"))
	un := u.Union("USmall", false, MemberOf(P(Int32)), MemberOf(P(String)), MemberOf(small), MemberOf(ArrayOf(P(Int32))))
	unn := u.Union("UNull", true, MemberOf(P(Int64)), MemberOf(e3))
	trs := map[Kind]*Type{}
	for k, n := range map[Kind]string{Int32: "TrInt32", Int64: "TrInt64", Float32: "TrFloat32", Float64: "TrFloat64", Bool: "TrBool", String: "TrString", Bytes: "TrBytes"} {
		trs[k] = u.Typeref(n, k)
	}
	allDef := u.Record("RecAllDef", nil, Def("x", P(Int32), "50"), Def("tags", ArrayOf(P(String)), `["a","b"]`), Opt("o", P(String)))
	unAllDef := u.Union("UAllDef", false, MemberOf(P(Int32)), MemberOf(allDef))
	nestAllDef := u.Record("RecNestAllDef", nil, Def("inner", allDef, `{"x":2}`), Opt("io", allDef))
	type tl struct {
		t   *Type
		lit string
	}
	cases := []tl{
		{P(Int32), "0"}, {P(Int32), "-2147483648"}, {P(Int32), "2147483647"},
		{P(Int64), "0"}, {P(Int64), "9223372036854775807"}, {P(Int64), "-9223372036854775808"},
		{P(Float32), "0.0"}, {P(Float32), "3.4028235e38"}, {P(Float32), "1.0e-7"}, {P(Float32), "-2.5"},
		{P(Float64), "0.0"}, {P(Float64), "1.0e21"}, {P(Float64), "-1.5e-7"}, {P(Float64), "1.7976931348623157e308"}, {P(Float64), "-0.0"}, {P(Float32), "-0.0"},
		{P(Bool), "true"}, {P(Bool), "false"},
		{P(String), `""`}, {P(String), `"a\"b\\cé"`}, {P(String), `"''"`}, {P(String), `"List(x)"`}, {P(String), `"line\nbreak\ttab"`}, {P(String), `"cr\r\nlf \"q\" back\\slash"`},
		{P(Bytes), `""`}, {P(Bytes), `"AB"`}, {P(Bytes), `"ÿ\u0000"`},
		{e3, `"RED"`}, {e3, `"GREEN"`}, {e3, `"BLUE"`},
		{fx, `"xy"`}, {fx, `"ÿ\u0000"`},
		{trs[Int32], "5"}, {trs[Int64], "-6"}, {trs[Float32], "1.5"}, {trs[Float64], "2.5e10"}, {trs[Bool], "true"}, {trs[String], `"ref\"q"`}, {trs[Bytes], `"xyz"`},
		{small, `{"a":5}`}, {small, `{"a":-1,"b":"x\"y"}`},
		{recd, `{"r":1}`}, {recd, `{"r":2,"s":"given"}`},
		{un, `{"int":3}`}, {un, `{"string":"s"}`}, {un, `{"d.RecSmall":{"a":1}}`}, {un, `{"array":[1,2]}`},
		{unn, `{"long":4}`}, {unn, `{"d.E3":"BLUE"}`}, {unn, `null`},
		{ArrayOf(P(Int32)), `[]`}, {ArrayOf(P(Int32)), `[1,2,3]`}, {ArrayOf(P(String)), `["a","","b\"c"]`},
		{ArrayOf(ArrayOf(P(Int32))), `[[]]`}, {ArrayOf(ArrayOf(P(Int32))), `[[1],[],[2,3]]`},
		{ArrayOf(small), `[{"a":1},{"a":2,"b":"z"}]`}, {ArrayOf(recd), `[{"r":7}]`}, {ArrayOf(e3), `["RED","BLUE"]`}, {ArrayOf(P(Bytes)), `["AB",""]`},
		{MapOf(P(Int32)), `{}`}, {MapOf(P(Int32)), `{"k":1,"j":2}`}, {MapOf(MapOf(P(Int32))), `{"k":{}}`}, {MapOf(MapOf(P(Int32))), `{"k":{"i":1}}`},
		{MapOf(P(String)), `{"a b":"c\"d"}`}, {MapOf(small), `{"x":{"a":1}}`}, {MapOf(ArrayOf(P(Float64))), `{"f":[1.5,2.5]}`}, {MapOf(un), `{"u":{"int":1}}`},
		// records all of whose fields are defaulted or optional: the literal {} (and partial literals)
		// must still yield the nested record's own defaults, at any position
		{allDef, `{}`}, {allDef, `{"x":1}`}, {ArrayOf(allDef), `[{},{"tags":[]}]`}, {MapOf(allDef), `{"k":{}}`}, {unAllDef, `{"d.RecAllDef":{}}`},
		{nestAllDef, `{}`}, {nestAllDef, `{"inner":{}}`},
		// numbers inside container defaults that a float64 cannot hold exactly, and float extremes at depth
		{ArrayOf(P(Int64)), `[1,9007199254740993,-9223372036854775808]`}, {MapOf(P(Int64)), `{"p0":1234567890123456789}`},
		{recd, `{"r":2147483647,"n":1152921504606846977}`}, {unn, `{"long":9007199254740993}`}, {ArrayOf(recd), `[{"r":1,"n":9223372036854775807}]`},
		{ArrayOf(P(Float64)), `[1.7976931348623157e308,5e-324]`}, {MapOf(ArrayOf(P(Int64))), `{"k":[4611686018427387905]}`},
	}
	const per = 5
	for i := 0; i < len(cases); i += per {
		n := i / per
		fields := []*Field{Req("req", P(Int32))}
		for j := i; j < i+per && j < len(cases); j++ {
			fields = append(fields, Def(fmt.Sprintf("f%d", j-i), cases[j].t, cases[j].lit))
		}
		direct := u.Record(fmt.Sprintf("D%d", n), nil, fields...)
		onlyInc := u.Record(fmt.Sprintf("DI%d", n), []*Type{direct}, Req("own", P(String)))
		twoLevel := u.Record(fmt.Sprintf("DII%d", n), []*Type{onlyInc}, Req("own2", P(Int64)), Def("top", P(Int32), "3"))
		nested := u.Record(fmt.Sprintf("DN%d", n), nil, Req("inner", direct), Opt("innerOpt", onlyInc), Req("tail", P(Int32)))
		// required records with defaults declared after fields of every other kind, in a record with a default of its own
		late := u.Record(fmt.Sprintf("DL%d", n), nil, Req("head", P(Int32)), Def("own", P(Int32), "5"), Req("inner", direct),
			Req("arr", ArrayOf(P(Int32))), Req("inner2", onlyInc), Opt("mp", MapOf(P(String))), Req("inner3", twoLevel), Req("tail", P(String)))
		// ... and the same fields inherited through an include
		lateInc := u.Record(fmt.Sprintf("DLI%d", n), []*Type{late}, Def("own3", P(Int32), "6"), Req("r3", P(String)))
		// two includes, the first without any default
		plain := u.Record(fmt.Sprintf("DP%d", n), nil, Req("pl", P(Int32)))
		multi := u.Record(fmt.Sprintf("DM%d", n), []*Type{plain, direct}, Req("ownM", P(String)))
		// every defaulted field declared optional as well (the parser reports both independently)
		ofields := []*Field{Req("req", P(Int32))}
		for j := i; j < i+per && j < len(cases); j++ {
			f := Def(fmt.Sprintf("f%d", j-i), cases[j].t, cases[j].lit)
			f.Optional = true
			ofields = append(ofields, f)
		}
		optDef := u.Record(fmt.Sprintf("DO%d", n), nil, ofields...)
		u.Wrappers = append(u.Wrappers, direct, onlyInc, twoLevel, nested, late, lateInc, multi, optDef)
	}
	return u
}

func init() { RegisterUniverse("defaults", DefaultsUniverse) }
