package schema

import (
	"fmt"
	"math"
	"strconv"
	"strings"
)

// Meta is the metacharacter set of the string alphabet (ROR2 / JSON / URL delimiters,
// controls, one non-ASCII letter).
var Meta = []string{"(", ")", ",", ":", "'", "%", "+", " ", "/", "?", "&", "=", ";", "#", "\"", "\\", ".", "~", "!", "*",
	"$", "@", "[", "]", "{", "}", "<", ">", "|", "^", "\t", "\n", "\r", "\x00", "\x7f", "é", "a", "1"}

var Tokens = []string{"''", "List(", "List()", "()", "(a:b)", "null", "true", "NaN", "Infinity", "%2F", "%%", "%zz", "$params",
	"$set", "$delete", "..", "a/b", "//", "a b", "a+b", "List(a,b)", "(k:List(1))", "'a'", "a,b", "a:b", "%25", " ", "\uFFFD", "\U00010000", "\u0100", "\u2028"}

func long(n int) string { return strings.Repeat("abcdefghij", n/10) }

// Strings returns the string alphabet, default element first. reduced=true gives the small
// alphabet used for deviation level 2 and for key pairs.
func Strings(reduced bool) []string {
	out := []string{"a", ""}
	seen := map[string]bool{"a": true, "": true}
	add := func(s string) {
		if !seen[s] {
			seen[s] = true
			out = append(out, s)
		}
	}
	if reduced {
		for _, m := range []string{"(", ")", ",", ":", "'", "%", "+", " ", "/", "\"", "\\", "é", "&", "=", "\x00"} {
			add(m)
		}
		for _, t := range []string{"''", "List(", "()", "(a:b)", "null", "%2F", "$params", "a:b", "a b"} {
			add(t)
		}
		return out
	}
	for c := 0; c <= 0xFF; c++ {
		add(string(rune(c)))
	}
	for _, a := range Meta {
		for _, b := range Meta {
			add(a + b)
		}
	}
	for _, t := range Tokens {
		add(t)
	}
	add(long(300))
	return out
}

// ByteStrings returns the alphabet for bytes of arbitrary length.
func ByteStrings(reduced bool) [][]byte {
	out := [][]byte{{0x61}, {}, nil}
	if reduced {
		for _, b := range []byte{0x00, 0x22, 0x25, 0x27, 0x28, 0x29, 0x2c, 0x3a, 0x5c, 0x7f, 0x80, 0xc3, 0xff} {
			out = append(out, []byte{b})
		}
		return append(out, []byte{0xc3, 0xa9}, []byte{0xff, 0xfe})
	}
	for b := 0; b <= 0xFF; b++ {
		if b != 0x61 {
			out = append(out, []byte{byte(b)})
		}
	}
	set := []byte{0x00, 0x22, 0x25, 0x27, 0x28, 0x29, 0x2c, 0x3a, 0x5c, 0x7f, 0x80, 0xc3, 0xa9, 0xff}
	for _, a := range set {
		for _, b := range set {
			out = append(out, []byte{a, b})
		}
	}
	out = append(out, []byte("h\xc3\xa9llo \xe2\x82\xac"), []byte{0xe2, 0x82}, []byte("''"), []byte("List(a)"))
	return out
}

// FixedBytes returns the alphabet of a fixed of the given size (all values have that size).
func FixedBytes(size int, reduced bool) [][]byte {
	mk := func(b ...byte) []byte {
		o := make([]byte, size)
		for i := range o {
			o[i] = b[i%len(b)]
		}
		return o
	}
	out := [][]byte{mk('x', 'y', 'z')}
	set := []byte{0x00, 0x22, 0x25, 0x27, 0x28, 0x29, 0x2c, 0x3a, 0x5c, 0x7f, 0x80, 0xc3, 0xa9, 0xff, 0x20, 0x2b}
	if reduced {
		set = []byte{0x00, 0x25, 0x28, 0x80, 0xff}
	}
	for _, a := range set {
		out = append(out, mk(a))
		if !reduced {
			out = append(out, mk('a', a), mk(a, 'a'))
		}
	}
	if !reduced {
		for b := 0; b <= 0xFF; b++ {
			out = append(out, mk(byte(b), 'q'))
		}
	}
	return out
}

func Ints32(reduced bool) []int64 {
	if reduced {
		return []int64{0, 1, -1, math.MinInt32, math.MaxInt32}
	}
	return []int64{0, 1, -1, 10, -10, 1000000000, -1000000000, math.MinInt32, math.MaxInt32, math.MaxInt32 - 1, math.MinInt32 + 1, 255, 65536}
}

func Ints64(reduced bool) []int64 {
	if reduced {
		return []int64{0, 1, -1, math.MinInt64, math.MaxInt64}
	}
	return []int64{0, 1, -1, 10, -10, 1000000000000000000, -1000000000000000000, math.MinInt64, math.MaxInt64, math.MaxInt64 - 1, math.MinInt64 + 1,
		1 << 53, 1<<53 + 1, 1<<53 - 1, math.MaxInt32 + 1, math.MinInt32 - 1}
}

func Floats64(reduced bool) []float64 {
	if reduced {
		return []float64{1, 0, math.Copysign(0, -1), -1, 1e21, 1e-7, math.MaxFloat64, math.Inf(1), math.Inf(-1), math.NaN()}
	}
	return []float64{1, 0, math.Copysign(0, -1), -1, 0.1, 1.0 / 3, 1e20, 1e21, math.Nextafter(1e21, 0), math.Nextafter(1e21, 2e21), 1e22,
		1e-6, 1e-7, math.Nextafter(1e-7, 0), math.Nextafter(1e-7, 1), 123456789.125, 1 << 53, 1 << 63, 18446744073709551616.0,
		math.MaxFloat64, -math.MaxFloat64, math.SmallestNonzeroFloat64, 2 * math.SmallestNonzeroFloat64, 2.2250738585072014e-308,
		-0.1, -1e21, -1e-7, 1.5, 100, 1e15, 1e16, 1e17,
		math.Inf(1), math.Inf(-1), math.NaN()}
}

func Floats32(reduced bool) []float64 {
	f := func(x float32) float64 { return float64(x) }
	if reduced {
		return []float64{1, 0, math.Copysign(0, -1), -1, f(1e21), f(1e-7), f(math.MaxFloat32), math.Inf(1), math.Inf(-1), math.NaN()}
	}
	return []float64{1, 0, math.Copysign(0, -1), -1, f(0.1), f(1.0 / 3), f(1e20), f(1e21), f(math.Nextafter32(1e21, 0)), f(math.Nextafter32(1e21, 2e21)), f(1e22),
		f(1e-6), f(1e-7), f(math.Nextafter32(1e-7, 0)), f(math.Nextafter32(1e-7, 1)), f(16777216), f(16777217), f(123456.79),
		f(math.MaxFloat32), f(-math.MaxFloat32), f(math.SmallestNonzeroFloat32), f(2 * math.SmallestNonzeroFloat32), f(1.17549435e-38),
		f(-0.1), 1.5, 100, f(1e10),
		math.Inf(1), math.Inf(-1), math.NaN()}
}

// Base is the default (simplest) value of a type: the first element of its alphabet.
func Base(t *Type) *V {
	switch t.Kind {
	case Int32, Int64:
		return VI(t, 0)
	case Float32, Float64:
		return VF(t, 1)
	case Bool:
		return VB(t, false)
	case String:
		return VS(t, "a")
	case Bytes:
		return VY(t, []byte{0x61})
	case Enum:
		return VE(t, t.Symbols[0])
	case Fixed:
		return VY(t, FixedBytes(t.Size, true)[0])
	case Typeref:
		v := Base(t.Elem)
		v.T = t
		return v
	case Record:
		v := VRec(t, map[string]*V{})
		for _, f := range t.AllFields() {
			if !f.Optional && f.Default == nil {
				v.Fields[f.Name] = Base(f.Type)
			}
		}
		return v
	case Union:
		m := t.Members[0]
		return VUnion(t, m.Alias, Base(m.Type))
	case Array:
		return VArr(t, Base(t.Elem))
	case Map:
		return VMap(t, "k", Base(t.Elem))
	}
	panic("no base")
}

// Alphabet returns every value of t with at most one deviation from Base(t), Base first.
// For composite types the deviation positions are: the container shape, and (recursively)
// one element / entry / field / member. Every value carries a Dev label naming its deviation.
func Alphabet(t *Type, reduced bool) []*V {
	var out []*V
	switch t.Kind {
	case Int32:
		for _, i := range Ints32(reduced) {
			out = append(out, VI(t, i).D("int32:%d", i))
		}
	case Int64:
		for _, i := range Ints64(reduced) {
			out = append(out, VI(t, i).D("int64:%d", i))
		}
	case Float32:
		for _, f := range Floats32(reduced) {
			out = append(out, VF(t, f).D("float32:%s", VF(t, f).String()))
		}
	case Float64:
		for _, f := range Floats64(reduced) {
			out = append(out, VF(t, f).D("float64:%s", VF(t, f).String()))
		}
	case Bool:
		out = []*V{VB(t, false).D("bool:false"), VB(t, true).D("bool:true")}
	case String:
		for _, s := range Strings(reduced) {
			out = append(out, VS(t, s).D("str:%s", q(s)))
		}
	case Bytes:
		for _, y := range ByteStrings(reduced) {
			if y == nil {
				out = append(out, VY(t, y).D("bytes:nil"))
			} else {
				out = append(out, VY(t, y).D("bytes:%x", y))
			}
		}
	case Enum:
		for _, s := range t.Symbols {
			out = append(out, VE(t, s).D("enum:%s", s))
		}
	case Fixed:
		for _, y := range FixedBytes(t.Size, reduced) {
			out = append(out, VY(t, y).D("fixed:%x", y))
		}
	case Typeref:
		for _, v := range Alphabet(t.Elem, reduced) {
			c := v.Clone()
			c.T = t
			out = append(out, c)
		}
	case Record:
		base := Base(t)
		out = append(out, base.D("base"))
		for _, f := range t.AllFields() {
			for i, fv := range FieldAlphabet(f, reduced) {
				if i == 0 {
					continue
				}
				if fv == nil {
					out = append(out, base.With(f.Name, fv).D("%s.unset", f.Name))
				} else {
					out = append(out, base.With(f.Name, fv).D("%s.%s", f.Name, fv.Dev))
				}
			}
		}
	case Union:
		for _, m := range t.Members {
			for _, mv := range Alphabet(m.Type, reduced) {
				out = append(out, VUnion(t, m.Alias, mv).D("member(%s)>%s", m.Alias, mv.Dev))
			}
		}
		if t.HasNull {
			out = append(out, VUnion(t, "", nil).D("member(null)"))
		}
	case Array:
		e := Alphabet(t.Elem, reduced)
		x := e[0]
		y := x
		if len(e) > 1 {
			y = e[1]
		}
		z := y
		if len(e) > 2 {
			z = e[2]
		}
		out = append(out, VArr(t, x).D("arr:one"), VArr(t).D("arr:empty"), VArrNil(t).D("arr:nil"), VArr(t, x, y).D("arr:xy"),
			VArr(t, x, x).D("arr:xx"), VArr(t, x, y, z).D("arr:xyz"))
		for i, ev := range e {
			if i == 0 {
				continue
			}
			out = append(out, VArr(t, ev).D("item0>%s", ev.Dev))
			if i%3 == 0 || reduced {
				out = append(out, VArr(t, x, ev).D("item1>%s", ev.Dev)) // second position (thinned: every 3rd element)
			}
		}
	case Map:
		e := Alphabet(t.Elem, reduced)
		x := e[0]
		y := x
		if len(e) > 1 {
			y = e[1]
		}
		out = append(out, VMap(t, "k", x).D("map:one"), VMap(t).D("map:empty"), VMapNil(t).D("map:nil"), VMap(t, "k1", x, "k2", y).D("map:two"),
			VMap(t, "k1", x, "k2", y, "k3", x, "k4", y, "k5", x).D("map:five"))
		if len(e) > 2 {
			// entries whose values all differ from one another (and are rarely empty): what an order-dependent
			// fold over the entries needs to show
			// (the null member of a nullable union has its own position in the union's alphabet: not here)
			pick := func(i int) *V {
				for ; i > 0; i-- {
					if !holdsNullMember(e[i]) {
						return e[i]
					}
				}
				return e[0]
			}
			z, m := pick(len(e)-1), pick(len(e)/2)
			out = append(out, VMap(t, "k1", x, "k2", z).D("map:two-distinct"), VMap(t, "k1", m, "k2", z, "k3", x).D("map:three-distinct"))
		}
		for i, k := range Strings(reduced) {
			if i == 0 {
				continue
			}
			out = append(out, VMap(t, k, x).D("key:%s", q(k)))
		}
		for i, ev := range e {
			if i == 0 {
				continue
			}
			out = append(out, VMap(t, "k", ev).D("val>%s", ev.Dev))
		}
		// pairs of keys from the reduced key alphabet in a 2-entry map (merged / colliding keys)
		rk := Strings(true)
		for i := 0; i < len(rk); i++ {
			for j := i + 1; j < len(rk); j++ {
				if reduced && (i > 6 || j > 6) {
					continue
				}
				out = append(out, VMap(t, rk[i], x, rk[j], y).D("keys:%s+%s", q(rk[i]), q(rk[j])))
			}
		}
	}
	return out
}

func q(s string) string {
	if len(s) > 40 {
		return fmt.Sprintf("<%d chars>", len(s))
	}
	return strconv.QuoteToASCII(s)
}

// FieldAlphabet: the alphabet of a record field position, default first.
//   required: the type's alphabet; optional / defaulted: unset, then set(each element).
func FieldAlphabet(f *Field, reduced bool) []*V {
	a := Alphabet(f.Type, reduced)
	if f.Optional || f.Default != nil {
		return append([]*V{nil}, a...)
	}
	return a
}

// Rich is a value of t in which every optional and defaulted field is set, arrays have two
// items, maps two entries and unions hold their first record member (else the first member).
func Rich(t *Type) *V {
	switch t.Kind {
	case Record:
		v := VRec(t, map[string]*V{})
		for _, f := range t.AllFields() {
			v.Fields[f.Name] = Rich(f.Type)
		}
		return v
	case Union:
		for _, m := range t.Members {
			if m.Type.Kind == Record {
				return VUnion(t, m.Alias, Rich(m.Type))
			}
		}
		return VUnion(t, t.Members[0].Alias, Rich(t.Members[0].Type))
	case Array:
		return VArr(t, Rich(t.Elem), Rich(t.Elem))
	case Map:
		return VMap(t, "k1", Rich(t.Elem), "k2", Rich(t.Elem))
	case Typeref:
		v := Rich(t.Elem)
		v.T = t
		return v
	}
	return Base(t)
}

// Pos is a record-field position inside a value: Path is the list of segments leading to the
// record (field names, "[i]", map keys, union aliases), Field the field of that record.
type Pos struct {
	Path  []string
	Field *Field
}

// String renders the position in the library's missing-field path syntax.
func (p Pos) String() string { return JoinPath(append(append([]string{}, p.Path...), p.Field.Name)) }

func JoinPath(segs []string) string {
	out := ""
	for i, s := range segs {
		if i > 0 && !(len(s) > 0 && s[0] == '[') {
			out += "."
		}
		out += s
	}
	return out
}

// Positions lists every record-field position present in v (depth first, document order).
func Positions(v *V) []Pos {
	var out []Pos
	var walk func(v *V, path []string)
	walk = func(v *V, path []string) {
		if v == nil {
			return
		}
		switch v.T.Base().Kind {
		case Record:
			for _, f := range v.T.AllFields() {
				fv := v.Fields[f.Name]
				if fv == nil {
					continue
				}
				out = append(out, Pos{append([]string{}, path...), f})
				walk(fv, append(append([]string{}, path...), f.Name))
			}
		case Union:
			if v.Alias != "" {
				walk(v.Mem, append(append([]string{}, path...), v.Alias))
			}
		case Array:
			for i, it := range v.Items {
				walk(it, append(append([]string{}, path...), "["+itoa(i)+"]"))
			}
		case Map:
			for _, k := range v.Keys {
				walk(v.Ent[k], append(append([]string{}, path...), k))
			}
		}
	}
	walk(v, nil)
	return out
}

func itoa(i int) string { return strconv.Itoa(i) }

// Edit returns a copy of v in which the record field at position p is replaced by repl
// (nil = deleted). It returns nil if the position does not exist in v.
func Edit(v *V, p Pos, repl func(old *V) *V) *V {
	var rec func(v *V, path []string) *V
	rec = func(v *V, path []string) *V {
		if v == nil {
			return nil
		}
		c := v.Clone()
		if len(path) == 0 {
			if c.T.Base().Kind != Record || c.Fields[p.Field.Name] == nil {
				return nil
			}
			n := repl(c.Fields[p.Field.Name])
			if n == nil {
				delete(c.Fields, p.Field.Name)
			} else {
				c.Fields[p.Field.Name] = n
			}
			return c
		}
		seg := path[0]
		switch c.T.Base().Kind {
		case Record:
			ch := rec(c.Fields[seg], path[1:])
			if ch == nil {
				return nil
			}
			c.Fields[seg] = ch
		case Union:
			if c.Alias != seg {
				return nil
			}
			ch := rec(c.Mem, path[1:])
			if ch == nil {
				return nil
			}
			c.Mem = ch
		case Array:
			i, err := strconv.Atoi(seg[1 : len(seg)-1])
			if err != nil || i >= len(c.Items) {
				return nil
			}
			ch := rec(c.Items[i], path[1:])
			if ch == nil {
				return nil
			}
			c.Items[i] = ch
		case Map:
			ch := rec(c.Ent[seg], path[1:])
			if ch == nil {
				return nil
			}
			c.Ent[seg] = ch
		default:
			return nil
		}
		return c
	}
	return rec(v, p.Path)
}

// At returns the value at a full path (segments as in Pos.Path plus field names).
func At(v *V, path []string) *V {
	for _, seg := range path {
		if v == nil {
			return nil
		}
		switch v.T.Base().Kind {
		case Record:
			v = v.Fields[seg]
		case Union:
			if v.Alias != seg {
				return nil
			}
			v = v.Mem
		case Array:
			i, err := strconv.Atoi(seg[1 : len(seg)-1])
			if err != nil || i >= len(v.Items) {
				return nil
			}
			v = v.Items[i]
		case Map:
			v = v.Ent[seg]
		default:
			return nil
		}
	}
	return v
}

// holdsNullMember reports whether a union holding its null member occurs anywhere in v (such values run into the
// recorded null-union findings under their own labels; container alphabets avoid re-reporting them under new ones).
func holdsNullMember(v *V) bool {
	if v == nil {
		return false
	}
	if v.T != nil && v.T.Base().Kind == Union && v.Alias == "" {
		return true
	}
	if holdsNullMember(v.Mem) {
		return true
	}
	for _, f := range v.Fields {
		if holdsNullMember(f) {
			return true
		}
	}
	for _, f := range v.Items {
		if holdsNullMember(f) {
			return true
		}
	}
	for _, f := range v.Ent {
		if holdsNullMember(f) {
			return true
		}
	}
	return false
}
