package schema

import "strings"

func restMethod(name string, returnEntity bool) *Method {
	return &Method{Kind: "REST_METHOD", Name: name, ReturnEntity: returnEntity}
}

var allRestMethods = []string{"get", "create", "update", "partial_update", "delete", "get_all",
	"batch_get", "batch_create", "batch_update", "batch_partial_update", "batch_delete"}

// ResourcesUniverse is the R-universe of C02 / C07 / C08 / C16 / C17.
func ResourcesUniverse(level string) *Universe {
	u := NewUniverse("res")
	e3 := u.Enum("E3", "RED", "GREEN", "BLUE")
	trs := u.Typeref("TrString", String)
	tri := u.Typeref("TrInt64", Int64)
	ent := u.Record("Ent", nil, Req("a", P(Int32)), Req("s", P(String)), Opt("o", P(String)), Opt("m", MapOf(P(String))), Opt("l", ArrayOf(P(Int64))))
	meta := u.Record("Meta", nil, Req("total", P(Int32)), Opt("note", P(String)))
	// (ko: an optional key field, left unset by most keys)
	// (kb: a key field that the key record inherits from an included record)
	keyBase := u.Record("KeyBase", nil, Opt("kb", P(String)))
	keyRec := u.Record("KeyRec", []*Type{keyBase}, Req("k1", P(String)), Req("k2", P(Int64)), Opt("ko", P(String)))
	parRec := u.Record("ParRec", nil, Opt("p", P(String)))
	ck := u.ComplexKey("CK", keyRec, parRec)
	// entity with read-only / create-only annotated fields (C07)
	// (innerUrn: a field whose name starts with the name of another annotated field; zStamp: an annotated field that
	// is the last one written, right before the next entity of a batch)
	ann := u.Record("Ann", nil, Req("id", P(Int64)), Req("name", P(String)), Opt("created", P(Int64)), Opt("inner", ent), Opt("items", ArrayOf(ent)), Opt("byKey", MapOf(ent)),
		Opt("innerUrn", P(String)), Opt("zStamp", P(Int64)))

	finders := func(entity *Type) []*Method {
		return []*Method{
			{Kind: "FINDER", Name: "byS", Params: []*Field{Req("s", P(String)), Opt("n", P(Int32)), Opt("tags", ArrayOf(P(String)))}, Paging: true, Return: entity, Metadata: meta},
			{Kind: "FINDER", Name: "bare", Return: entity},
			// paging is all the parameters these finders have
			{Kind: "FINDER", Name: "paged", Paging: true, Return: entity},
			{Kind: "FINDER", Name: "pagedMeta", Paging: true, Return: entity, Metadata: meta},
		}
	}
	actions := func(entity *Type) []*Method {
		return []*Method{
			{Kind: "ACTION", Name: "resNoResult", Params: []*Field{Req("x", P(Int32)), Opt("e", e3)}},
			{Kind: "ACTION", Name: "resWithResult", Params: []*Field{Req("s", P(String)), Opt("rec", entity), Opt("arr", ArrayOf(P(String))), Opt("mp", MapOf(P(Int64))), Opt("tr", trs)}, Return: entity},
			{Kind: "ACTION", Name: "entNoResult", OnEntity: true, Params: []*Field{Opt("flag", P(Bool))}},
			{Kind: "ACTION", Name: "entWithResult", OnEntity: true, Params: []*Field{Req("n", P(Int64))}, Return: P(String)},
			{Kind: "ACTION", Name: "noParams", Return: P(Int32)},
		}
	}
	collection := func(name string, keyName string, keyType *Type, entity *Type, returnEntity bool, parents ...Segment) *Resource {
		r := &Resource{Namespace: "res." + strings.ToLower(name), Schema: entity}
		r.Segments = append(append([]Segment{}, parents...), Segment{Name: name, KeyName: keyName, KeyType: keyType})
		for _, m := range allRestMethods {
			re := returnEntity && (m == "create" || m == "batch_create" || m == "partial_update")
			rm := restMethod(m, re)
			rm.OnEntity = m == "get" || m == "update" || m == "partial_update" || m == "delete"
			r.Methods = append(r.Methods, rm)
		}
		r.Methods = append(r.Methods, finders(entity)...)
		r.Methods = append(r.Methods, actions(entity)...)
		u.Resources = append(u.Resources, r)
		return r
	}
	simple := func(name string, entity *Type, parents ...Segment) *Resource {
		r := &Resource{Namespace: "res." + strings.ToLower(name), Schema: entity}
		r.Segments = append(append([]Segment{}, parents...), Segment{Name: name})
		for _, m := range []string{"get", "update", "partial_update", "delete"} {
			r.Methods = append(r.Methods, restMethod(m, false))
		}
		r.Methods = append(r.Methods, &Method{Kind: "ACTION", Name: "ping", Params: []*Field{Req("x", P(Int32))}, Return: P(Int32)})
		u.Resources = append(u.Resources, r)
		return r
	}
	collection("cString", "cStringId", P(String), ent, false)
	collection("cInt64", "cInt64Id", P(Int64), ent, true)
	collection("cComplex", "cComplexId", ck, ent, false)
	// (an enum key: the only key type whose values can be invalid, and whose validity the generated code decides)
	collection("cEnum", "cEnumId", e3, ent, true)
	if level == "full" {
		collection("cInt32", "cInt32Id", P(Int32), ent, false)
		collection("cBool", "cBoolId", P(Bool), ent, false)
		collection("cFloat64", "cFloat64Id", P(Float64), ent, false)
		collection("cTrString", "cTrStringId", trs, ent, false)
		collection("cTrInt64", "cTrInt64Id", tri, ent, false)
	}
	// REST methods that take query parameters of their own (all optional / defaulted, so that a call
	// may carry an empty query) and paging on get_all
	{
		pc := collection("cParams", "cParamsId", P(String), ent, false)
		withParams := map[string][]*Field{
			"get":          {Opt("viewer", P(String)), Opt("depth", P(Int32))},
			"get_all":      {Opt("filter", P(String))},
			"create":       {Opt("dryRun", P(Bool))},
			"update":       {Opt("reason", P(String))},
			"delete":       {Opt("force", P(Bool)), Opt("tags", ArrayOf(P(String)))},
			"batch_get":    {Opt("fieldsOf", e3)},
			"batch_delete": {Opt("force", P(Bool))},
		}
		for _, m := range pc.Methods {
			if m.Kind == "REST_METHOD" {
				m.Params = withParams[m.Name]
				if m.Name == "get_all" {
					m.Paging = true
				}
			}
		}
	}
	simple("sRoot", ent)
	// a simple resource whose REST methods take query parameters: the only simple-resource calls with a query,
	// hence the only ones a tunnelling client ever turns into POST
	{
		sp := simple("sParams", ent)
		withParams := map[string][]*Field{
			"get":            {Opt("viewer", P(String)), Opt("depth", P(Int32))},
			"update":         {Opt("reason", P(String))},
			"delete":         {Opt("force", P(Bool)), Opt("tags", ArrayOf(P(String)))},
			"partial_update": {Opt("note", P(String))},
		}
		for _, m := range sp.Methods {
			if m.Kind == "REST_METHOD" {
				m.Params = withParams[m.Name]
			}
		}
	}
	parentC := Segment{Name: "cString", KeyName: "cStringId", KeyType: P(String)}
	collection("subColl", "subCollId", P(Int64), ent, false, parentC)
	simple("subSimple", ent, parentC)
	collection("underSimple", "underSimpleId", P(String), ent, false, Segment{Name: "sRoot"})
	// three levels, two keys
	collection("deep", "deepId", P(String), ent, false, parentC, Segment{Name: "subColl", KeyName: "subCollId", KeyType: P(Int64)})
	// action set
	as := &Resource{Namespace: "res.actionset", Segments: []Segment{{Name: "actionSet"}}}
	as.Methods = append(as.Methods, &Method{Kind: "ACTION", Name: "echo", Params: []*Field{Req("s", P(String))}, Return: P(String)},
		&Method{Kind: "ACTION", Name: "fire", Params: []*Field{Opt("n", P(Int32))}})
	u.Resources = append(u.Resources, as)
	// annotated resource (read-only / create-only fields)
	an := collection("annotated", "annotatedId", P(Int64), ann, false)
	an.ReadOnly = []string{"id", "inner/o", "items/*/o", "byKey/*/o", "zStamp"}
	an.CreateOnly = []string{"created", "inner/a"}
	// only create-only / only read-only annotations (the generated bindings choose their exclusion
	// specs per method from which of the two lists is non-empty)
	aco := collection("annotatedCO", "annotatedCOId", P(Int64), ann, false)
	aco.CreateOnly = []string{"created", "inner/a"}
	aro := collection("annotatedRO", "annotatedROId", P(Int64), ann, false)
	aro.ReadOnly = []string{"id", "items/*/o", "zStamp"}
	// a record-typed field excluded as a whole, and the return-entity variants of create / partial_update
	awh := collection("annotatedWhole", "annotatedWholeId", P(Int64), ann, true)
	awh.ReadOnly = []string{"inner"}
	awh.CreateOnly = []string{"items", "created", "innerUrn"}
	return u
}

func init() {
	RegisterUniverse("resources-quick", func() *Universe { return ResourcesUniverse("quick") })
	RegisterUniverse("resources-full", func() *Universe { return ResourcesUniverse("full") })
}
