package schema

// Resource mirrors the generator's resource description (codegen/resources/json.go).
type Resource struct {
	Namespace  string
	Segments   []Segment
	Schema     *Type // nil for action sets
	Methods    []*Method
	ReadOnly   []string
	CreateOnly []string
}

type Segment struct {
	Name    string
	KeyName string // "" = no key (simple resource / action set)
	KeyType *Type
}

type Method struct {
	Kind         string // REST_METHOD | ACTION | FINDER
	Name         string // get, create, ... | action name | finder name
	OnEntity     bool
	Params       []*Field
	Paging       bool
	Return       *Type
	Metadata     *Type
	ReturnEntity bool
}

func (r *Resource) Name() string { return r.Segments[len(r.Segments)-1].Name }

func (r *Resource) Method(name string) *Method {
	for _, m := range r.Methods {
		if m.Name == name {
			return m
		}
	}
	return nil
}

func (r *Resource) JSON(v2 bool) map[string]interface{} {
	segs := []interface{}{}
	for _, s := range r.Segments {
		m := map[string]interface{}{"resourceName": s.Name, "pathKey": nil}
		if s.KeyName != "" {
			m["pathKey"] = map[string]interface{}{"name": s.KeyName, "type": typeRefJSON(s.KeyType)}
		}
		segs = append(segs, m)
	}
	ms := []interface{}{}
	for _, m := range r.Methods {
		ps := []interface{}{}
		for _, p := range m.Params {
			ps = append(ps, fieldJSON(p))
		}
		if m.Paging && !v2 {
			// the root generator has no paging flag: start/count are ordinary optional params
			ps = append(ps, fieldJSON(Opt("start", P(Int32))), fieldJSON(Opt("count", P(Int32))))
		}
		re := m.ReturnEntity
		if !v2 && m.Name == "partial_update" {
			// the root generator emits a call to restli.PartialUpdateWithReturnEntity, which the root
			// runtime does not have (recorded under C12); the resource universes avoid the combination
			re = false
		}
		mm := map[string]interface{}{"methodType": m.Kind, "name": m.Name, "doc": "", "onEntity": m.OnEntity,
			"params": ps, "return": nil, "metadata": nil, "returnEntity": re}
		if v2 {
			mm["isPagingSupported"] = m.Paging
		}
		if m.Return != nil {
			mm["return"] = typeRefJSON(m.Return)
		}
		if m.Metadata != nil {
			mm["metadata"] = typeRefJSON(m.Metadata)
		}
		ms = append(ms, mm)
	}
	out := map[string]interface{}{"namespace": r.Namespace, "doc": "", "sourceFile": "verif-universe",
		"resourcePathSegments": segs, "resourceSchema": nil, "methods": ms,
		"readOnlyFields": strs(r.ReadOnly), "createOnlyFields": strs(r.CreateOnly)}
	if r.Schema != nil {
		out["resourceSchema"] = typeRefJSON(r.Schema)
	}
	return out
}

func strs(s []string) []string {
	if s == nil {
		return []string{}
	}
	return s
}
