package schema

import (
	"encoding/json"
	"fmt"
	"sort"
	"strings"
)

// Universe is one generated namespace: named types plus (optionally) resources.
type Universe struct {
	NS    string
	named map[string]*Type
	order []*Type
	// Wrappers are the records under test (one per field type of the grammar).
	Wrappers []*Type
	// Extra named records/unions/... that checks address by name.
	ByName    map[string]*Type
	Resources []*Resource
}

func NewUniverse(ns string) *Universe {
	return &Universe{NS: ns, named: map[string]*Type{}, ByName: map[string]*Type{}}
}

func (u *Universe) add(t *Type) *Type {
	if t.Name == "" {
		panic("unnamed type")
	}
	if old, ok := u.named[t.Name]; ok {
		return old
	}
	t.NS = u.NS
	u.named[t.Name] = t
	u.order = append(u.order, t)
	u.ByName[t.Name] = t
	return t
}

func (u *Universe) Named() []*Type { return u.order }

func (u *Universe) Enum(name string, symbols ...string) *Type {
	return u.add(&Type{Kind: Enum, Name: name, Symbols: symbols})
}
func (u *Universe) Fixed(name string, size int) *Type {
	return u.add(&Type{Kind: Fixed, Name: name, Size: size})
}
func (u *Universe) Typeref(name string, prim Kind) *Type {
	return u.add(&Type{Kind: Typeref, Name: name, Elem: P(prim)})
}
// CustomFiles returns the hand-written implementations of the universe's custom typerefs, keyed by
// their path below the package root.
func (u *Universe) CustomFiles() map[string]string {
	out := map[string]string{}
	for _, t := range u.order {
		if t.Kind == Typeref && t.Custom {
			ns := t.NS
			if ns == "" {
				ns = u.NS
			}
			out[strings.ReplaceAll(ns, ".", "/")+"/"+t.Name+".go"] = customTyperefFile(ns[strings.LastIndex(ns, ".")+1:], t.Name, t.Elem.Kind)
		}
	}
	return out
}

func (u *Universe) CustomTyperef(name string, prim Kind) *Type {
	return u.add(&Type{Kind: Typeref, Name: name, Elem: P(prim), Custom: true})
}
func (u *Universe) Record(name string, includes []*Type, fields ...*Field) *Type {
	return u.add(&Type{Kind: Record, Name: name, Includes: includes, Fields: fields})
}
func (u *Universe) Union(name string, hasNull bool, members ...*Member) *Type {
	return u.add(&Type{Kind: Union, Name: name, HasNull: hasNull, Members: members})
}
func (u *Universe) ComplexKey(name string, key, params *Type) *Type {
	return u.add(&Type{Kind: Record, Name: name, ComplexKey: &ComplexKeyDef{key, params}})
}

func Req(name string, t *Type) *Field { return &Field{Name: name, Type: t} }
func Opt(name string, t *Type) *Field { return &Field{Name: name, Type: t, Optional: true} }
func Def(name string, t *Type, lit string) *Field {
	return &Field{Name: name, Type: t, Default: &lit}
}

// MemberOf builds a union member with the alias Rest.li derives from the type.
func MemberOf(t *Type) *Member { return &Member{Alias: UnionAlias(t), Type: t} }

func UnionAlias(t *Type) string {
	switch t.Kind {
	case Int32:
		return "int"
	case Int64:
		return "long"
	case Float32:
		return "float"
	case Float64:
		return "double"
	case Bool:
		return "boolean"
	case String:
		return "string"
	case Bytes:
		return "bytes"
	case Array:
		return "array"
	case Map:
		return "map"
	}
	return t.NS + "." + t.Name
}

// DefaultLiteral is the JSON default literal the wrapper records declare for a field of type t.
func DefaultLiteral(t *Type) string {
	switch t.Kind {
	case Int32, Int64:
		return "7"
	case Float32, Float64:
		return "1.5"
	case Bool:
		return "true"
	case String:
		return `"dflt"`
	case Bytes:
		return `"A\u00e9\u0080"` // a byte string is one code point U+0000..U+00FF per byte
	case Enum:
		return fmt.Sprintf("%q", t.Symbols[1%len(t.Symbols)])
	case Fixed:
		s := ""
		for i := 0; i < t.Size; i++ {
			s += string(rune('x' + i%3))
		}
		return fmt.Sprintf("%q", s)
	case Typeref:
		return DefaultLiteral(t.Elem)
	case Record:
		// smallest valid document: required fields only
		parts := ""
		for _, f := range t.AllFields() {
			if f.Optional || f.Default != nil {
				continue
			}
			if parts != "" {
				parts += ","
			}
			parts += fmt.Sprintf("%q:%s", f.Name, DefaultLiteral(f.Type))
		}
		return "{" + parts + "}"
	case Union:
		m := t.Members[0]
		return fmt.Sprintf("{%q:%s}", m.Alias, DefaultLiteral(m.Type))
	case Array:
		return "[" + DefaultLiteral(t.Elem) + "]"
	case Map:
		return `{"dk":` + DefaultLiteral(t.Elem) + "}"
	}
	panic("no default literal")
}

// Leaves declares the leaf types of the grammar in u and returns them.
func (u *Universe) Leaves(withCustom bool) []*Type {
	var out []*Type
	for _, k := range []Kind{Int32, Int64, Float32, Float64, Bool, String, Bytes} {
		out = append(out, P(k))
	}
	out = append(out, u.Enum("E3", "RED", "GREEN", "BLUE"))
	out = append(out, u.Fixed("Fx2", 2))
	names := map[Kind]string{Int32: "TrInt32", Int64: "TrInt64", Float32: "TrFloat32", Float64: "TrFloat64", Bool: "TrBool", String: "TrString", Bytes: "TrBytes"}
	for _, k := range []Kind{Int32, Int64, Float32, Float64, Bool, String, Bytes} {
		out = append(out, u.Typeref(names[k], k))
	}
	if withCustom {
		// custom typerefs (v2: hand-written Go types with their own marshalling, equality and hash; the root
		// generation treats them as ordinary typerefs)
		out = append(out, u.CustomTyperef("CtString", String), u.CustomTyperef("CtLong", Int64), u.CustomTyperef("CtBytes", Bytes))
	}
	small := u.Record("RecSmall", nil, Req("a", P(Int32)), Opt("b", P(String)))
	out = append(out, small)
	out = append(out, u.Union("USmall", false, MemberOf(P(Int32)), MemberOf(P(String)), MemberOf(small)))
	out = append(out, u.Union("UNull", true, MemberOf(P(Int32)), MemberOf(P(String)), MemberOf(small)))
	return out
}

// Wrapper declares the record under test for field type t:
//   aa:int32 (required)  fr:T (required)  fo:T (optional)  fd:T (default)  zz:int32 (required)
func (u *Universe) Wrapper(t *Type) *Type {
	name := "R" + t.Label()
	if w, ok := u.named[name]; ok {
		return w
	}
	w := u.Record(name, nil,
		Req("aa", P(Int32)),
		Req("fr", t),
		Opt("fo", t),
		Def("fd", t, DefaultLiteral(t)),
		Req("zz", P(Int32)))
	u.Wrappers = append(u.Wrappers, w)
	return w
}

// CodecUniverse builds the universe for the codec properties.
//   level "quick": every leaf, array(leaf), map(leaf)               (depth <= 1)
//   level "full":  additionally array/map of every depth-1 type      (depth <= 2)
//                  and depth-3 spines, include chains, wide unions
func CodecUniverse(level string) *Universe {
	u := NewUniverse("u")
	leaves := u.Leaves(true)
	d0 := leaves
	var d1, d2 []*Type
	for _, t := range d0 {
		d1 = append(d1, ArrayOf(t), MapOf(t))
	}
	types := append(append([]*Type{}, d0...), d1...)
	if level == "full" {
		for _, t := range d1 {
			d2 = append(d2, ArrayOf(t), MapOf(t))
		}
		types = append(types, d2...)
		// depth-3 spines
		s := P(String)
		small := u.ByName["RecSmall"]
		types = append(types,
			ArrayOf(ArrayOf(ArrayOf(s))), MapOf(MapOf(MapOf(s))), ArrayOf(MapOf(ArrayOf(s))), MapOf(ArrayOf(MapOf(s))),
			ArrayOf(MapOf(ArrayOf(small))), MapOf(ArrayOf(MapOf(P(Bytes)))))
	} else {
		// a few depth-2 shapes keep the nesting code paths in the quick tier
		types = append(types, ArrayOf(ArrayOf(P(String))), MapOf(MapOf(P(Int32))), ArrayOf(MapOf(P(String))), MapOf(ArrayOf(u.ByName["RecSmall"])))
	}
	for _, t := range types {
		u.Wrapper(t)
	}
	u.includeChains()
	u.wideUnions(level == "full")
	// a complex key (key record + $params record): library key type with its own equality and hash
	ckKey := u.Record("CKeyPart", nil, Req("k1", P(String)), Req("k2", P(Int64)), Opt("k3", ArrayOf(P(String))))
	ckPar := u.Record("CKeyParams", nil, Opt("p", P(String)), Opt("n", P(Int32)))
	u.ComplexKey("CKey", ckKey, ckPar)
	return u
}

func (u *Universe) includeChains() {
	inc2 := u.Record("Inc2", nil, Req("i2r", P(Int64)), Opt("i2o", P(String)), Def("i2d", P(String), `"d2"`))
	inc1 := u.Record("Inc1", []*Type{inc2}, Req("i1r", P(Int32)), Def("i1d", P(Int32), "11"), Opt("i1o", ArrayOf(P(String))))
	top := u.Record("RTop", []*Type{inc1}, Req("t", P(String)), Def("td", P(Bool), "true"), Opt("to", u.ByName["RecSmall"]))
	only := u.Record("ROnlyInc", []*Type{inc1}, Req("x", P(Int32)))
	two := u.Record("RTwoInc", []*Type{inc2, u.ByName["RecSmall"]}, Req("y", P(String)))
	nested := u.Record("RNestInc", nil, Req("n", top), Opt("no", only), Req("arr", ArrayOf(top)))
	u.Wrappers = append(u.Wrappers, inc2, inc1, top, only, two, nested)
	// records without fields of their own: everything they carry is inherited
	pure1 := u.Record("RPureInc", []*Type{inc1})
	pure2 := u.Record("RPureTwoInc", []*Type{inc2, u.ByName["RecSmall"]})
	holder := u.Record("RPureHolder", nil, Req("p", pure1), Opt("ps", ArrayOf(pure2)), Req("z", P(Int32)))
	u.Wrappers = append(u.Wrappers, pure1, pure2, holder)
	// a record without required fields of its own around records that have some
	small := u.ByName["RecSmall"]
	optOuter := u.Record("ROptOuter", nil, Opt("o", small), Opt("arr", ArrayOf(small)), Opt("m", MapOf(small)), Def("d", P(Int32), "4"))
	u.Wrappers = append(u.Wrappers, optOuter)
	// include fans: several siblings including the same record, over bases with 2 and 3 required
	// fields (shared required-field tables, defaults and partial-update helpers must not alias)
	for _, n := range []int{2, 3} {
		var bf []*Field
		for i := 1; i <= n; i++ {
			bf = append(bf, Req(fmt.Sprintf("b%d", i), P(Int32)))
		}
		bf = append(bf, Opt("bo", P(String)))
		base := u.Record(fmt.Sprintf("FanBase%d", n), nil, bf...)
		mid := u.Record(fmt.Sprintf("FanMid%d", n), []*Type{base}, Req("m", P(String)), Def("md", P(Int32), "5"))
		a := u.Record(fmt.Sprintf("FanA%d", n), []*Type{mid}, Req("fa", P(String)), Opt("fao", P(Int32)))
		b := u.Record(fmt.Sprintf("FanB%d", n), []*Type{mid}, Req("fb", P(Int64)))
		c := u.Record(fmt.Sprintf("FanC%d", n), []*Type{mid}, Req("fc1", P(Bool)), Req("fc2", P(String)))
		d := u.Record(fmt.Sprintf("FanD%d", n), []*Type{base}, Req("fd", P(String)))
		u.Wrappers = append(u.Wrappers, base, mid, a, b, c, d)
	}
}

func (u *Universe) wideUnions(full bool) {
	small := u.ByName["RecSmall"]
	e3 := u.ByName["E3"]
	trs := u.ByName["TrString"]
	fx := u.ByName["Fx2"]
	kinds := []*Type{P(Int64), P(Bytes), e3, small, ArrayOf(P(String)), MapOf(P(Int32)), trs, fx, P(Float64), P(Bool)}
	if ct := u.ByName["CtLong"]; ct != nil {
		kinds = append(kinds, ct)
	}
	var ms []*Member
	for _, k := range kinds {
		ms = append(ms, MemberOf(k))
	}
	all := u.Union("UAll", false, ms...)
	alln := u.Union("UAllNull", true, ms...)
	u.Wrapper(all)
	u.Wrapper(alln)
	u.Wrapper(ArrayOf(all))
	u.Wrapper(MapOf(alln))
	if full {
		// every unordered pair of member kinds, with and without null
		for i := 0; i < 7; i++ {
			for j := i + 1; j < 7; j++ {
				for _, hn := range []bool{false, true} {
					name := fmt.Sprintf("UP%d%d", i, j)
					if hn {
						name += "N"
					}
					un := u.Union(name, hn, MemberOf(kinds[j]), MemberOf(kinds[i]))
					u.Wrapper(un)
				}
			}
		}
	}
}

// ---------------------------------------------------------------- manifest emission

func typeRefJSON(t *Type) map[string]interface{} {
	switch t.Kind {
	case Array:
		return map[string]interface{}{"array": typeRefJSON(t.Elem)}
	case Map:
		return map[string]interface{}{"map": typeRefJSON(t.Elem)}
	case Enum, Fixed, Typeref, Record, Union:
		return map[string]interface{}{"reference": map[string]interface{}{"name": t.Name, "namespace": t.NS}}
	}
	return map[string]interface{}{"primitive": t.Kind.String()}
}

func fieldJSON(f *Field) map[string]interface{} {
	m := map[string]interface{}{"name": f.Name, "doc": "", "type": typeRefJSON(f.Type), "isOptional": f.Optional}
	if f.Default != nil {
		m["defaultValue"] = *f.Default
	}
	return m
}

func (u *Universe) dataTypeJSON(t *Type) map[string]interface{} { return u.dataTypeJSONFor(t, true) }

// dataTypeJSONFor: the root-module generator has no "includes": included fields are listed
// among the record's fields with includedFrom naming the directly included record.
func (u *Universe) dataTypeJSONFor(t *Type, v2 bool) map[string]interface{} {
	base := map[string]interface{}{"name": t.Name, "namespace": t.NS, "sourceFile": "verif-universe", "doc": ""}
	switch {
	case t.ComplexKey != nil:
		base["Key"] = map[string]interface{}{"name": t.ComplexKey.Key.Name, "namespace": t.ComplexKey.Key.NS}
		base["Params"] = map[string]interface{}{"name": t.ComplexKey.Params.Name, "namespace": t.ComplexKey.Params.NS}
		return map[string]interface{}{"complexKey": base}
	case t.Kind == Enum:
		base["Symbols"] = t.Symbols
		base["SymbolToDoc"] = map[string]string{}
		return map[string]interface{}{"enum": base}
	case t.Kind == Fixed:
		base["Size"] = t.Size
		return map[string]interface{}{"fixed": base}
	case t.Kind == Typeref:
		base["type"] = t.Elem.Kind.String()
		// the schema parser never sets isCustom: the generator derives it from the presence of the
		// hand-written <Type>.go in the output directory (LocateCustomTyperefs)
		base["isCustom"] = false
		return map[string]interface{}{"typeref": base}
	case t.Kind == Record:
		incs := []interface{}{}
		for _, i := range t.Includes {
			incs = append(incs, map[string]interface{}{"name": i.Name, "namespace": i.NS})
		}
		fields := []interface{}{}
		if !v2 {
			for _, i := range t.Includes {
				for _, f := range i.AllFields() {
					fj := fieldJSON(f)
					fj["includedFrom"] = map[string]interface{}{"name": i.Name, "namespace": i.NS}
					fields = append(fields, fj)
				}
			}
		}
		for _, f := range t.Fields {
			fields = append(fields, fieldJSON(f))
		}
		base["includes"] = incs
		base["fields"] = fields
		return map[string]interface{}{"record": base}
	case t.Kind == Union:
		ms := []interface{}{}
		for _, m := range t.Members {
			ms = append(ms, map[string]interface{}{"Type": typeRefJSON(m.Type), "Alias": m.Alias})
		}
		base["Union"] = map[string]interface{}{"HasNull": t.HasNull, "Members": ms}
		return map[string]interface{}{"standaloneUnion": base}
	}
	panic("cannot emit " + t.Name)
}

// ManifestV2 renders the universe as a v2 go-restli manifest.
func (u *Universe) ManifestV2(packageRoot string) []byte {
	dts := []interface{}{}
	for _, t := range u.order {
		dts = append(dts, u.dataTypeJSON(t))
	}
	res := []interface{}{}
	for _, r := range u.Resources {
		res = append(res, r.JSON(true))
	}
	b, err := json.MarshalIndent(map[string]interface{}{
		"packageRoot": packageRoot, "inputDataTypes": dts, "dependencyDataTypes": []interface{}{}, "resources": res}, "", " ")
	if err != nil {
		panic(err)
	}
	return b
}

// SpecRoot renders the universe as the root module's parsed-spec JSON.
func (u *Universe) SpecRoot() []byte {
	dts := []interface{}{}
	for _, t := range u.order {
		// the root generation has no custom typerefs: they are ordinary typerefs there
		dts = append(dts, u.dataTypeJSONFor(t, false))
	}
	res := []interface{}{}
	for _, r := range u.Resources {
		res = append(res, r.JSON(false))
	}
	b, err := json.MarshalIndent(map[string]interface{}{"dataTypes": dts, "Resources": res}, "", " ")
	if err != nil {
		panic(err)
	}
	return b
}

// GoTypeNames lists the Go type names the generator emits for the universe, sorted.
func (u *Universe) GoTypeNames() []string {
	var out []string
	for _, t := range u.order {
		out = append(out, t.Name)
	}
	sort.Strings(out)
	return out
}

// ByName returns the universe with the given name; emit tool and harnesses share it.
func ByName(name string) *Universe {
	switch name {
	case "codec-quick":
		return CodecUniverse("quick")
	case "codec-full":
		return CodecUniverse("full")
	}
	if f, ok := extraUniverses[name]; ok {
		return f()
	}
	panic("unknown universe " + name)
}

var extraUniverses = map[string]func() *Universe{}

// RegisterUniverse adds a named universe (used by other files of this package).
func RegisterUniverse(name string, f func() *Universe) { extraUniverses[name] = f }
