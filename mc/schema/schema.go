// Package schema defines abstract Pegasus schemas, abstract values (V) over them, the
// schema universes and value alphabets the codec checks enumerate, and emitters for the
// generator's intermediate JSON (v2 manifest and root-module spec). It imports nothing
// from the library under test.
package schema

import (
	"bytes"
	"fmt"
	"math"
	"sort"
	"strconv"
	"strings"
)

type Kind int

const (
	Int32 Kind = iota
	Int64
	Float32
	Float64
	Bool
	String
	Bytes
	Enum
	Fixed
	Typeref
	Record
	Union
	Array
	Map
)

var kindNames = [...]string{"int32", "int64", "float32", "float64", "bool", "string", "bytes", "enum", "fixed", "typeref", "record", "union", "array", "map"}

func (k Kind) String() string { return kindNames[k] }
func (k Kind) IsPrim() bool   { return k <= Bytes }

type Type struct {
	Kind     Kind
	Name     string // named types: enum, fixed, typeref, record, union
	NS       string
	Elem     *Type // array / map element; typeref's underlying primitive
	Symbols  []string
	Size     int
	Fields   []*Field
	Includes []*Type
	Members  []*Member
	HasNull  bool
	Custom   bool // custom typeref (v2 only)
	// IsKeyWithParams marks a complex key (record Key + optional $params record)
	ComplexKey *ComplexKeyDef
}

type ComplexKeyDef struct {
	Key    *Type
	Params *Type
}

type Field struct {
	Name     string
	Type     *Type
	Optional bool
	Default  *string // JSON literal
}

type Member struct {
	Alias string
	Type  *Type
}

var Prims = map[Kind]*Type{
	Int32: {Kind: Int32}, Int64: {Kind: Int64}, Float32: {Kind: Float32}, Float64: {Kind: Float64},
	Bool: {Kind: Bool}, String: {Kind: String}, Bytes: {Kind: Bytes},
}

func P(k Kind) *Type        { return Prims[k] }
func ArrayOf(t *Type) *Type { return &Type{Kind: Array, Elem: t} }
func MapOf(t *Type) *Type   { return &Type{Kind: Map, Elem: t} }

// Base resolves typerefs to the underlying primitive type.
func (t *Type) Base() *Type {
	if t.Kind == Typeref {
		return t.Elem
	}
	return t
}

// Label is a short, identifier-safe description used to name generated records.
func (t *Type) Label() string {
	switch t.Kind {
	case Array:
		return "A" + t.Elem.Label()
	case Map:
		return "M" + t.Elem.Label()
	case Enum, Fixed, Typeref, Record, Union:
		return t.Name
	}
	return strings.Title(t.Kind.String())
}

func (t *Type) String() string {
	switch t.Kind {
	case Array:
		return "array<" + t.Elem.String() + ">"
	case Map:
		return "map<" + t.Elem.String() + ">"
	case Enum, Fixed, Typeref, Record, Union:
		return t.Name
	}
	return t.Kind.String()
}

// AllFields returns the fields of a record including those of its includes (includes first,
// recursively), as the wire format flattens them.
func (t *Type) AllFields() []*Field {
	var out []*Field
	for _, inc := range t.Includes {
		out = append(out, inc.AllFields()...)
	}
	out = append(out, t.Fields...)
	return out
}

func (t *Type) Field(name string) *Field {
	for _, f := range t.AllFields() {
		if f.Name == name {
			return f
		}
	}
	return nil
}

func (t *Type) Member(alias string) *Member {
	for _, m := range t.Members {
		if m.Alias == alias {
			return m
		}
	}
	return nil
}

// ---------------------------------------------------------------- values

// V is an abstract value of a Type.
type V struct {
	T      *Type
	I      int64
	F      float64
	B      bool
	S      string
	Y      []byte
	Sym    string // enum symbol ("" = the unknown value / illegal constant Ord)
	Ord    int32
	Fields map[string]*V // record: fields that are set
	Alias  string        // union member alias, "" = no member set
	Mem    *V
	Items  []*V
	Keys   []string // map keys in insertion order
	Ent    map[string]*V
	Nil    bool // nil (as opposed to empty) bytes / array / map
	// Null: encode this value as an explicit JSON null (reference encoders only).
	Null bool
	// Bad: encode a token of the wrong type at this position (reference encoders only).
	Bad bool
	// Dev labels the single deviation from the base value this V was built with (alphabets).
	Dev string
}

// D sets the deviation label and returns v.
func (v *V) D(format string, a ...interface{}) *V {
	v.Dev = fmt.Sprintf(format, a...)
	return v
}

func VI(t *Type, i int64) *V     { return &V{T: t, I: i} }
func VF(t *Type, f float64) *V   { return &V{T: t, F: f} }
func VB(t *Type, b bool) *V      { return &V{T: t, B: b} }
func VS(t *Type, s string) *V    { return &V{T: t, S: s} }
func VY(t *Type, y []byte) *V    { return &V{T: t, Y: y, Nil: y == nil} }
func VE(t *Type, sym string) *V {
	for i, s := range t.Symbols {
		if s == sym {
			return &V{T: t, Sym: sym, Ord: int32(i + 1)}
		}
	}
	return &V{T: t, Sym: "", Ord: 0}
}
func VEOrd(t *Type, ord int32) *V {
	if ord >= 1 && int(ord) <= len(t.Symbols) {
		return &V{T: t, Sym: t.Symbols[ord-1], Ord: ord}
	}
	return &V{T: t, Ord: ord}
}
func VRec(t *Type, fields map[string]*V) *V { return &V{T: t, Fields: fields} }
func VUnion(t *Type, alias string, m *V) *V { return &V{T: t, Alias: alias, Mem: m} }
func VArr(t *Type, items ...*V) *V           { return &V{T: t, Items: items} }
func VArrNil(t *Type) *V                     { return &V{T: t, Nil: true} }
func VMapNil(t *Type) *V                     { return &V{T: t, Nil: true, Ent: map[string]*V{}} }
func VMap(t *Type, kv ...interface{}) *V {
	v := &V{T: t, Ent: map[string]*V{}}
	for i := 0; i+1 < len(kv); i += 2 {
		k := kv[i].(string)
		if _, dup := v.Ent[k]; !dup {
			v.Keys = append(v.Keys, k)
		}
		v.Ent[k] = kv[i+1].(*V)
	}
	return v
}

func (v *V) Clone() *V {
	if v == nil {
		return nil
	}
	c := *v
	if v.Y != nil {
		c.Y = append([]byte{}, v.Y...)
	}
	if v.Fields != nil {
		c.Fields = make(map[string]*V, len(v.Fields))
		for k, f := range v.Fields {
			c.Fields[k] = f.Clone()
		}
	}
	c.Mem = v.Mem.Clone()
	if v.Items != nil {
		c.Items = make([]*V, len(v.Items))
		for i, it := range v.Items {
			c.Items[i] = it.Clone()
		}
	}
	if v.Ent != nil {
		c.Keys = append([]string{}, v.Keys...)
		c.Ent = make(map[string]*V, len(v.Ent))
		for k, e := range v.Ent {
			c.Ent[k] = e.Clone()
		}
	}
	return &c
}

// With returns a copy of record v with field name set to f (nil = unset).
func (v *V) With(name string, f *V) *V {
	c := v.Clone()
	if f == nil {
		delete(c.Fields, name)
	} else {
		c.Fields[name] = f
	}
	return c
}

// Equal is the deep structural equality of the properties: NaN matches NaN, nil and empty
// byte strings / collections are the same value, the sign of a zero is not distinguished,
// map entry order is irrelevant.
func Equal(a, b *V) bool {
	if a == nil || b == nil {
		return a == b
	}
	ka, kb := a.T.Base().Kind, b.T.Base().Kind
	if ka != kb {
		return false
	}
	switch ka {
	case Int32, Int64:
		return a.I == b.I
	case Float32, Float64:
		if math.IsNaN(a.F) || math.IsNaN(b.F) {
			return math.IsNaN(a.F) && math.IsNaN(b.F)
		}
		return a.F == b.F
	case Bool:
		return a.B == b.B
	case String:
		return a.S == b.S
	case Bytes, Fixed:
		return bytes.Equal(a.Y, b.Y)
	case Enum:
		return a.Ord == b.Ord
	case Record:
		if len(a.Fields) != len(b.Fields) {
			return false
		}
		for k, fa := range a.Fields {
			fb, ok := b.Fields[k]
			if !ok || !Equal(fa, fb) {
				return false
			}
		}
		return true
	case Union:
		if a.Alias != b.Alias {
			return false
		}
		return Equal(a.Mem, b.Mem)
	case Array:
		if len(a.Items) != len(b.Items) {
			return false
		}
		for i := range a.Items {
			if !Equal(a.Items[i], b.Items[i]) {
				return false
			}
		}
		return true
	case Map:
		if len(a.Ent) != len(b.Ent) {
			return false
		}
		for k, ea := range a.Ent {
			eb, ok := b.Ent[k]
			if !ok || !Equal(ea, eb) {
				return false
			}
		}
		return true
	}
	return false
}

// HasNaN reports whether the value contains a NaN anywhere.
func (v *V) HasNaN() bool {
	if v == nil {
		return false
	}
	switch v.T.Base().Kind {
	case Float32, Float64:
		return math.IsNaN(v.F)
	case Record:
		for _, f := range v.Fields {
			if f.HasNaN() {
				return true
			}
		}
	case Union:
		return v.Mem.HasNaN()
	case Array:
		for _, it := range v.Items {
			if it.HasNaN() {
				return true
			}
		}
	case Map:
		for _, e := range v.Ent {
			if e.HasNaN() {
				return true
			}
		}
	}
	return false
}

// String renders a value unambiguously (strings and bytes quoted with Go escapes).
func (v *V) String() string {
	if v == nil {
		return "<unset>"
	}
	switch v.T.Base().Kind {
	case Int32, Int64:
		return strconv.FormatInt(v.I, 10)
	case Float32:
		return strconv.FormatFloat(v.F, 'g', -1, 32) + "f"
	case Float64:
		if v.F == 0 && math.Signbit(v.F) {
			return "-0"
		}
		return strconv.FormatFloat(v.F, 'g', -1, 64)
	case Bool:
		return strconv.FormatBool(v.B)
	case String:
		return strconv.QuoteToASCII(v.S)
	case Bytes, Fixed:
		if v.Y == nil {
			return "bytes(nil)"
		}
		return fmt.Sprintf("bytes(%x)", v.Y)
	case Enum:
		if v.Sym == "" {
			return fmt.Sprintf("enum#%d", v.Ord)
		}
		return v.Sym
	case Record:
		ks := make([]string, 0, len(v.Fields))
		for k := range v.Fields {
			ks = append(ks, k)
		}
		sort.Strings(ks)
		parts := make([]string, len(ks))
		for i, k := range ks {
			parts[i] = k + ":" + v.Fields[k].String()
		}
		return "{" + strings.Join(parts, ", ") + "}"
	case Union:
		if v.Alias == "" {
			return "union(null)"
		}
		return "union(" + v.Alias + "=" + v.Mem.String() + ")"
	case Array:
		if v.Nil {
			return "array(nil)"
		}
		parts := make([]string, len(v.Items))
		for i, it := range v.Items {
			parts[i] = it.String()
		}
		return "[" + strings.Join(parts, ", ") + "]"
	case Map:
		if v.Nil {
			return "map(nil)"
		}
		parts := make([]string, len(v.Keys))
		for i, k := range v.Keys {
			parts[i] = strconv.QuoteToASCII(k) + ":" + v.Ent[k].String()
		}
		return "map[" + strings.Join(parts, ", ") + "]"
	}
	return "?"
}

// MissingDefaults compares got with want (same type). If they differ only in that got lacks
// record fields which are schema-defaulted and present in want, it returns those fields as
// "Record.field" (sorted, unique) and true; otherwise nil, false.
func MissingDefaults(got, want *V) ([]string, bool) {
	set := map[string]bool{}
	if !missingDefaults(got, want, set) || len(set) == 0 {
		return nil, false
	}
	out := make([]string, 0, len(set))
	for k := range set {
		out = append(out, k)
	}
	sort.Strings(out)
	return out, true
}

func missingDefaults(a, b *V, set map[string]bool) bool {
	if a == nil || b == nil {
		return a == b
	}
	switch a.T.Base().Kind {
	case Record:
		for k := range a.Fields {
			if _, ok := b.Fields[k]; !ok {
				return false
			}
		}
		for k, fb := range b.Fields {
			fa, ok := a.Fields[k]
			if !ok {
				f := b.T.Field(k)
				if f == nil || f.Default == nil {
					return false
				}
				owner := b.T
				for _, inc := range b.T.Includes {
					if inc.Field(k) != nil {
						owner = inc
					}
				}
				set[b.T.Name+"."+k+"(declared in "+ownerOf(b.T, k)+")"] = true
				_ = owner
				continue
			}
			if !missingDefaults(fa, fb, set) {
				return false
			}
		}
		return true
	case Union:
		return a.Alias == b.Alias && missingDefaults(a.Mem, b.Mem, set)
	case Array:
		if len(a.Items) != len(b.Items) {
			return false
		}
		for i := range a.Items {
			if !missingDefaults(a.Items[i], b.Items[i], set) {
				return false
			}
		}
		return true
	case Map:
		if len(a.Ent) != len(b.Ent) {
			return false
		}
		for k, ea := range a.Ent {
			eb, ok := b.Ent[k]
			if !ok || !missingDefaults(ea, eb, set) {
				return false
			}
		}
		return true
	}
	return Equal(a, b)
}

// ownerOf names the record that declares field k of record t (t itself or an include).
func ownerOf(t *Type, k string) string {
	for _, f := range t.Fields {
		if f.Name == k {
			return t.Name
		}
	}
	for _, inc := range t.Includes {
		if inc.Field(k) != nil {
			return ownerOf(inc, k)
		}
	}
	return t.Name
}


// With2 returns a copy of a string / integer key value derived from tag (used by harnesses
// that need replies to be pure functions of their arguments).
func (v *V) With2(tag string) *V {
	c := v.Clone()
	switch v.T.Base().Kind {
	case String:
		c.S = "id-for-" + tag
	case Int32, Int64:
		c.I = int64(len(tag))
	}
	return c
}

// EqualExact is Equal plus agreement on the sign of every zero (Equal, like ==, takes -0 for +0).
func EqualExact(a, b *V) bool { return Equal(a, b) && zeroSigns(a) == zeroSigns(b) }

func zeroSigns(v *V) string {
	if v == nil || v.T == nil {
		return ""
	}
	out := ""
	switch v.T.Base().Kind {
	case Float32, Float64:
		if v.F == 0 {
			if math.Signbit(v.F) {
				return "-"
			}
			return "+"
		}
	case Record:
		var ks []string
		for k := range v.Fields {
			ks = append(ks, k)
		}
		sort.Strings(ks)
		for _, k := range ks {
			out += zeroSigns(v.Fields[k])
		}
	case Union:
		out += zeroSigns(v.Mem)
	case Array:
		for _, it := range v.Items {
			out += zeroSigns(it)
		}
	case Map:
		ks := append([]string{}, v.Keys...)
		sort.Strings(ks)
		for _, k := range ks {
			out += zeroSigns(v.Ent[k])
		}
	}
	return out
}
