// Package refror2 is the reference codec for the Rest.li protocol 2.0 object/list
// representation ("ROR2"), written from the protocol grammar and sharing no code with the
// library:
//
//	value := map | list | atom
//	map   := '(' [ entry { ',' entry } ] ')'      entry := atom ':' value
//	list  := 'List(' [ value { ',' value } ] ')'
//	atom  := "''" (the empty string) | enc+       enc := any byte except ( ) , : '  |  '%' HEX HEX
//
// Contexts differ only in which bytes may appear raw inside an atom (see Allowed).
package refror2

import (
	"fmt"
	"math"
	"strconv"
	"strings"
	"unicode/utf8"

	"verif/mc/schema"
)

type Ctx int

const (
	Header Ctx = iota
	Path
	Query
)

func (c Ctx) String() string { return [...]string{"header", "path", "query"}[c] }

type Kind int

const (
	Atom Kind = iota
	MapK
	ListK
)

type Node struct {
	Kind  Kind
	Text  string // atom: decoded bytes (as a Go string, may be invalid UTF-8)
	Raw   string // atom: raw text
	Keys  []string
	Vals  []*Node
	Items []*Node
}

type parser struct {
	s   string
	pos int
	ctx Ctx
}

// Parse parses a complete ROR2 document.
func Parse(s string, ctx Ctx) (*Node, error) {
	p := &parser{s: s, ctx: ctx}
	n, err := p.value()
	if err != nil {
		return nil, err
	}
	if p.pos != len(s) {
		return nil, fmt.Errorf("trailing input at %d in %q", p.pos, s)
	}
	return n, nil
}

func (p *parser) value() (*Node, error) {
	if strings.HasPrefix(p.s[p.pos:], "List(") {
		p.pos += 5
		n := &Node{Kind: ListK}
		if p.peek() == ')' {
			p.pos++
			return n, nil
		}
		for {
			v, err := p.value()
			if err != nil {
				return nil, err
			}
			n.Items = append(n.Items, v)
			switch p.peek() {
			case ',':
				p.pos++
			case ')':
				p.pos++
				return n, nil
			default:
				return nil, fmt.Errorf("expected , or ) at %d in %q", p.pos, p.s)
			}
		}
	}
	if p.peek() == '(' {
		p.pos++
		n := &Node{Kind: MapK}
		if p.peek() == ')' {
			p.pos++
			return n, nil
		}
		for {
			k, err := p.atom()
			if err != nil {
				return nil, err
			}
			if p.peek() != ':' {
				return nil, fmt.Errorf("expected : at %d in %q", p.pos, p.s)
			}
			p.pos++
			v, err := p.value()
			if err != nil {
				return nil, err
			}
			for _, old := range n.Keys {
				if old == k.Text {
					return nil, fmt.Errorf("duplicate key %q in %q", k.Text, p.s)
				}
			}
			n.Keys = append(n.Keys, k.Text)
			n.Vals = append(n.Vals, v)
			switch p.peek() {
			case ',':
				p.pos++
			case ')':
				p.pos++
				return n, nil
			default:
				return nil, fmt.Errorf("expected , or ) at %d in %q", p.pos, p.s)
			}
		}
	}
	return p.atom()
}

func (p *parser) peek() byte {
	if p.pos < len(p.s) {
		return p.s[p.pos]
	}
	return 0
}

func (p *parser) atom() (*Node, error) {
	start := p.pos
	if strings.HasPrefix(p.s[p.pos:], "''") {
		p.pos += 2
		if c := p.peek(); p.pos < len(p.s) && c != ',' && c != ')' && c != ':' {
			return nil, fmt.Errorf("text after '' at %d in %q", p.pos, p.s)
		}
		return &Node{Kind: Atom, Text: "", Raw: "''"}, nil
	}
	var sb strings.Builder
	for p.pos < len(p.s) {
		c := p.s[p.pos]
		if c == ',' || c == ')' || c == ':' {
			break
		}
		if c == '(' || c == '\'' {
			return nil, fmt.Errorf("unescaped %q inside an atom at %d in %q", c, p.pos, p.s)
		}
		if c == '%' {
			if p.pos+2 >= len(p.s)+0 && p.pos+2 > len(p.s)-1+1 {
				return nil, fmt.Errorf("truncated escape at %d in %q", p.pos, p.s)
			}
			if p.pos+3 > len(p.s) {
				return nil, fmt.Errorf("truncated escape at %d in %q", p.pos, p.s)
			}
			b, err := strconv.ParseUint(p.s[p.pos+1:p.pos+3], 16, 8)
			if err != nil {
				return nil, fmt.Errorf("bad escape at %d in %q", p.pos, p.s)
			}
			sb.WriteByte(byte(b))
			p.pos += 3
			continue
		}
		if c == '+' && p.ctx == Query {
			sb.WriteByte(' ')
			p.pos++
			continue
		}
		if !Allowed(p.ctx, c) {
			return nil, fmt.Errorf("byte %q may not appear raw in the %s context (at %d in %q)", c, p.ctx, p.pos, p.s)
		}
		sb.WriteByte(c)
		p.pos++
	}
	if p.pos == start {
		return nil, fmt.Errorf("empty atom at %d in %q (the empty string is written '')", p.pos, p.s)
	}
	return &Node{Kind: Atom, Text: sb.String(), Raw: p.s[start:p.pos]}, nil
}

// Allowed reports whether byte c may appear raw (unescaped) inside an atom in ctx. These are
// requirements of the surrounding syntax, not a particular escape table:
//   header: anything but the ROR2 reserved set and '%';
//   path:   additionally only characters legal inside a URL path segment (RFC 3986 pchar,
//           minus the ROR2 reserved ones): no '/', '?', '#', space, controls, non-ASCII;
//   query:  additionally none of '&', '=', '#', '+', space, controls, non-ASCII.
func Allowed(ctx Ctx, c byte) bool {
	switch c {
	case '(', ')', ',', ':', '\'', '%':
		return false
	}
	if ctx == Header {
		return true
	}
	if c <= 0x20 || c >= 0x7f {
		return false
	}
	unreserved := (c >= 'a' && c <= 'z') || (c >= 'A' && c <= 'Z') || (c >= '0' && c <= '9') || strings.IndexByte("-._~", c) >= 0
	if unreserved {
		return true
	}
	if ctx == Path {
		return strings.IndexByte("!$&*+;=@", c) >= 0
	}
	// query: pchar / "/" / "?" minus the separators of the query syntax
	return strings.IndexByte("!$*;@/?", c) >= 0
}

// ---------------------------------------------------------------- decode by schema

func Decode(t *schema.Type, n *Node) (*schema.V, error) {
	atom := func() (string, error) {
		if n.Kind != Atom {
			return "", fmt.Errorf("%s: expected an atom", t)
		}
		return n.Text, nil
	}
	switch t.Base().Kind {
	case schema.Int32, schema.Int64:
		s, err := atom()
		if err != nil {
			return nil, err
		}
		bits := 64
		if t.Base().Kind == schema.Int32 {
			bits = 32
		}
		i, err := strconv.ParseInt(s, 10, bits)
		if err != nil {
			return nil, fmt.Errorf("%s: bad integer %q", t, s)
		}
		return &schema.V{T: t, I: i}, nil
	case schema.Float32, schema.Float64:
		s, err := atom()
		if err != nil {
			return nil, err
		}
		switch s {
		case "NaN":
			return &schema.V{T: t, F: math.NaN()}, nil
		case "Infinity":
			return &schema.V{T: t, F: math.Inf(1)}, nil
		case "-Infinity":
			return &schema.V{T: t, F: math.Inf(-1)}, nil
		}
		bits := 64
		if t.Base().Kind == schema.Float32 {
			bits = 32
		}
		f, err := strconv.ParseFloat(s, bits)
		if err != nil || math.IsInf(f, 0) || math.IsNaN(f) {
			return nil, fmt.Errorf("%s: bad number %q", t, s)
		}
		return &schema.V{T: t, F: f}, nil
	case schema.Bool:
		s, err := atom()
		if err != nil {
			return nil, err
		}
		if s != "true" && s != "false" {
			return nil, fmt.Errorf("%s: bad boolean %q", t, s)
		}
		return &schema.V{T: t, B: s == "true"}, nil
	case schema.String:
		s, err := atom()
		if err != nil {
			return nil, err
		}
		if !utf8.ValidString(s) {
			return nil, fmt.Errorf("%s: atom is not valid UTF-8: %q", t, s)
		}
		return &schema.V{T: t, S: s}, nil
	case schema.Bytes, schema.Fixed:
		s, err := atom()
		if err != nil {
			return nil, err
		}
		if !utf8.ValidString(s) {
			return nil, fmt.Errorf("%s: atom is not valid UTF-8 (bytes are written one code point per byte): %q", t, s)
		}
		y := []byte{}
		for _, r := range s {
			if r > 0xFF {
				return nil, fmt.Errorf("%s: code point U+%04X does not denote a byte", t, r)
			}
			y = append(y, byte(r))
		}
		if t.Kind == schema.Fixed && len(y) != t.Size {
			return nil, fmt.Errorf("%s: %d bytes, want %d", t, len(y), t.Size)
		}
		return &schema.V{T: t, Y: y}, nil
	case schema.Enum:
		s, err := atom()
		if err != nil {
			return nil, err
		}
		v := schema.VE(t, s)
		if v.Sym == "" {
			return nil, fmt.Errorf("%s: unknown symbol %q", t, s)
		}
		return v, nil
	case schema.Record:
		if n.Kind != MapK {
			return nil, fmt.Errorf("%s: expected a map", t)
		}
		v := &schema.V{T: t, Fields: map[string]*schema.V{}}
		for i, k := range n.Keys {
			var ft *schema.Type
			if ck := t.ComplexKey; ck != nil {
				if k == "$params" {
					ft = ck.Params
				} else if f := ck.Key.Field(k); f != nil {
					ft = f.Type
				}
			} else if f := t.Field(k); f != nil {
				ft = f.Type
			}
			if ft == nil {
				return nil, fmt.Errorf("%s: unknown field %q", t, k)
			}
			fv, err := Decode(ft, n.Vals[i])
			if err != nil {
				return nil, fmt.Errorf("%s.%s: %v", t, k, err)
			}
			v.Fields[k] = fv
		}
		if t.ComplexKey == nil {
			for _, f := range t.AllFields() {
				if !f.Optional && f.Default == nil && v.Fields[f.Name] == nil {
					return nil, fmt.Errorf("%s: required field %q missing", t, f.Name)
				}
			}
		}
		return v, nil
	case schema.Union:
		if n.Kind != MapK {
			return nil, fmt.Errorf("%s: expected a one-member map", t)
		}
		if len(n.Keys) == 0 && t.HasNull {
			return &schema.V{T: t}, nil
		}
		if len(n.Keys) != 1 {
			return nil, fmt.Errorf("%s: %d members in a union map", t, len(n.Keys))
		}
		m := t.Member(n.Keys[0])
		if m == nil {
			return nil, fmt.Errorf("%s: unknown member %q", t, n.Keys[0])
		}
		mv, err := Decode(m.Type, n.Vals[0])
		if err != nil {
			return nil, err
		}
		return &schema.V{T: t, Alias: m.Alias, Mem: mv}, nil
	case schema.Array:
		if n.Kind != ListK {
			return nil, fmt.Errorf("%s: expected List(...)", t)
		}
		v := &schema.V{T: t, Items: []*schema.V{}}
		for i, it := range n.Items {
			iv, err := Decode(t.Elem, it)
			if err != nil {
				return nil, fmt.Errorf("[%d]: %v", i, err)
			}
			v.Items = append(v.Items, iv)
		}
		return v, nil
	case schema.Map:
		if n.Kind != MapK {
			return nil, fmt.Errorf("%s: expected a map", t)
		}
		v := &schema.V{T: t, Ent: map[string]*schema.V{}}
		for i, k := range n.Keys {
			if !utf8.ValidString(k) {
				return nil, fmt.Errorf("%s: key is not valid UTF-8: %q", t, k)
			}
			ev, err := Decode(t.Elem, n.Vals[i])
			if err != nil {
				return nil, fmt.Errorf("[%q]: %v", k, err)
			}
			v.Keys = append(v.Keys, k)
			v.Ent[k] = ev
		}
		return v, nil
	}
	return nil, fmt.Errorf("unsupported type %s", t)
}

// DecodeText = Parse + Decode.
func DecodeText(t *schema.Type, s string, ctx Ctx) (*schema.V, error) {
	n, err := Parse(s, ctx)
	if err != nil {
		return nil, err
	}
	return Decode(t, n)
}

// ---------------------------------------------------------------- encode

type ExtraField struct {
	Name  string
	Value string // raw ROR2
	Pos   int    // 0 first, 1 after the first entry, -1 last
}

type Options struct {
	Extra      *ExtraField // inject an unknown entry into every record map
	KeyOrder   func([]string) []string
	LowerHex   bool // %e9 instead of %E9
	EscapeMore bool // percent-encode unreserved letters too (legal)
	PlusSpace  bool // query only: '+' for space
}

func escape(s string, ctx Ctx, o *Options) string {
	if s == "" {
		return "''"
	}
	var sb strings.Builder
	for i := 0; i < len(s); i++ {
		c := s[i]
		if c == ' ' && ctx == Query && o.PlusSpace {
			sb.WriteByte('+')
			continue
		}
		if Allowed(ctx, c) && !(o.EscapeMore && ((c >= 'a' && c <= 'z') || (c >= 'A' && c <= 'Z'))) && !(ctx == Query && c == '+') {
			sb.WriteByte(c)
			continue
		}
		if o.LowerHex {
			fmt.Fprintf(&sb, "%%%02x", c)
		} else {
			fmt.Fprintf(&sb, "%%%02X", c)
		}
	}
	return sb.String()
}

func bytesToString(y []byte) string {
	rs := make([]rune, len(y))
	for i, b := range y {
		rs[i] = rune(b)
	}
	return string(rs)
}

func formatFloat(f float64, bits int) string {
	switch {
	case math.IsNaN(f):
		return "NaN"
	case math.IsInf(f, 1):
		return "Infinity"
	case math.IsInf(f, -1):
		return "-Infinity"
	}
	return strconv.FormatFloat(f, 'g', -1, bits)
}

// Encode renders v in the given context.
func Encode(v *schema.V, ctx Ctx, o *Options) string {
	if o == nil {
		o = &Options{}
	}
	var sb strings.Builder
	enc(&sb, v, ctx, o)
	return sb.String()
}

func enc(sb *strings.Builder, v *schema.V, ctx Ctx, o *Options) {
	if v.Bad {
		switch v.T.Base().Kind {
		case schema.String, schema.Bytes, schema.Fixed, schema.Enum:
			sb.WriteString("List(7)")
		default:
			sb.WriteString("zz")
		}
		return
	}
	switch v.T.Base().Kind {
	case schema.Int32, schema.Int64:
		sb.WriteString(strconv.FormatInt(v.I, 10))
	case schema.Float32:
		sb.WriteString(escape(formatFloat(v.F, 32), ctx, o))
	case schema.Float64:
		sb.WriteString(escape(formatFloat(v.F, 64), ctx, o))
	case schema.Bool:
		sb.WriteString(strconv.FormatBool(v.B))
	case schema.String:
		sb.WriteString(escape(v.S, ctx, o))
	case schema.Bytes, schema.Fixed:
		sb.WriteString(escape(bytesToString(v.Y), ctx, o))
	case schema.Enum:
		sb.WriteString(escape(v.Sym, ctx, o))
	case schema.Record:
		var keys []string
		fields := v.T.AllFields()
		if ck := v.T.ComplexKey; ck != nil {
			fields = ck.Key.AllFields()
		}
		for _, f := range fields {
			if v.Fields[f.Name] != nil {
				keys = append(keys, f.Name)
			}
		}
		if v.Fields["$params"] != nil {
			keys = append(keys, "$params")
		}
		if o.KeyOrder != nil {
			keys = o.KeyOrder(keys)
		}
		var ents []string
		for _, k := range keys {
			var inner strings.Builder
			enc(&inner, v.Fields[k], ctx, o)
			ents = append(ents, escape(k, ctx, &Options{LowerHex: o.LowerHex})+":"+inner.String())
		}
		if o.Extra != nil {
			pos := o.Extra.Pos
			if pos < 0 || pos > len(ents) {
				pos = len(ents)
			}
			ents = append(ents[:pos], append([]string{o.Extra.Name + ":" + o.Extra.Value}, ents[pos:]...)...)
		}
		sb.WriteByte('(')
		sb.WriteString(strings.Join(ents, ","))
		sb.WriteByte(')')
	case schema.Union:
		if v.Alias == "" {
			sb.WriteString("()")
			return
		}
		sb.WriteByte('(')
		sb.WriteString(escape(v.Alias, ctx, &Options{LowerHex: o.LowerHex}))
		sb.WriteByte(':')
		enc(sb, v.Mem, ctx, o)
		sb.WriteByte(')')
	case schema.Array:
		sb.WriteString("List(")
		for i, it := range v.Items {
			if i > 0 {
				sb.WriteByte(',')
			}
			enc(sb, it, ctx, o)
		}
		sb.WriteByte(')')
	case schema.Map:
		keys := v.Keys
		if o.KeyOrder != nil {
			keys = o.KeyOrder(append([]string{}, keys...))
		}
		sb.WriteByte('(')
		for i, k := range keys {
			if i > 0 {
				sb.WriteByte(',')
			}
			sb.WriteString(escape(k, ctx, o))
			sb.WriteByte(':')
			enc(sb, v.Ent[k], ctx, o)
		}
		sb.WriteByte(')')
	}
}
