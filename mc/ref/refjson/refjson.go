// Package refjson is the reference JSON codec for abstract values, written from the Rest.li
// data-serialization rules (https://linkedin.github.io/rest.li/how_data_is_serialized_for_transport)
// and sharing no code with the library: records / maps / unions are objects, arrays are lists,
// bytes and fixed are strings with one code point (<= U+00FF) per byte, enums are symbol
// strings, NaN / Infinity / -Infinity are the three reserved strings, a null member is
// equivalent to an absent one. encoding/json is used only as a tokenizer, wrapped with
// UTF-8 and duplicate-key checks.
package refjson

import (
	"bytes"
	"encoding/json"
	"fmt"
	"io"
	"math"
	"strconv"
	"strings"
	"unicode/utf8"

	"verif/mc/schema"
)

// Obj is a JSON object with its member order preserved.
type Obj struct {
	Keys []string
	Vals map[string]interface{}
}

// ParseStrict parses one JSON document: valid UTF-8, RFC 8259 syntax, no duplicate member
// names, nothing but whitespace after the value. Numbers are kept as json.Number.
func ParseStrict(data []byte) (interface{}, error) {
	if !utf8.Valid(data) {
		return nil, fmt.Errorf("document is not valid UTF-8")
	}
	if !json.Valid(data) {
		return nil, fmt.Errorf("document is not valid JSON")
	}
	dec := json.NewDecoder(bytes.NewReader(data))
	dec.UseNumber()
	v, err := parseValue(dec)
	if err != nil {
		return nil, err
	}
	if _, err := dec.Token(); err != io.EOF {
		return nil, fmt.Errorf("trailing data after JSON value")
	}
	return v, nil
}

func parseValue(dec *json.Decoder) (interface{}, error) {
	tok, err := dec.Token()
	if err != nil {
		return nil, err
	}
	switch t := tok.(type) {
	case json.Delim:
		switch t {
		case '{':
			o := &Obj{Vals: map[string]interface{}{}}
			for dec.More() {
				kt, err := dec.Token()
				if err != nil {
					return nil, err
				}
				k, ok := kt.(string)
				if !ok {
					return nil, fmt.Errorf("non-string object key")
				}
				if _, dup := o.Vals[k]; dup {
					return nil, fmt.Errorf("duplicate object member %q", k)
				}
				v, err := parseValue(dec)
				if err != nil {
					return nil, err
				}
				o.Keys = append(o.Keys, k)
				o.Vals[k] = v
			}
			if _, err := dec.Token(); err != nil {
				return nil, err
			}
			return o, nil
		case '[':
			a := []interface{}{}
			for dec.More() {
				v, err := parseValue(dec)
				if err != nil {
					return nil, err
				}
				a = append(a, v)
			}
			if _, err := dec.Token(); err != nil {
				return nil, err
			}
			return a, nil
		}
		return nil, fmt.Errorf("unexpected delimiter %v", t)
	default:
		return tok, nil
	}
}

// Decode interprets a parsed document as a value of type t. strict rejects unknown record
// fields (used when judging the library's own output); otherwise they are ignored.
func Decode(t *schema.Type, d interface{}, strict bool) (*schema.V, error) {
	switch t.Base().Kind {
	case schema.Int32, schema.Int64:
		n, ok := d.(json.Number)
		if !ok {
			return nil, fmt.Errorf("%s: expected a number, got %T", t, d)
		}
		i, err := strconv.ParseInt(string(n), 10, 64)
		if err != nil {
			return nil, fmt.Errorf("%s: %q is not an integer literal", t, string(n))
		}
		if t.Base().Kind == schema.Int32 && (i < math.MinInt32 || i > math.MaxInt32) {
			return nil, fmt.Errorf("%s: %d out of range", t, i)
		}
		return &schema.V{T: t, I: i}, nil
	case schema.Float32, schema.Float64:
		bits := 64
		if t.Base().Kind == schema.Float32 {
			bits = 32
		}
		switch x := d.(type) {
		case json.Number:
			f, err := strconv.ParseFloat(string(x), bits)
			if err != nil {
				return nil, fmt.Errorf("%s: bad number %q", t, string(x))
			}
			return &schema.V{T: t, F: f}, nil
		case string:
			switch x {
			case "NaN":
				return &schema.V{T: t, F: math.NaN()}, nil
			case "Infinity":
				return &schema.V{T: t, F: math.Inf(1)}, nil
			case "-Infinity":
				return &schema.V{T: t, F: math.Inf(-1)}, nil
			}
			return nil, fmt.Errorf("%s: string %q is not a reserved float name", t, x)
		}
		return nil, fmt.Errorf("%s: expected a number, got %T", t, d)
	case schema.Bool:
		b, ok := d.(bool)
		if !ok {
			return nil, fmt.Errorf("%s: expected a boolean, got %T", t, d)
		}
		return &schema.V{T: t, B: b}, nil
	case schema.String:
		s, ok := d.(string)
		if !ok {
			return nil, fmt.Errorf("%s: expected a string, got %T", t, d)
		}
		return &schema.V{T: t, S: s}, nil
	case schema.Bytes, schema.Fixed:
		s, ok := d.(string)
		if !ok {
			return nil, fmt.Errorf("%s: expected a string, got %T", t, d)
		}
		y := make([]byte, 0, len(s))
		for _, r := range s {
			if r > 0xFF {
				return nil, fmt.Errorf("%s: code point U+%04X does not denote a byte", t, r)
			}
			y = append(y, byte(r))
		}
		if t.Kind == schema.Fixed && len(y) != t.Size {
			return nil, fmt.Errorf("%s: %d bytes, want %d", t, len(y), t.Size)
		}
		return &schema.V{T: t, Y: y}, nil
	case schema.Enum:
		s, ok := d.(string)
		if !ok {
			return nil, fmt.Errorf("%s: expected a symbol string, got %T", t, d)
		}
		v := schema.VE(t, s)
		if v.Sym == "" {
			return nil, fmt.Errorf("%s: unknown symbol %q", t, s)
		}
		return v, nil
	case schema.Record:
		o, ok := d.(*Obj)
		if !ok {
			return nil, fmt.Errorf("%s: expected an object, got %T", t, d)
		}
		v := &schema.V{T: t, Fields: map[string]*schema.V{}}
		if ck := t.ComplexKey; ck != nil {
			for _, k := range o.Keys {
				if k == "$params" {
					p, err := Decode(ck.Params, o.Vals[k], strict)
					if err != nil {
						return nil, err
					}
					v.Fields[k] = p
					continue
				}
				f := ck.Key.Field(k)
				if f == nil {
					if strict {
						return nil, fmt.Errorf("%s: unknown field %q", t, k)
					}
					continue
				}
				fv, err := Decode(f.Type, o.Vals[k], strict)
				if err != nil {
					return nil, err
				}
				v.Fields[k] = fv
			}
			return v, nil
		}
		for _, k := range o.Keys {
			f := t.Field(k)
			if f == nil {
				if strict {
					return nil, fmt.Errorf("%s: unknown field %q", t, k)
				}
				continue
			}
			if o.Vals[k] == nil {
				continue // null member = absent
			}
			fv, err := Decode(f.Type, o.Vals[k], strict)
			if err != nil {
				return nil, fmt.Errorf("%s.%s: %v", t, k, err)
			}
			v.Fields[k] = fv
		}
		for _, f := range t.AllFields() {
			if !f.Optional && f.Default == nil && v.Fields[f.Name] == nil {
				return nil, fmt.Errorf("%s: required field %q missing", t, f.Name)
			}
		}
		return v, nil
	case schema.Union:
		if d == nil {
			if !t.HasNull {
				return nil, fmt.Errorf("%s: null for a non-nullable union", t)
			}
			return &schema.V{T: t}, nil
		}
		o, ok := d.(*Obj)
		if !ok {
			return nil, fmt.Errorf("%s: expected a one-member object, got %T", t, d)
		}
		if len(o.Keys) != 1 {
			return nil, fmt.Errorf("%s: %d members in a union object", t, len(o.Keys))
		}
		m := t.Member(o.Keys[0])
		if m == nil {
			return nil, fmt.Errorf("%s: unknown member %q", t, o.Keys[0])
		}
		mv, err := Decode(m.Type, o.Vals[o.Keys[0]], strict)
		if err != nil {
			return nil, err
		}
		return &schema.V{T: t, Alias: m.Alias, Mem: mv}, nil
	case schema.Array:
		a, ok := d.([]interface{})
		if !ok {
			return nil, fmt.Errorf("%s: expected an array, got %T", t, d)
		}
		v := &schema.V{T: t, Items: []*schema.V{}}
		for i, it := range a {
			iv, err := Decode(t.Elem, it, strict)
			if err != nil {
				return nil, fmt.Errorf("[%d]: %v", i, err)
			}
			v.Items = append(v.Items, iv)
		}
		return v, nil
	case schema.Map:
		o, ok := d.(*Obj)
		if !ok {
			return nil, fmt.Errorf("%s: expected an object, got %T", t, d)
		}
		v := &schema.V{T: t, Ent: map[string]*schema.V{}}
		for _, k := range o.Keys {
			ev, err := Decode(t.Elem, o.Vals[k], strict)
			if err != nil {
				return nil, fmt.Errorf("[%q]: %v", k, err)
			}
			v.Keys = append(v.Keys, k)
			v.Ent[k] = ev
		}
		return v, nil
	}
	return nil, fmt.Errorf("unsupported type %s", t)
}

// DecodeText = ParseStrict + Decode.
func DecodeText(t *schema.Type, text string, strict bool) (*schema.V, error) {
	d, err := ParseStrict([]byte(text))
	if err != nil {
		return nil, err
	}
	return Decode(t, d, strict)
}

// Literal parses a schema default literal.
func Literal(t *schema.Type, lit string) *schema.V {
	v, err := DecodeText(t, lit, true)
	if err != nil {
		panic(fmt.Sprintf("bad default literal %s for %s: %v", lit, t, err))
	}
	return Fill(v)
}

// Fill returns a copy of v in which every unset defaulted record field, at any depth, holds
// the schema's default literal.
func Fill(v *schema.V) *schema.V {
	if v == nil {
		return nil
	}
	c := *v
	switch v.T.Base().Kind {
	case schema.Record:
		c.Fields = map[string]*schema.V{}
		for k, f := range v.Fields {
			c.Fields[k] = Fill(f)
		}
		fields := v.T.AllFields()
		if ck := v.T.ComplexKey; ck != nil {
			fields = ck.Key.AllFields()
		}
		for _, f := range fields {
			if f.Default != nil && c.Fields[f.Name] == nil {
				c.Fields[f.Name] = Literal(f.Type, *f.Default)
			}
		}
	case schema.Union:
		c.Mem = Fill(v.Mem)
	case schema.Array:
		if v.Items != nil {
			c.Items = make([]*schema.V, len(v.Items))
			for i, it := range v.Items {
				c.Items[i] = Fill(it)
			}
		}
	case schema.Map:
		c.Ent = map[string]*schema.V{}
		for k, e := range v.Ent {
			c.Ent[k] = Fill(e)
		}
	}
	return &c
}

// ---------------------------------------------------------------- encoding

// Options select among equivalent encodings of the same value.
type Options struct {
	KeyOrder   func(keys []string) []string // nil = as given
	Spaces     bool                         // insignificant whitespace everywhere
	AltEscapes bool                         // \uXXXX for letters, \/ for '/'
	Extra      *ExtraField                  // inject an unknown member into every record object
}

type ExtraField struct {
	Name  string
	Value string // raw JSON
	Pos   int    // 0 first, 1 after first member, -1 last
}

func quote(s string, alt bool) string {
	var sb strings.Builder
	sb.WriteByte('"')
	for _, r := range s {
		switch {
		case r == '"':
			sb.WriteString(`\"`)
		case r == '\\':
			sb.WriteString(`\\`)
		case r == '/' && alt:
			sb.WriteString(`\/`)
		case r == '\n':
			sb.WriteString(`\n`)
		case r == '\r':
			sb.WriteString(`\r`)
		case r == '\t':
			sb.WriteString(`\t`)
		case r < 0x20 || r == 0x7f:
			fmt.Fprintf(&sb, `\u%04x`, r)
		case alt && ((r >= 'A' && r <= 'Z') || (r >= 'a' && r <= 'z')):
			fmt.Fprintf(&sb, `\u%04X`, r)
		case r > 0xFFFF && alt:
			r1, r2 := utf16pair(r)
			fmt.Fprintf(&sb, `\u%04x\u%04x`, r1, r2)
		default:
			sb.WriteRune(r)
		}
	}
	sb.WriteByte('"')
	return sb.String()
}

func utf16pair(r rune) (rune, rune) {
	r -= 0x10000
	return 0xd800 + (r>>10)&0x3ff, 0xdc00 + r&0x3ff
}

func bytesToString(y []byte) string {
	rs := make([]rune, len(y))
	for i, b := range y {
		rs[i] = rune(b)
	}
	return string(rs)
}

// Encode renders v as JSON.
func Encode(v *schema.V, o *Options) string {
	if o == nil {
		o = &Options{}
	}
	var sb strings.Builder
	enc(&sb, v, o)
	return sb.String()
}

func formatFloat(f float64, bits int) string {
	switch {
	case math.IsNaN(f):
		return `"NaN"`
	case math.IsInf(f, 1):
		return `"Infinity"`
	case math.IsInf(f, -1):
		return `"-Infinity"`
	}
	return strconv.FormatFloat(f, 'g', -1, bits)
}

func enc(sb *strings.Builder, v *schema.V, o *Options) {
	if v.Null {
		sb.WriteString("null")
		return
	}
	if v.Bad {
		switch v.T.Base().Kind {
		case schema.String, schema.Bytes, schema.Fixed, schema.Enum:
			sb.WriteString("[7]")
		default:
			sb.WriteString(`"zz"`)
		}
		return
	}
	sp := ""
	if o.Spaces {
		sp = " "
	}
	switch v.T.Base().Kind {
	case schema.Int32, schema.Int64:
		sb.WriteString(strconv.FormatInt(v.I, 10))
	case schema.Float32:
		sb.WriteString(formatFloat(v.F, 32))
	case schema.Float64:
		sb.WriteString(formatFloat(v.F, 64))
	case schema.Bool:
		sb.WriteString(strconv.FormatBool(v.B))
	case schema.String:
		sb.WriteString(quote(v.S, o.AltEscapes))
	case schema.Bytes, schema.Fixed:
		sb.WriteString(quote(bytesToString(v.Y), o.AltEscapes))
	case schema.Enum:
		sb.WriteString(quote(v.Sym, false))
	case schema.Record:
		var keys []string
		fields := v.T.AllFields()
		if ck := v.T.ComplexKey; ck != nil {
			fields = ck.Key.AllFields()
		}
		for _, f := range fields {
			if v.Fields[f.Name] != nil {
				keys = append(keys, f.Name)
			}
		}
		if v.Fields["$params"] != nil {
			keys = append(keys, "$params")
		}
		if o.KeyOrder != nil {
			keys = o.KeyOrder(keys)
		}
		type kv struct{ k, raw string }
		var ents []kv
		for _, k := range keys {
			var inner strings.Builder
			enc(&inner, v.Fields[k], o)
			ents = append(ents, kv{k, inner.String()})
		}
		if o.Extra != nil {
			e := kv{o.Extra.Name, o.Extra.Value}
			pos := o.Extra.Pos
			if pos < 0 || pos > len(ents) {
				pos = len(ents)
			}
			ents = append(ents[:pos], append([]kv{e}, ents[pos:]...)...)
		}
		sb.WriteString("{" + sp)
		for i, e := range ents {
			if i > 0 {
				sb.WriteString(sp + "," + sp)
			}
			sb.WriteString(quote(e.k, o.AltEscapes) + sp + ":" + sp + e.raw)
		}
		sb.WriteString(sp + "}")
	case schema.Union:
		if v.Alias == "" {
			sb.WriteString("null")
			return
		}
		sb.WriteString("{" + sp + quote(v.Alias, false) + sp + ":" + sp)
		enc(sb, v.Mem, o)
		sb.WriteString(sp + "}")
	case schema.Array:
		sb.WriteString("[" + sp)
		for i, it := range v.Items {
			if i > 0 {
				sb.WriteString(sp + "," + sp)
			}
			enc(sb, it, o)
		}
		sb.WriteString(sp + "]")
	case schema.Map:
		keys := v.Keys
		if o.KeyOrder != nil {
			keys = o.KeyOrder(append([]string{}, keys...))
		}
		sb.WriteString("{" + sp)
		for i, k := range keys {
			if i > 0 {
				sb.WriteString(sp + "," + sp)
			}
			sb.WriteString(quote(k, o.AltEscapes) + sp + ":" + sp)
			enc(sb, v.Ent[k], o)
		}
		sb.WriteString(sp + "}")
	}
}
