// astdiff compares two Go source files as syntax trees without comments (exit 0: same tree).
package main

import (
	"bytes"
	"fmt"
	"go/ast"
	"go/parser"
	"go/printer"
	"go/token"
	"os"
	"strings"
)

func render(path string) string {
	fset := token.NewFileSet()
	f, err := parser.ParseFile(fset, path, nil, 0) // comments dropped
	if err != nil {
		fmt.Println("cannot parse", path, err)
		os.Exit(2)
	}
	ast.SortImports(fset, f)
	var b bytes.Buffer
	if err := (&printer.Config{Mode: printer.RawFormat}).Fprint(&b, token.NewFileSet(), f); err != nil {
		fmt.Println(err)
		os.Exit(2)
	}
	// normalise blank lines
	var out []string
	for _, l := range strings.Split(b.String(), "\n") {
		if strings.TrimSpace(l) != "" {
			out = append(out, strings.TrimSpace(l))
		}
	}
	return strings.Join(out, "\n")
}

func main() {
	a, b := render(os.Args[1]), render(os.Args[2])
	if a == b {
		return
	}
	la, lb := strings.Split(a, "\n"), strings.Split(b, "\n")
	for i := 0; i < len(la) || i < len(lb); i++ {
		x, y := "<eof>", "<eof>"
		if i < len(la) {
			x = la[i]
		}
		if i < len(lb) {
			y = lb[i]
		}
		if x != y {
			fmt.Printf("first difference: %q vs %q\n", x, y)
			break
		}
	}
	os.Exit(1)
}
