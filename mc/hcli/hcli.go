// Package hcli parses the flags every harness binary accepts.
package hcli

import (
	"encoding/json"
	"flag"
	"fmt"
	"os"
	"strconv"
	"strings"
	"time"
)

type Args struct {
	Gen      string
	Tier     string
	Shard    int
	Shards   int
	Out      string
	Replay   string
	Deadline time.Time
	Seed     int64
	Part     string
}

func Parse() *Args {
	a := &Args{}
	var shard string
	var dl int
	flag.StringVar(&a.Gen, "gen", "v2", "module generation: v2 | root")
	flag.StringVar(&a.Tier, "tier", "quick", "quick | thorough")
	flag.StringVar(&shard, "shard", "0/1", "i/n")
	flag.StringVar(&a.Out, "out", "-", "report file")
	flag.StringVar(&a.Replay, "replay", "", "replay file")
	flag.StringVar(&a.Part, "part", "", "harness-specific sub-part selector")
	flag.IntVar(&dl, "deadline", 0, "internal deadline in seconds (0 = none)")
	flag.Int64Var(&a.Seed, "seed", 0, "recorded only; nothing is random")
	flag.Parse()
	p := strings.Split(shard, "/")
	if len(p) != 2 {
		fmt.Fprintln(os.Stderr, "INTERNAL: bad -shard")
		os.Exit(2)
	}
	a.Shard, _ = strconv.Atoi(p[0])
	a.Shards, _ = strconv.Atoi(p[1])
	if a.Shards < 1 {
		a.Shards = 1
	}
	if dl > 0 {
		a.Deadline = time.Now().Add(time.Duration(dl) * time.Second)
	}
	return a
}

func (a *Args) Thorough() bool { return a.Tier == "thorough" }

// Mine reports whether work item i belongs to this shard.
func (a *Args) Mine(i int) bool { return i%a.Shards == a.Shard }

// Expired reports whether the internal deadline has passed.
func (a *Args) Expired() bool { return !a.Deadline.IsZero() && time.Now().After(a.Deadline) }

// LoadReplay reads the harness-specific payload of a replay file.
func (a *Args) LoadReplay(v interface{}) {
	b, err := os.ReadFile(a.Replay)
	if err != nil {
		fmt.Fprintln(os.Stderr, "INTERNAL: cannot read replay file:", err)
		os.Exit(2)
	}
	var env struct {
		Replay json.RawMessage `json:"replay"`
	}
	if err := json.Unmarshal(b, &env); err != nil || env.Replay == nil {
		fmt.Fprintln(os.Stderr, "INTERNAL: bad replay file:", err)
		os.Exit(2)
	}
	if err := json.Unmarshal(env.Replay, v); err != nil {
		fmt.Fprintln(os.Stderr, "INTERNAL: bad replay payload:", err)
		os.Exit(2)
	}
}
