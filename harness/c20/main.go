// C20: CleanTargetDir over every directory tree of a bounded grammar, against a set-based
// reference model; idempotence; targets that do not exist and the current directory.
package main

import (
	"fmt"
	"io/fs"
	"os"
	"path/filepath"
	"sort"
	"strings"

	"github.com/PapaCharlie/go-restli/v2/codegen/utils"

	"verif/mc/hcli"
	"verif/mc/report"
)

// file kinds
var kinds = []string{"G", "U", "M", "N", "B"}

func fileName(kind string) string {
	switch kind {
	case "G":
		return "x" + utils.GeneratedFileSuffix
	case "M":
		return manifestName
	case "U":
		return "user.go"
	case "N":
		return "notes.txt"
	case "B":
		return "y" + utils.GeneratedFileSuffix + ".bak"
	}
	panic(kind)
}

type Node struct {
	Files []string `json:"files,omitempty"`
	Dirs  []*Node  `json:"dirs,omitempty"`
}

func (n *Node) String() string {
	var sb strings.Builder
	sb.WriteString("{")
	sb.WriteString(strings.Join(n.Files, ""))
	for _, d := range n.Dirs {
		sb.WriteString(d.String())
	}
	sb.WriteString("}")
	return sb.String()
}

func subsets(maxSize int) [][]string {
	var out [][]string
	n := len(kinds)
	for size := 0; size <= maxSize; size++ {
		var rec func(start int, cur []string)
		rec = func(start int, cur []string) {
			if len(cur) == size {
				out = append(out, append([]string(nil), cur...))
				return
			}
			for i := start; i < n; i++ {
				rec(i+1, append(cur, kinds[i]))
			}
		}
		rec(0, nil)
	}
	return out
}

type levelParam struct{ maxEntries, maxSubdirs int }

// genLevel enumerates every directory with the given budget whose subdirectories are drawn
// (as multisets) from prev. visit returns false to stop.
func genLevel(p levelParam, prev []*Node, visit func(*Node) bool) bool {
	for s := 0; s <= p.maxSubdirs && s <= p.maxEntries; s++ {
		if s > 0 && len(prev) == 0 {
			break
		}
		fs := subsets(p.maxEntries - s)
		idx := make([]int, s)
		var rec func(pos, from int) bool
		rec = func(pos, from int) bool {
			if pos == s {
				for _, f := range fs {
					n := &Node{Files: f}
					for _, i := range idx {
						n.Dirs = append(n.Dirs, prev[i])
					}
					if !visit(n) {
						return false
					}
				}
				return true
			}
			for i := from; i < len(prev); i++ {
				idx[pos] = i
				if !rec(pos+1, i) {
					return false
				}
			}
			return true
		}
		if !rec(0, 0) {
			return false
		}
	}
	return true
}

func buildLevels(params []levelParam) []*Node {
	var prev []*Node
	for _, p := range params {
		var cur []*Node
		genLevel(p, prev, func(n *Node) bool { cur = append(cur, n); return true })
		prev = cur
	}
	return prev
}

// ---- materialisation and snapshots ----

type entry struct {
	isDir   bool
	content string
	mode    fs.FileMode
}

func materialise(root string, n *Node, rel string, want map[string]entry) error {
	if err := os.MkdirAll(filepath.Join(root, rel), 0o755); err != nil {
		return err
	}
	want[rel] = entry{isDir: true}
	for _, k := range n.Files {
		p := filepath.Join(rel, fileName(k))
		content := "content of " + p
		mode := fs.FileMode(0o644)
		if k == "G" || k == "M" {
			mode = 0o444 // the generator writes its files read-only
		}
		if err := os.WriteFile(filepath.Join(root, p), []byte(content), mode); err != nil {
			return err
		}
		want[p] = entry{content: content, mode: mode}
	}
	for i, d := range n.Dirs {
		if err := materialise(root, d, filepath.Join(rel, fmt.Sprintf("d%d", i)), want); err != nil {
			return err
		}
	}
	return nil
}

func snapshot(root string) (map[string]entry, error) {
	res := map[string]entry{}
	if _, err := os.Lstat(root); os.IsNotExist(err) {
		return res, nil
	}
	err := filepath.WalkDir(root, func(path string, d fs.DirEntry, err error) error {
		if err != nil {
			return err
		}
		rel, _ := filepath.Rel(root, path)
		if d.IsDir() {
			res[rel] = entry{isDir: true}
			return nil
		}
		if d.Type()&fs.ModeSymlink != 0 {
			// a symbolic link is an entry of its own: what it points to is not part of the tree
			to, _ := os.Readlink(path)
			res[rel] = entry{content: "-> " + to, mode: 0o777}
			return nil
		}
		b, err := os.ReadFile(path)
		if err != nil {
			return err
		}
		info, err := d.Info()
		if err != nil {
			return err
		}
		res[rel] = entry{content: string(b), mode: info.Mode().Perm()}
		return nil
	})
	return res, err
}

func snapString(m map[string]entry) string {
	ks := make([]string, 0, len(m))
	for k := range m {
		ks = append(ks, k)
	}
	sort.Strings(ks)
	var sb strings.Builder
	for _, k := range ks {
		e := m[k]
		if e.isDir {
			sb.WriteString(k + "/ ")
		} else {
			sb.WriteString(fmt.Sprintf("%s[%o] ", k, e.mode))
		}
	}
	return sb.String()
}

// ---- reference model (refclean) ----

func owned(rel string) (ownedFile bool, dontCare bool) {
	base := filepath.Base(rel)
	if strings.HasSuffix(base, utils.GeneratedFileSuffix) {
		return true, false
	}
	if base == manifestName {
		// the generator writes its manifest below the target when generating with a package root, and
		// cleaning recurses with the same rules at every level: a manifest is owned at any depth
		return true, false
	}
	return false, false
}

func checkClean(before, after map[string]entry, targetIsDot bool) error {
	for p, e := range before {
		if e.isDir {
			continue
		}
		isOwned, dc := owned(p)
		a, ok := after[p]
		switch {
		case isOwned:
			if ok {
				return fmt.Errorf("owned file %s still exists", p)
			}
		case dc:
			if ok && (a.content != e.content || a.mode != e.mode) {
				return fmt.Errorf("nested manifest %s was altered", p)
			}
		default:
			if !ok {
				return fmt.Errorf("foreign file %s was removed", p)
			}
			if a.isDir || a.content != e.content {
				return fmt.Errorf("foreign file %s was altered", p)
			}
			if a.mode != e.mode {
				return fmt.Errorf("foreign file %s changed mode %o -> %o", p, e.mode, a.mode)
			}
		}
	}
	for p := range after {
		if _, ok := before[p]; !ok {
			return fmt.Errorf("new entry %s appeared", p)
		}
	}
	// directories
	hasFileBefore := map[string]bool{}
	hasFileAfter := map[string]bool{}
	mark := func(m map[string]bool, p string) {
		for d := filepath.Dir(p); ; d = filepath.Dir(d) {
			m[d] = true
			if d == "." {
				break
			}
		}
	}
	for p, e := range before {
		if !e.isDir {
			mark(hasFileBefore, p)
		}
	}
	for p, e := range after {
		if !e.isDir {
			mark(hasFileAfter, p)
		}
	}
	for p, e := range before {
		if !e.isDir {
			continue
		}
		_, exists := after[p]
		if hasFileAfter[p] {
			if !exists {
				return fmt.Errorf("directory %s with surviving content disappeared", p)
			}
			continue
		}
		if !hasFileBefore[p] {
			continue // held no file at all before: pre-existing empty (sub)tree, don't-care
		}
		if p == "." && targetIsDot {
			continue
		}
		if exists {
			return fmt.Errorf("directory %s was left behind although cleaning emptied it", p)
		}
	}
	return nil
}

type replayPayload struct {
	Gen    string `json:"gen"`
	Tree   *Node  `json:"tree"`
	Mode   string `json:"mode"` // plain | dot | dotslash | symlinks | missing
}

var scratch string

func runTree(n *Node, mode string) (class string, err error) {
	root := filepath.Join(scratch, "t")
	os.RemoveAll(root)
	defer os.RemoveAll(root)
	target := filepath.Join(root, "target")
	before := map[string]entry{}
	if mode != "missing" {
		if err := materialise(target, n, ".", before); err != nil {
			report.Internal("materialise: %v", err)
		}
		// a sibling outside the target that must never be touched
		os.WriteFile(filepath.Join(root, "outside.txt"), []byte("outside"), 0o644)
		if mode == "symlinks" {
			// symbolic links in the target: one to a directory outside it that holds files of the generator's kind
			// and an empty directory, one that points nowhere. Both are foreign entries; neither is followed.
			linked := filepath.Join(root, "linked")
			os.MkdirAll(filepath.Join(linked, "emptysub"), 0o755)
			os.WriteFile(filepath.Join(linked, "Thing"+utils.GeneratedFileSuffix), []byte("package x\n"), 0o444)
			os.WriteFile(filepath.Join(linked, "keep.txt"), []byte("keep"), 0o644)
			os.Symlink("../linked", filepath.Join(target, "zlink"))
			os.Symlink("../nowhere", filepath.Join(target, "dangling"))
			before["zlink"] = entry{content: "-> ../linked", mode: 0o777}
			before["dangling"] = entry{content: "-> ../nowhere", mode: 0o777}
		}
	} else {
		os.MkdirAll(root, 0o755)
	}
	clean := func() error {
		if mode == "dot" || mode == "dotslash" {
			cwd, _ := os.Getwd()
			if err := os.Chdir(target); err != nil {
				return nil // target vanished in an earlier clean: nothing to do
			}
			defer os.Chdir(cwd)
			if mode == "dotslash" {
				return utils.CleanTargetDir("./")
			}
			return utils.CleanTargetDir(".")
		}
		return utils.CleanTargetDir(target)
	}
	if err := clean(); err != nil {
		return "", fmt.Errorf("CleanTargetDir failed: %v", err)
	}
	after, err := snapshot(target)
	if err != nil {
		report.Internal("snapshot: %v", err)
	}
	if err := checkClean(before, after, mode == "dot" || mode == "dotslash"); err != nil {
		return "", fmt.Errorf("%v\n before: %s\n after:  %s", err, snapString(before), snapString(after))
	}
	if mode != "missing" {
		if b, err := os.ReadFile(filepath.Join(root, "outside.txt")); err != nil || string(b) != "outside" {
			return "", fmt.Errorf("file outside the target directory was touched")
		}
	}
	if mode == "symlinks" {
		ls, _ := snapshot(filepath.Join(root, "linked"))
		if len(ls) != 4 || !ls["emptysub"].isDir || ls["keep.txt"].content != "keep" || ls["Thing"+utils.GeneratedFileSuffix].content != "package x\n" {
			return "", fmt.Errorf("the directory a symbolic link in the target points to was modified: %s", snapString(ls))
		}
	}
	if err := clean(); err != nil {
		return "", fmt.Errorf("second CleanTargetDir failed: %v", err)
	}
	after2, err := snapshot(target)
	if err != nil {
		report.Internal("snapshot: %v", err)
	}
	if snapString(after) != snapString(after2) {
		return "", fmt.Errorf("cleaning is not idempotent:\n after 1: %s\n after 2: %s", snapString(after), snapString(after2))
	}
	switch {
	case len(after) == 0:
		return "target-removed", nil
	case len(after) == len(before):
		return "nothing-removed", nil
	}
	return "partly-removed", nil
}

func sigOf(gen string, err error) string {
	m := err.Error()
	if i := strings.Index(m, "\n"); i > 0 {
		m = m[:i]
	}
	// abstract names away: keep the kind of failure and the file kind
	for _, k := range kinds {
		m = strings.ReplaceAll(m, fileName(k), "<"+k+">")
	}
	parts := strings.Fields(m)
	for i, p := range parts {
		if strings.Contains(p, "/") || p == "." || strings.HasPrefix(p, "d0") || strings.HasPrefix(p, "d1") || strings.HasPrefix(p, "d2") {
			if j := strings.LastIndex(p, "/"); j >= 0 {
				parts[i] = "*/" + p[j+1:]
			} else if strings.HasPrefix(p, "d") {
				parts[i] = "<dir>"
			}
		}
	}
	return gen + " clean " + strings.Join(parts, " ")
}

func main() {
	a := hcli.Parse()
	rep := report.New(a.Gen)
	base := "/dev/shm"
	if _, err := os.Stat(base); err != nil {
		base = os.TempDir()
	}
	var err error
	scratch, err = os.MkdirTemp(base, "verif-c20-")
	if err != nil {
		report.Internal("mkdtemp: %v", err)
	}
	defer os.RemoveAll(scratch)

	if a.Replay != "" {
		var rp replayPayload
		a.LoadReplay(&rp)
		_, err := runTree(rp.Tree, rp.Mode)
		fmt.Println("tree:", rp.Tree, "mode:", rp.Mode)
		os.RemoveAll(scratch)
		if err != nil {
			fmt.Println("FAIL:", err)
			os.Exit(1)
		}
		fmt.Println("no violation")
		return
	}

	type fam struct {
		name   string
		params []levelParam // deepest first, target last
	}
	var fams []fam
	if a.Thorough() {
		fams = []fam{
			{"depth2-3entries-everywhere", []levelParam{{3, 0}, {3, 2}, {3, 2}}},
			{"depth3-3top-2deeper", []levelParam{{2, 0}, {2, 1}, {2, 1}, {3, 2}}},
		}
	} else {
		fams = []fam{
			{"depth2-3top-2deeper", []levelParam{{2, 0}, {2, 1}, {3, 2}}},
			{"depth3-2entries-spine", []levelParam{{1, 0}, {2, 1}, {2, 1}, {2, 1}}},
		}
	}
	for _, f := range fams {
		s := rep.S(f.name)
		s.Bounds = fmt.Sprintf("levels(deepest first)=%v file kinds=%v", f.params, kinds)
		prev := buildLevels(f.params[:len(f.params)-1])
		i := 0
		done := genLevel(f.params[len(f.params)-1], prev, func(n *Node) bool {
			i++
			if !a.Mine(i) {
				return true
			}
			if i%512 == 0 && a.Expired() {
				return false
			}
			modes := []string{"plain"}
			if i%97 == 0 || len(n.Dirs)+len(n.Files) <= 1 {
				modes = append(modes, "dot", "dotslash", "symlinks") // the current directory as target (spelled "." and "./") and symbolic links in the target, on a sub-family
			}
			for _, mode := range modes {
				class, err := runTree(n, mode)
				s.Evaluations++
				s.States++
				s.Transitions += 2
				s.Traces++
				if err != nil {
					rep.Fail(sigOf(a.Gen, err)+" mode="+mode, fmt.Sprintf("tree %s mode=%s\n%v", n, mode, err), replayPayload{a.Gen, n, mode})
					s.Class("fail")
					continue
				}
				s.Class(mode + ":" + class)
			}
			if i%20011 == 1 {
				rep.Sample(map[string]interface{}{"family": f.name, "tree": n.String()})
			}
			return true
		})
		if !done {
			s.Exhaustive = false
			rep.Cap(f.name + ": internal deadline")
		}
	}
	if a.Shard == 0 {
		s := rep.S("missing-target")
		class, err := runTree(&Node{}, "missing")
		s.Evaluations++
		s.States++
		s.Transitions++
		s.Traces++
		if err != nil {
			rep.Fail(sigOf(a.Gen, err)+" mode=missing", err.Error(), replayPayload{a.Gen, &Node{}, "missing"})
		} else {
			s.Class(class)
			s.Class("missing-ok")
		}
	}
	rep.Write(a.Out)
}
