// C17 (D2 part): N concurrent ResolveHostnameAndContextForQuery calls and a concurrent URI
// update against one pre-seeded D2 client; the lazy map's sync operations are shimmed
// (overlay), the RNG is a scripted source whose draws are scheduling points.
package main

import (
	"fmt"
	"net/url"
	"os"
	"sort"
	"strings"
	"sync"

	"github.com/PapaCharlie/go-restli/v2/d2"
	vs "github.com/PapaCharlie/go-restli/v2/verifsync"

	"verif/mc/hcli"
	"verif/mc/report"
	"verif/mc/sched"
)

const cluster, service = "C", "svc"

type seqSrc struct {
	vals []float64
	i    int
	free bool
	mu   sync.Mutex
}

func (s *seqSrc) Int63() int64 {
	if !s.free {
		sched.Point("rng.draw")
	}
	v := s.vals[s.i%len(s.vals)]
	s.i++
	return int64(v * (1 << 63))
}
func (s *seqSrc) Seed(int64) {}

func weights(hosts map[string]float64) *d2.Uri {
	u := &d2.Uri{Weights: map[url.URL]float64{}}
	for h, w := range hosts {
		p, _ := url.Parse(h)
		u.Weights[*p] = w
	}
	return u
}

type scenario struct {
	Name    string
	Threads []string // "resolve" | "update" | "delete"
}

type replayPayload struct {
	Gen      string   `json:"gen"`
	Scenario scenario `json:"scenario"`
	Schedule []int    `json:"schedule"`
}

func mkHarness(sc scenario, free bool) (sched.Harness, func() []string) {
	var results []string
	var c *d2.Client
	oldHosts := map[string]bool{"https://a:443": true, "https://b:443": true}
	newHosts := map[string]bool{"https://a:443": true, "https://b:443": true, "https://n:443": true}
	afterDelete := map[string]bool{"https://b:443": true}
	body := func(i int, kind string) func() {
		return func() {
			switch kind {
			case "resolve":
				u, err := c.ResolveHostnameAndContextForQuery(service, nil)
				if err != nil {
					results[i] = "error: " + err.Error()
				} else {
					results[i] = u.String()
				}
			case "update":
				data := []byte(`{"weights":{"https://n:443":2}}`)
				c.VerifDeliverUriEvent(cluster, d2.TreeCacheEvent{Path: d2.UrisPath(cluster) + "/n3", Data: &data})
				results[i] = "updated"
			case "delete":
				c.VerifDeliverUriEvent(cluster, d2.TreeCacheEvent{Path: d2.UrisPath(cluster) + "/n1", Data: nil})
				results[i] = "deleted"
			case "update+delete":
				data := []byte(`{"weights":{"https://n:443":2}}`)
				c.VerifDeliverUriEvent(cluster, d2.TreeCacheEvent{Path: d2.UrisPath(cluster) + "/n3", Data: &data})
				c.VerifDeliverUriEvent(cluster, d2.TreeCacheEvent{Path: d2.UrisPath(cluster) + "/n1", Data: nil})
				results[i] = "updated+deleted"
			}
		}
	}
	setup := func() {
		vs.ResetIDs()
		c = new(d2.Client)
		c.VerifSeedService(service, &d2.Service{ServiceName: service, ClusterName: cluster, PrioritizedSchemes: []string{"https", "http"}})
		su := d2.VerifNewServiceUris(d2.UrisPath(cluster))
		su.VerifUris()["/n1"] = weights(map[string]float64{"https://a:443": 1, "http://a:80": 1})
		su.VerifUris()["/n2"] = weights(map[string]float64{"https://b:443": 3})
		c.VerifSeedUris(cluster, su)
		d2.VerifSetRngSource(&seqSrc{vals: []float64{0.1, 0.6, 0.95, 0.3, 0.8}, free: free})
		results = make([]string, len(sc.Threads))
	}
	check := func() error {
		hasUpdate, hasDelete := false, false
		for _, t := range sc.Threads {
			hasUpdate = hasUpdate || strings.Contains(t, "update")
			hasDelete = hasDelete || strings.Contains(t, "delete")
		}
		for i, t := range sc.Threads {
			if t != "resolve" {
				continue
			}
			r := results[i]
			ok := oldHosts[r] || (hasUpdate && newHosts[r]) || (hasDelete && (afterDelete[r] || oldHosts[r])) || (hasUpdate && hasDelete && r == "https://n:443")
			if !ok {
				return fmt.Errorf("resolution %d returned %q, which is not an eligible https host of any snapshot a serial execution could observe (results %v)", i, r, results)
			}
		}
		// the final snapshot is the serial fold
		final := c.VerifCurrentUris(cluster)
		var keys []string
		for k := range final.VerifUris() {
			keys = append(keys, k)
		}
		sort.Strings(keys)
		want := []string{"/n1", "/n2"}
		if hasUpdate {
			want = append(want, "/n3")
		}
		if hasDelete {
			want = want[1:]
		}
		if strings.Join(keys, ",") != strings.Join(want, ",") {
			return fmt.Errorf("final announcement set %v, the serial fold is %v (a concurrent update was lost)", keys, want)
		}
		return nil
	}
	h := sched.Harness{
		Setup: func(e *sched.Exec) {
			setup()
			for i, t := range sc.Threads {
				e.Go(t, body(i, t))
			}
		},
		OnEnd: func(e *sched.Exec) error { return check() },
	}
	_ = check
	return h, func() []string { return results }
}

func install() {
	vs.PointHook = sched.Point
	vs.BlockHook = sched.Block
	vs.ObserveHook = sched.Observe
	vs.CurHook = sched.CurID
}

func main() {
	a := hcli.Parse()
	install()
	rep := report.New(a.Gen)
	scenarios := []scenario{
		{"2 resolves", []string{"resolve", "resolve"}},
		{"3 resolves", []string{"resolve", "resolve", "resolve"}},
		{"2 resolves + update", []string{"resolve", "resolve", "update"}},
		// a cluster's events are consumed by exactly one goroutine (waitForUriUpdates): one updater thread at most
		{"2 resolves + update-then-delete", []string{"resolve", "resolve", "update+delete"}},
		{"2 resolves + delete", []string{"resolve", "resolve", "delete"}},
	}
	if a.Replay != "" {
		var rp replayPayload
		a.LoadReplay(&rp)
		h, res := mkHarness(rp.Scenario, false)
		f, tr := sched.Replay(h, rp.Schedule)
		fmt.Println("scenario:", rp.Scenario.Name, "results:", res())
		fmt.Println("schedule:", sched.FormatTrace(tr))
		if f != nil {
			fmt.Println("FAIL:", f.Msg)
			os.Exit(1)
		}
		fmt.Println("no violation")
		return
	}
	if a.Part == "race" {
		// free-running pass for the race detector: real goroutines, real sync (no overlay in this build)
		rounds := 200
		for r := 0; r < rounds; r++ {
			sc := scenarios[r%len(scenarios)]
			_, _ = sc, r
			c := new(d2.Client)
			c.VerifSeedService(service, &d2.Service{ServiceName: service, ClusterName: cluster, PrioritizedSchemes: []string{"https", "http"}})
			su := d2.VerifNewServiceUris(d2.UrisPath(cluster))
			su.VerifUris()["/n1"] = weights(map[string]float64{"https://a:443": 1, "http://a:80": 1})
			su.VerifUris()["/n2"] = weights(map[string]float64{"https://b:443": 3})
			c.VerifSeedUris(cluster, su)
			var wg sync.WaitGroup
			for i := 0; i < 8; i++ {
				wg.Add(1)
				go func() {
					defer wg.Done()
					for j := 0; j < 50; j++ {
						_, _ = c.ResolveHostnameAndContextForQuery(service, nil)
					}
				}()
			}
			// the cluster's single updater goroutine: announcements come, change and go while resolutions run
			wg.Add(1)
			go func() {
				defer wg.Done()
				for j := 0; j < 10; j++ {
					data := []byte(`{"weights":{"https://n:443":2}}`)
					c.VerifDeliverUriEvent(cluster, d2.TreeCacheEvent{Path: d2.UrisPath(cluster) + "/n3", Data: &data})
					c.VerifDeliverUriEvent(cluster, d2.TreeCacheEvent{Path: d2.UrisPath(cluster) + "/n3", Data: nil})
					other := []byte(`{"weights":{"https://a:443":2,"http://a:80":1}}`)
					c.VerifDeliverUriEvent(cluster, d2.TreeCacheEvent{Path: d2.UrisPath(cluster) + "/n1", Data: &other})
				}
			}()
			wg.Wait()
		}
		fmt.Println("d2 race pass done")
		return
	}
	s := rep.S("d2-resolver-interleavings")
	s.Bounds = "scenarios of 2-3 threads (concurrent resolutions, the cluster's updater thread delivering an update / delete through waitForUriUpdates) on one pre-seeded client; interleavings at lazy-map sync operations, the RNG lock and RNG draws: all of them for 2 threads, preemption bound 2 (thorough 3) for 3 threads"
	for i, sc := range scenarios {
		if !a.Mine(i) {
			continue
		}
		h, _ := mkHarness(sc, false)
		bound := -1
		if len(sc.Threads) > 2 {
			bound = 2
			if a.Thorough() {
				bound = 3
			}
		}
		res := sched.Explore(h, sched.Options{Bound: bound, Deadline: a.Deadline})
		s.States++
		s.Evaluations++
		s.Traces += res.Execs
		s.Transitions += res.Transitions
		s.Class(fmt.Sprintf("threads=%d", len(sc.Threads)))
		if res.Capped {
			s.Exhaustive = false
			rep.Cap("d2 interleavings: internal deadline in " + sc.Name)
		}
		for _, f := range res.Failures {
			if f2, _ := sched.Replay(h, f.Schedule); f2 == nil {
				report.Internal("d2 failure does not replay")
			}
			rep.Fail(fmt.Sprintf("%s conc d2 %s [%s]", a.Gen, f.Kind, sc.Name), fmt.Sprintf("%s\nschedule: %s", f.Msg, sched.FormatTrace(f.Trace)), replayPayload{a.Gen, sc, f.Schedule})
		}
		if len(res.SampleTraces) > 0 {
			rep.Sample(map[string]interface{}{"scenario": sc.Name, "schedules": res.Execs, "one_schedule": sched.FormatTrace(res.SampleTraces[0])})
		}
	}
	rep.Write(a.Out)
}
