// C14: query tunnelling transparency: encode -> wire -> decode equals the untunnelled request;
// threshold exactness; malformed tunnelled requests are refused before resource code.
package main

import (
	"bufio"
	"bytes"
	"context"
	"fmt"
	"io"
	"net/http"
	"net/url"
	"os"
	"strings"

	"github.com/PapaCharlie/go-restli/v2/restli"
	"github.com/PapaCharlie/go-restli/v2/restlicodec"
	common "github.com/PapaCharlie/go-restli/v2/restlidata/generated/com/linkedin/restli/common"

	"verif/mc/hcli"
	"verif/mc/report"
	"verif/mc/wire"
)

type tcase struct {
	Gen       string `json:"gen"`
	Part      string `json:"part"`
	Verb      string `json:"verb"`
	Query     string `json:"query"`
	Body      string `json:"body"`
	HasBody   bool   `json:"has_body"`
	Threshold int    `json:"threshold"`
	Raw       string `json:"raw,omitempty"`
	Name      string `json:"name,omitempty"`
}

type rawBody string

func (r rawBody) MarshalRestLi(w restlicodec.Writer) error { w.WriteRawBytes([]byte(r)); return nil }

// parsed view of a request as the server sees it
type view struct {
	method, path, rawQuery, requestURI, contentType, restliMethod, version, override string
	body                                                                             []byte
}

func viewOf(req *http.Request) (view, error) {
	var body []byte
	if req.Body != nil {
		b, err := io.ReadAll(req.Body)
		if err != nil {
			return view{}, err
		}
		body = b
	}
	return view{req.Method, req.URL.EscapedPath(), req.URL.RawQuery, req.RequestURI, req.Header.Get("Content-Type"),
		req.Header.Get("X-RestLi-Method"), req.Header.Get("X-RestLi-Protocol-Version"), req.Header.Get("X-HTTP-Method-Override"), body}, nil
}

func (v view) diff(w view) string {
	var d []string
	add := func(name, a, b string) {
		if a != b {
			d = append(d, fmt.Sprintf("%s %q != %q", name, a, b))
		}
	}
	add("method", v.method, w.method)
	add("path", v.path, w.path)
	add("raw query", v.rawQuery, w.rawQuery)
	add("request URI", v.requestURI, w.requestURI)
	add("content type", v.contentType, w.contentType)
	add("X-RestLi-Method", v.restliMethod, w.restliMethod)
	add("protocol version", v.version, w.version)
	add("override header", v.override, w.override)
	if !bytes.Equal(v.body, w.body) {
		d = append(d, fmt.Sprintf("body (%d bytes) %.60q != (%d bytes) %.60q", len(v.body), v.body, len(w.body), w.body))
	}
	return strings.Join(d, "; ")
}

func serverParse(raw []byte) (*http.Request, error) {
	return http.ReadRequest(bufio.NewReader(bytes.NewReader(raw)))
}

func writeReq(req *http.Request) ([]byte, error) {
	var buf bytes.Buffer
	err := req.Write(&buf)
	return buf.Bytes(), err
}

// function level: EncodeTunnelledQuery -> wire -> DecodeTunnelledQuery == the plain request
func checkFunctionLevel(c tcase) (kind, detail string) {
	var body []byte
	if c.HasBody {
		body = []byte(c.Body)
	}
	target := "/r/k"
	// the plain request as a client would send it
	plainURL := "http://h" + target
	if c.Query != "" {
		plainURL += "?" + c.Query
	}
	plain, err := http.NewRequest(c.Verb, plainURL, bytes.NewReader(body))
	if err != nil {
		return "skip", "" // the query cannot be put into a URL at all
	}
	plain.Header.Set("X-RestLi-Method", "get")
	plain.Header.Set("X-RestLi-Protocol-Version", "2.0.0")
	if c.HasBody {
		plain.Header.Set("Content-Type", "application/json")
	}
	plainRaw, err := writeReq(plain)
	if err != nil {
		return "skip", ""
	}
	plainSrv, err := serverParse(plainRaw)
	if err != nil {
		return "skip", "" // not expressible untunnelled (e.g. raw control characters in the query)
	}
	want, _ := viewOf(plainSrv)

	var newBody []byte
	var hdr http.Header
	func() {
		defer func() {
			if r := recover(); r != nil {
				err = fmt.Errorf("panic: %v", r)
			}
		}()
		newBody, hdr = restli.EncodeTunnelledQuery(c.Verb, c.Query, body)
	}()
	if err != nil {
		return "encode-panic", err.Error()
	}
	tun, _ := http.NewRequest(http.MethodPost, "http://h"+target, bytes.NewReader(newBody))
	tun.Header.Set("X-RestLi-Method", "get")
	tun.Header.Set("X-RestLi-Protocol-Version", "2.0.0")
	for k, v := range hdr {
		tun.Header[k] = v
	}
	tunRaw, _ := writeReq(tun)
	srv, err := serverParse(tunRaw)
	if err != nil {
		return "wire", err.Error()
	}
	func() {
		defer func() {
			if r := recover(); r != nil {
				err = fmt.Errorf("panic: %v", r)
			}
		}()
		err = restli.DecodeTunnelledQuery(srv)
	}()
	if err != nil {
		return "decode-error", fmt.Sprintf("DecodeTunnelledQuery failed on its own encoding: %v", err)
	}
	got, err := viewOf(srv)
	if err != nil {
		return "decode-body", err.Error()
	}
	if d := got.diff(want); d != "" {
		return "not-transparent", d
	}
	return "", ""
}

// client level: the request built with a threshold, de-tunnelled, equals the threshold-0 request;
// requests whose query does not exceed the threshold are byte-identical to it.
func checkClientLevel(c tcase) (kind, detail string) {
	base, _ := url.Parse("http://h")
	build := func(threshold int) (*http.Request, error) {
		cl := &restli.Client{Client: http.DefaultClient, HostnameResolver: &restli.SimpleHostnameResolver{Hostname: base}, QueryTunnellingThreshold: threshold}
		rp := restli.ResourcePathString("/r/k")
		var q restli.QueryParamsEncoder
		if c.Query != "" {
			q = restli.QueryParamsString(c.Query)
		}
		switch {
		case c.Verb == "GET":
			return restli.NewGetRequest(cl, context.Background(), rp, q, restli.Method_get)
		case c.Verb == "DELETE":
			return restli.NewDeleteRequest(cl, context.Background(), rp, q, restli.Method_delete)
		default:
			return restli.NewJsonRequest(cl, context.Background(), rp, q, c.Verb, restli.Method_update, rawBody(c.Body), nil)
		}
	}
	plain, err := build(0)
	if err != nil {
		return "skip", ""
	}
	plainRaw, err := writeReq(plain)
	if err != nil {
		return "skip", ""
	}
	tun, err := build(c.Threshold)
	if err != nil {
		return "build-error", err.Error()
	}
	tunRaw, err := writeReq(tun)
	if err != nil {
		return "wire", err.Error()
	}
	shouldTunnel := c.Threshold > 0 && len(c.Query) > c.Threshold
	isTunnelled := tun.Header.Get("X-HTTP-Method-Override") != ""
	if shouldTunnel != isTunnelled {
		return "threshold", fmt.Sprintf("query of %d bytes, threshold %d: tunnelled=%v, want %v", len(c.Query), c.Threshold, isTunnelled, shouldTunnel)
	}
	if !shouldTunnel {
		if !bytes.Equal(plainRaw, tunRaw) {
			return "untunnelled-differs", fmt.Sprintf("request below the threshold differs from the plain request:\n%q\n%q", tunRaw, plainRaw)
		}
		return "", ""
	}
	plainSrv, err := serverParse(plainRaw)
	if err != nil {
		return "skip", ""
	}
	want, _ := viewOf(plainSrv)
	srv, err := serverParse(tunRaw)
	if err != nil {
		return "wire", err.Error()
	}
	if err := restli.DecodeTunnelledQuery(srv); err != nil {
		return "decode-error", err.Error()
	}
	got, err := viewOf(srv)
	if err != nil {
		return "decode-body", err.Error()
	}
	if d := got.diff(want); d != "" {
		return "not-transparent", d
	}
	// two requests in flight: a request that was built, and is sent only after another tunnelled request was
	// built by the same client, still carries its own query and body
	first, err := build(c.Threshold)
	if err != nil {
		return "build-error", err.Error()
	}
	oc := c
	oc.Query = "zz=(other:List(1,2,3))&" + c.Query + "&yy=the%20other%20request"
	if c.HasBody {
		oc.Body = `{"other":"request","filler":"` + strings.Repeat("x", len(c.Body)+40) + `"}`
	}
	saved := c
	c = oc
	if _, err := build(oc.Threshold); err != nil {
		c = saved
		return "build-error", err.Error()
	}
	c = saved
	firstRaw, err := writeReq(first)
	if err != nil {
		return "wire", err.Error()
	}
	srv2, err := serverParse(firstRaw)
	if err != nil {
		return "wire", err.Error()
	}
	if err := restli.DecodeTunnelledQuery(srv2); err != nil {
		return "aliased-between-requests", fmt.Sprintf("a request built before another tunnelled request of the same client no longer decodes: %v", err)
	}
	got2, err := viewOf(srv2)
	if err != nil {
		return "aliased-between-requests", fmt.Sprintf("a request built before another tunnelled request of the same client: %v", err)
	}
	if d := got2.diff(want); d != "" {
		return "aliased-between-requests", "a request built before another tunnelled request of the same client was altered by it: " + d
	}
	return "", ""
}

// ---- stub server for malformed requests ----

type stubPath struct{}

func (s *stubPath) NewInstance() *stubPath                                    { return &stubPath{} }
func (s *stubPath) UnmarshalResourcePath(segments []restlicodec.Reader) error { return nil }

type stubParams struct{}

func (p *stubParams) NewInstance() *stubParams                                     { return &stubParams{} }
func (p *stubParams) DecodeQueryParams(reader restlicodec.QueryParamsReader) error { return nil }

type stubEntity struct{}

func (e *stubEntity) NewInstance() *stubEntity { return &stubEntity{} }
func (e *stubEntity) MarshalRestLi(w restlicodec.Writer) error {
	return w.WriteMap(func(func(string) restlicodec.Writer) error { return nil })
}
func (e *stubEntity) UnmarshalRestLi(r restlicodec.Reader) error {
	return r.ReadMap(func(r restlicodec.Reader, k string) error { return r.Skip() })
}

var hits int

func stubServer() http.Handler {
	s := restli.NewServer()
	segs := []restli.ResourcePathSegment{restli.NewResourcePathSegment("r", true)}
	restli.RegisterGet(s, segs, func(ctx *restli.RequestContext, rp *stubPath, qp *stubParams) (*stubEntity, error) {
		hits++
		return &stubEntity{}, nil
	})
	restli.RegisterUpdate(s, segs, nil, func(ctx *restli.RequestContext, rp *stubPath, v *stubEntity, qp *stubParams) error {
		hits++
		return nil
	})
	restli.RegisterGetAll(s, segs, func(ctx *restli.RequestContext, rp *stubPath, qp *stubParams) (*common.Elements[*stubEntity], error) {
		hits++
		return &common.Elements[*stubEntity]{}, nil
	})
	restli.RegisterDelete(s, segs, func(ctx *restli.RequestContext, rp *stubPath, qp *stubParams) error {
		hits++
		return nil
	})
	return s.Handler()
}

func malformed() []tcase {
	const b = "BOUND"
	part := func(ct, content string) string {
		return "--" + b + "\r\nContent-Type: " + ct + "\r\n\r\n" + content + "\r\n"
	}
	mp := func(parts ...string) string { return strings.Join(parts, "") + "--" + b + "--\r\n" }
	req := func(target, verbOverride, ct, body string) string {
		h := "POST " + target + " HTTP/1.1\r\nHost: h\r\nX-RestLi-Protocol-Version: 2.0.0\r\n"
		if verbOverride != "" {
			h += "X-HTTP-Method-Override: " + verbOverride + "\r\n"
		}
		if ct != "" {
			h += "Content-Type: " + ct + "\r\n"
		}
		return h + fmt.Sprintf("Content-Length: %d\r\n\r\n%s", len(body), body)
	}
	mpct := "multipart/mixed; boundary=" + b
	return []tcase{
		{Name: "multipart-missing-query-part", Raw: req("/r/k", "PUT", mpct, mp(part("application/json", "{}")))},
		{Name: "multipart-missing-body-part", Raw: req("/r/k", "PUT", mpct, mp(part("application/x-www-form-urlencoded", "a=b")))},
		{Name: "multipart-missing-body-part-get", Raw: req("/r/k", "GET", mpct, mp(part("application/x-www-form-urlencoded", "a=b")))},
		{Name: "multipart-missing-body-part-delete", Raw: req("/r/k", "DELETE", mpct, mp(part("application/x-www-form-urlencoded", "a=b")))},
		{Name: "multipart-unknown-part-type", Raw: req("/r/k", "PUT", mpct, mp(part("application/x-www-form-urlencoded", "a=b"), part("text/plain", "{}")))},
		{Name: "multipart-unknown-part-type-first", Raw: req("/r/k", "PUT", mpct, mp(part("text/plain", "x"), part("application/x-www-form-urlencoded", "a=b"), part("application/json", "{}")))},
		{Name: "multipart-unknown-part-type-middle", Raw: req("/r/k", "PUT", mpct, mp(part("application/x-www-form-urlencoded", "a=b"), part("text/plain", "x"), part("application/json", "{}")))},
		{Name: "multipart-unknown-part-type-last", Raw: req("/r/k", "PUT", mpct, mp(part("application/x-www-form-urlencoded", "a=b"), part("application/json", "{}"), part("text/plain", "x")))},
		{Name: "multipart-unknown-part-type-last-body-first", Raw: req("/r/k", "PUT", mpct, mp(part("application/json", "{}"), part("application/x-www-form-urlencoded", "a=b"), part("text/plain", "x")))},
		{Name: "multipart-unknown-part-type-only", Raw: req("/r/k", "PUT", mpct, mp(part("text/plain", "x")))},
		{Name: "override-with-url-query-form", Raw: req("/r/k?x=y", "GET", "application/x-www-form-urlencoded", "a=b")},
		{Name: "override-with-url-query-multipart", Raw: req("/r/k?x=y", "PUT", mpct, mp(part("application/x-www-form-urlencoded", "a=b"), part("application/json", "{}")))},
		{Name: "multipart-truncated", Raw: req("/r/k", "PUT", mpct, "--"+b+"\r\nContent-Type: application/x-www-form-urlencoded\r\n\r\na=b\r\n--"+b+"\r\nContent-Type: application/json\r\n\r\n{")},
		{Name: "multipart-no-boundary-param", Raw: req("/r/k", "PUT", "multipart/mixed", mp(part("application/x-www-form-urlencoded", "a=b"), part("application/json", "{}")))},
		{Name: "multipart-empty", Raw: req("/r/k", "PUT", mpct, "--"+b+"--\r\n")},
		{Name: "form-empty-query", Raw: req("/r/k", "GET", "application/x-www-form-urlencoded", "")},
		{Name: "form-empty-query-delete", Raw: req("/r/k", "DELETE", "application/x-www-form-urlencoded; charset=UTF-8", "")},
		{Name: "unknown-outer-content-type", Raw: req("/r/k", "GET", "text/plain", "a=b")},
		{Name: "missing-outer-content-type", Raw: req("/r/k", "GET", "", "a=b")},
		{Name: "malformed-outer-content-type", Raw: req("/r/k", "GET", "multipart/mixed; boundary", "a=b")},
	}
}

func checkMalformed(c tcase, h http.Handler) (kind, detail string) {
	hits = 0
	x, err := wire.DoRaw(h, []byte(c.Raw))
	if x != nil && x.Panic != nil {
		return "panic-escaped", fmt.Sprintf("%v", x.Panic)
	}
	if err != nil || x == nil || x.Response == nil {
		return "no-response", fmt.Sprint(err)
	}
	if hits > 0 {
		return "reached-resource-code", fmt.Sprintf("status %d, resource code invoked %d time(s)", x.Response.StatusCode, hits)
	}
	if x.Response.StatusCode != 400 {
		return fmt.Sprintf("status-%d", x.Response.StatusCode), fmt.Sprintf("status %d, want 400; body %.200q", x.Response.StatusCode, x.Body)
	}
	return "", ""
}

func queries() (urlSafe, rawOnly []string) {
	urlSafe = []string{"", "a", "a=b", "q=x&ids=List(1,2)", "p=%28%29%2C%3A%27", "p=%25", "p=a%20b", "p=a+b", "x=%0D%0A", "x=%26%3D", "p=--BOUND", "p=%C3%A9",
		"ids=List((a:1,b:2),(a:3,b:4))&fields=a,b", "p=" + strings.Repeat("x", 300), "p=" + strings.Repeat("%2F", 100),
		// longer than the buffers of the multipart reader (4 KB) and of the HTTP parser
		"p=" + strings.Repeat("y", 3990), "p=" + strings.Repeat("z", 4200), "ids=List(" + strings.Repeat("1234567,", 9000) + "1)"}
	rawOnly = []string{"a=b\r\nc=d", "a=b\nInjected: header", "x=--BOUND\r\n--BOUND--", "a=b&&c==d", "%", "%zz", "a b", "é", "\x00"}
	return
}

func bodies() []struct {
	b   string
	has bool
} {
	big := `{"k":"` + strings.Repeat("0123456789abcdef", 4096) + `"}`
	return []struct {
		b   string
		has bool
	}{{"", false}, {"{}", true}, {`{"a":"--BOUND"}`, true}, {"{\n  \"a\": \"x\",\n  \"b\": \"--\"\n}", true},
		{"{\"a\":\"x\"}\r\n--BOUND\r\nContent-Type: application/json\r\n\r\n{}", true}, {big, true}, {"[1,2,3]", true}}
}

func main() {
	a := hcli.Parse()
	rep := report.New(a.Gen)
	if a.Replay != "" {
		var c tcase
		a.LoadReplay(&c)
		var kind, detail string
		switch c.Part {
		case "function":
			kind, detail = checkFunctionLevel(c)
		case "client":
			kind, detail = checkClientLevel(c)
		case "malformed":
			kind, detail = checkMalformed(c, stubServer())
		}
		fmt.Printf("case %s verb=%s query=%.80q body=%.40q threshold=%d %s\n", c.Part, c.Verb, c.Query, c.Body, c.Threshold, c.Name)
		if kind != "" && kind != "skip" {
			fmt.Println("FAIL:", kind, detail)
			os.Exit(1)
		}
		fmt.Println("no violation")
		return
	}
	if a.Shard != 0 {
		rep.Write(a.Out)
		return
	}
	urlSafe, rawOnly := queries()
	if a.Thorough() {
		// every query of <= 4 symbols over the characters the tunnelling envelope is sensitive to
		sym := []string{"a", "=", "&", "%25", "+", "%20", "-", "%0D%0A"}
		var rec func(cur string, n int)
		rec = func(cur string, n int) {
			if n > 0 {
				urlSafe = append(urlSafe, cur)
			}
			if n == 4 {
				return
			}
			for _, x := range sym {
				rec(cur+x, n+1)
			}
		}
		rec("", 0)
	}
	sf := rep.S("encode-wire-decode")
	sf.Bounds = fmt.Sprintf("verbs{GET,PUT,POST,DELETE} x %d URL-safe + %d raw queries x %d bodies through EncodeTunnelledQuery -> request serialisation -> http.ReadRequest -> DecodeTunnelledQuery", len(urlSafe), len(rawOnly), len(bodies()))
	for _, verb := range []string{"GET", "PUT", "POST", "DELETE"} {
		for _, q := range append(append([]string{}, urlSafe...), rawOnly...) {
			if q == "" {
				continue // a client never tunnels an empty query
			}
			for _, b := range bodies() {
				c := tcase{Gen: a.Gen, Part: "function", Verb: verb, Query: q, Body: b.b, HasBody: b.has}
				kind, detail := checkFunctionLevel(c)
				if kind == "skip" {
					sf.Class("skip:not-expressible-untunnelled")
					continue
				}
				sf.Evaluations++
				sf.Transitions += 2
				sf.Traces++
				sf.States++
				if kind != "" {
					rep.Fail(fmt.Sprintf("%s tunnel function %s verb=%s body=%v query=%.30q", a.Gen, kind, verb, b.has, q), detail, c)
					sf.Class("fail:" + kind)
				} else {
					sf.Class(fmt.Sprintf("ok:body=%v", b.has))
				}
			}
		}
	}
	sc := rep.S("client-threshold")
	sc.Bounds = "generated-client request builders (NewGetRequest, NewDeleteRequest, NewJsonRequest PUT/POST) x queries x bodies x thresholds {0,1,len-1,len,len+1,10^6}"
	for _, verb := range []string{"GET", "PUT", "POST", "DELETE"} {
		for _, q := range urlSafe {
			for _, b := range bodies() {
				if (verb == "GET" || verb == "DELETE") != !b.has {
					continue
				}
				for _, th := range []int{0, 1, len(q) - 1, len(q), len(q) + 1, 1000000} {
					if th < 0 {
						continue
					}
					c := tcase{Gen: a.Gen, Part: "client", Verb: verb, Query: q, Body: b.b, HasBody: b.has, Threshold: th}
					kind, detail := checkClientLevel(c)
					if kind == "skip" {
						continue
					}
					sc.Evaluations++
					sc.Transitions++
					sc.Traces++
					sc.States++
					if kind != "" {
						rep.Fail(fmt.Sprintf("%s tunnel client %s verb=%s threshold-vs-len=%d query=%.30q", a.Gen, kind, verb, th-len(q), q), detail, c)
						sc.Class("fail:" + kind)
					} else {
						sc.Class(fmt.Sprintf("ok:tunnelled=%v", th > 0 && len(q) > th))
					}
				}
			}
		}
	}
	sm := rep.S("malformed")
	h := stubServer()
	ms := malformed()
	sm.Bounds = fmt.Sprintf("%d malformed tunnelled requests fed raw to a server with stub resource code", len(ms))
	for _, c := range ms {
		c.Gen, c.Part = a.Gen, "malformed"
		kind, detail := checkMalformed(c, h)
		sm.Evaluations++
		sm.Transitions++
		sm.Traces++
		sm.States++
		if kind != "" {
			rep.Fail(fmt.Sprintf("%s tunnel malformed %s %s", a.Gen, c.Name, kind), detail, c)
			sm.Class("fail:" + kind)
		} else {
			sm.Class("ok")
		}
	}
	// well-formed tunnelled requests through the whole server, framed with Content-Length and chunked: the stub
	// resource is reached exactly as by the plain request
	ss := rep.S("server-framing")
	ss.Bounds = "verbs {GET, PUT, DELETE} x 3 queries x {Content-Length, chunked} framing of the tunnelled request, the envelope media type in three other spellings (parameters, letter case), the multipart parts in the other order, fed raw to a server with stub resource code: same status and resource invocation as the plain request"
	for _, verb := range []string{"GET", "PUT", "DELETE"} {
		for _, q := range []string{"a=b", "p=%28x%29&z=1", "p=" + strings.Repeat("x", 5000)} {
			body := ""
			if verb == "PUT" {
				body = `{"k":"v"}`
			}
			head := "Host: h\r\nX-RestLi-Protocol-Version: 2.0.0\r\nX-RestLi-Method: " + map[string]string{"GET": "get", "PUT": "update", "DELETE": "delete"}[verb] + "\r\n"
			plain := verb + " /r/k?" + q + " HTTP/1.1\r\n" + head
			if body != "" {
				plain += fmt.Sprintf("Content-Type: application/json\r\nContent-Length: %d\r\n\r\n%s", len(body), body)
			} else {
				plain += "\r\n"
			}
			ct, env := "application/x-www-form-urlencoded", q
			if body != "" {
				ct = "multipart/mixed; boundary=BOUND"
				env = "--BOUND\r\nContent-Type: application/x-www-form-urlencoded\r\n\r\n" + q + "\r\n--BOUND\r\nContent-Type: application/json\r\n\r\n" + body + "\r\n--BOUND--\r\n"
			}
			thead := "POST /r/k HTTP/1.1\r\n" + head + "X-HTTP-Method-Override: " + verb + "\r\nContent-Type: " + ct + "\r\n"
			framings := map[string]string{
				"content-length": thead + fmt.Sprintf("Content-Length: %d\r\n\r\n%s", len(env), env),
				"chunked":        thead + "Transfer-Encoding: chunked\r\n\r\n" + fmt.Sprintf("%x\r\n%s\r\n0\r\n\r\n", len(env), env),
			}
			// the same envelope media type as other clients spell it (parameters, letter case), and the two parts
			// of a multipart envelope in the other order
			theadFor := func(ct string) string {
				return "POST /r/k HTTP/1.1\r\n" + head + "X-HTTP-Method-Override: " + verb + "\r\nContent-Type: " + ct + "\r\n"
			}
			if body == "" {
				for i, sp := range []string{"application/x-www-form-urlencoded; charset=UTF-8", "application/x-www-form-urlencoded;charset=utf-8", "Application/X-WWW-Form-UrlEncoded"} {
					framings[fmt.Sprintf("media-type-spelling-%d", i)] = theadFor(sp) + fmt.Sprintf("Content-Length: %d\r\n\r\n%s", len(env), env)
				}
			} else {
				for i, sp := range []string{"multipart/mixed; boundary=\"BOUND\"", "Multipart/Mixed; charset=UTF-8; boundary=BOUND"} {
					framings[fmt.Sprintf("media-type-spelling-%d", i)] = theadFor(sp) + fmt.Sprintf("Content-Length: %d\r\n\r\n%s", len(env), env)
				}
				env2 := "--BOUND\r\nContent-Type: application/json\r\n\r\n" + body + "\r\n--BOUND\r\nContent-Type: application/x-www-form-urlencoded\r\n\r\n" + q + "\r\n--BOUND--\r\n"
				framings["parts-body-first"] = thead + fmt.Sprintf("Content-Length: %d\r\n\r\n%s", len(env2), env2)
			}
			hits = 0
			px, perr := wire.DoRaw(h, []byte(plain))
			if perr != nil || px == nil || px.Response == nil || hits != 1 {
				report.Internal("the plain request %q does not reach the stub (%v, hits %d)", plain[:60], perr, hits)
			}
			for fname, raw := range framings {
				hits = 0
				x, err := wire.DoRaw(h, []byte(raw))
				ss.Evaluations++
				ss.Transitions++
				ss.Traces++
				ss.States++
				c := tcase{Gen: a.Gen, Part: "malformed", Name: "framing-" + fname, Raw: raw}
				switch {
				case x != nil && x.Panic != nil:
					rep.Fail(fmt.Sprintf("%s tunnel framing %s panic verb=%s", a.Gen, fname, verb), fmt.Sprint(x.Panic), c)
					ss.Class("fail")
				case err != nil || x == nil || x.Response == nil:
					rep.Fail(fmt.Sprintf("%s tunnel framing %s no-response verb=%s", a.Gen, fname, verb), fmt.Sprint(err), c)
					ss.Class("fail")
				case x.Response.StatusCode != px.Response.StatusCode || hits != 1:
					rep.Fail(fmt.Sprintf("%s tunnel framing %s not-transparent verb=%s", a.Gen, fname, verb),
						fmt.Sprintf("tunnelled %s with a query of %d bytes, %s framing: status %d, resource code invoked %d time(s) (body %.200q); the plain request: status %d, invoked once", verb, len(q), fname, x.Response.StatusCode, hits, x.Body, px.Response.StatusCode), c)
					ss.Class("fail")
				default:
					ss.Class("ok:" + fname)
				}
			}
		}
	}
	rep.Sample(map[string]interface{}{"verb": "PUT", "query": "ids=List((a:1,b:2),(a:3,b:4))&fields=a,b", "body": "{\"a\":\"--BOUND\"}", "thresholds": []int{0, 1, 40, 41, 42}})
	rep.Write(a.Out)
}
