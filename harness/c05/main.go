// C05: the real router (restli.Server) with stub handlers, explored over registered trees x
// the full request product, against the routing decision table of DESIGN.md Appendix A.
package main

import (
	"bytes"
	"context"
	"errors"
	"fmt"
	"net/http"
	"os"
	"sort"
	"strings"

	"github.com/PapaCharlie/go-restli/v2/restli"
	"github.com/PapaCharlie/go-restli/v2/restlicodec"
	common "github.com/PapaCharlie/go-restli/v2/restlidata/generated/com/linkedin/restli/common"

	"verif/mc/hcli"
	"verif/mc/report"
	"verif/mc/wire"
)

// ---------------------------------------------------------------- stubs

type stubPath struct{ Keys []string }

func (s *stubPath) NewInstance() *stubPath { return &stubPath{} }
func (s *stubPath) UnmarshalResourcePath(segments []restlicodec.Reader) error {
	for _, r := range segments {
		k, err := r.ReadString()
		if err != nil {
			return err
		}
		s.Keys = append(s.Keys, k)
	}
	return nil
}

type stubParams struct{}

func (p *stubParams) NewInstance() *stubParams                                     { return &stubParams{} }
func (p *stubParams) DecodeQueryParams(reader restlicodec.QueryParamsReader) error { return nil }

type stubEntity struct{}

func (e *stubEntity) NewInstance() *stubEntity { return &stubEntity{} }
func (e *stubEntity) MarshalRestLi(w restlicodec.Writer) error {
	return w.WriteMap(func(func(string) restlicodec.Writer) error { return nil })
}
func (e *stubEntity) UnmarshalRestLi(r restlicodec.Reader) error {
	return r.ReadMap(func(r restlicodec.Reader, k string) error { return r.Skip() })
}

type batchQP = restli.SliceBatchQueryParams[string]

// observation of one request
type obs struct {
	hits []string
	log  []string
	bad  []string // inconsistencies seen by filters / stubs
}

var cur *obs

type ctxKey struct{}

func hit(ctx *restli.RequestContext, name string, wantCtxValue bool) {
	cur.hits = append(cur.hits, name)
	cur.log = append(cur.log, "stub")
	if wantCtxValue && ctx.Request.Context().Value(ctxKey{}) == nil {
		cur.bad = append(cur.bad, "context value added by a filter did not reach the method")
	}
}

// ---------------------------------------------------------------- trees

type node struct {
	Name       string   `json:"name"`
	Collection bool     `json:"collection"`
	Methods    []string `json:"methods"` // method names; "finder:f1", "action:a1"
	Children   []*node  `json:"children,omitempty"`
}

func (n *node) String() string {
	k := "simple"
	if n.Collection {
		k = "collection"
	}
	s := fmt.Sprintf("%s(%s)%v", n.Name, k, n.Methods)
	for _, c := range n.Children {
		s += "{" + c.String() + "}"
	}
	return s
}

var collectionMethods = []string{"get", "batch_get", "get_all", "create", "batch_create", "update", "batch_update",
	"partial_update", "batch_partial_update", "delete", "batch_delete", "finder:f1", "action:a1"}
var simpleMethods = []string{"get", "update", "partial_update", "delete", "action:a1"}

func register(s restli.Server, n *node, parents []restli.ResourcePathSegment, path string, ctxFilter *bool) {
	segs := append(append([]restli.ResourcePathSegment{}, parents...), restli.NewResourcePathSegment(n.Name, n.Collection))
	full := n.Name
	if path != "" {
		full = path + "/" + n.Name
	}
	want := func() bool { return *ctxFilter }
	for _, m := range n.Methods {
		id := full + ":" + m
		switch {
		case m == "get":
			restli.RegisterGet(s, segs, func(ctx *restli.RequestContext, rp *stubPath, qp *stubParams) (*stubEntity, error) {
				hit(ctx, id, want())
				return &stubEntity{}, nil
			})
		case m == "create":
			restli.RegisterCreate(s, segs, nil, func(ctx *restli.RequestContext, rp *stubPath, v *stubEntity, qp *stubParams) (*common.CreatedEntity[string], error) {
				hit(ctx, id, want())
				return &common.CreatedEntity[string]{Id: "id"}, nil
			})
		case m == "update":
			restli.RegisterUpdate(s, segs, nil, func(ctx *restli.RequestContext, rp *stubPath, v *stubEntity, qp *stubParams) error {
				hit(ctx, id, want())
				return nil
			})
		case m == "partial_update":
			restli.RegisterPartialUpdate(s, segs, nil, func(ctx *restli.RequestContext, rp *stubPath, v *stubEntity, qp *stubParams) error {
				hit(ctx, id, want())
				return nil
			})
		case m == "delete":
			restli.RegisterDelete(s, segs, func(ctx *restli.RequestContext, rp *stubPath, qp *stubParams) error {
				hit(ctx, id, want())
				return nil
			})
		case m == "get_all":
			restli.RegisterGetAll(s, segs, func(ctx *restli.RequestContext, rp *stubPath, qp *stubParams) (*common.Elements[*stubEntity], error) {
				hit(ctx, id, want())
				return &common.Elements[*stubEntity]{}, nil
			})
		case m == "batch_get":
			restli.RegisterBatchGet(s, segs, func(ctx *restli.RequestContext, rp *stubPath, keys []string, qp *batchQP) (*common.BatchResponse[string, *stubEntity], error) {
				hit(ctx, id, want())
				return &common.BatchResponse[string, *stubEntity]{}, nil
			})
		case m == "batch_create":
			restli.RegisterBatchCreate(s, segs, nil, func(ctx *restli.RequestContext, rp *stubPath, vs []*stubEntity, qp *stubParams) ([]*common.CreatedEntity[string], error) {
				hit(ctx, id, want())
				return nil, nil
			})
		case m == "batch_update":
			restli.RegisterBatchUpdate(s, segs, nil, func(ctx *restli.RequestContext, rp *stubPath, vs map[string]*stubEntity, qp *batchQP) (*common.BatchResponse[string, *common.BatchEntityUpdateResponse], error) {
				hit(ctx, id, want())
				return &common.BatchResponse[string, *common.BatchEntityUpdateResponse]{}, nil
			})
		case m == "batch_partial_update":
			restli.RegisterBatchPartialUpdate(s, segs, nil, func(ctx *restli.RequestContext, rp *stubPath, vs map[string]*stubEntity, qp *batchQP) (*common.BatchResponse[string, *common.BatchEntityUpdateResponse], error) {
				hit(ctx, id, want())
				return &common.BatchResponse[string, *common.BatchEntityUpdateResponse]{}, nil
			})
		case m == "batch_delete":
			restli.RegisterBatchDelete(s, segs, func(ctx *restli.RequestContext, rp *stubPath, keys []string, qp *batchQP) (*common.BatchResponse[string, *common.BatchEntityUpdateResponse], error) {
				hit(ctx, id, want())
				return &common.BatchResponse[string, *common.BatchEntityUpdateResponse]{}, nil
			})
		case strings.HasPrefix(m, "finder:"):
			restli.RegisterFinder(s, segs, strings.TrimPrefix(m, "finder:"), func(ctx *restli.RequestContext, rp *stubPath, qp *stubParams) (*common.Elements[*stubEntity], error) {
				hit(ctx, id, want())
				return &common.Elements[*stubEntity]{}, nil
			})
		case strings.HasPrefix(m, "action:"):
			restli.RegisterAction(s, segs, strings.TrimPrefix(m, "action:"), func(ctx *restli.RequestContext, rp *stubPath, p *stubEntity) error {
				hit(ctx, id, want())
				return nil
			})
		default:
			report.Internal("unknown method %s", m)
		}
	}
	for _, c := range n.Children {
		register(s, c, segs, full, ctxFilter)
	}
}

// ---------------------------------------------------------------- filters

type filterKind string

type stubFilter struct {
	idx  int
	kind string // pass | ctx | fail
	want *expect
}

func (f *stubFilter) PreRequest(req *http.Request) (context.Context, error) {
	cur.log = append(cur.log, fmt.Sprintf("pre%d", f.idx))
	ctx := req.Context()
	func() {
		defer func() {
			if r := recover(); r != nil {
				cur.bad = append(cur.bad, fmt.Sprintf("filter could not read routing facts from the context: %v", r))
			}
		}()
		facts := fmt.Sprintf("method=%s path=%v", restli.GetMethodFromContext(ctx), restli.GetResourcePathSegmentsFromContext(ctx))
		var keys []string
		for _, r := range restli.GetEntitySegmentsFromContext(ctx) {
			k, err := r.ReadString()
			if err != nil {
				k = "ERR"
			}
			keys = append(keys, k)
		}
		facts += fmt.Sprintf(" keys=%v", keys)
		switch restli.GetMethodFromContext(ctx) {
		case restli.Method_finder:
			facts += " finder=" + restli.GetFinderNameFromContext(ctx)
		case restli.Method_action:
			facts += " action=" + restli.GetActionNameFromContext(ctx)
		}
		cur.log = append(cur.log, "facts:"+facts)
	}()
	switch f.kind {
	case "ctx":
		return context.WithValue(ctx, ctxKey{}, "added"), nil
	case "fail":
		return nil, errors.New("filter refuses")
	}
	return nil, nil
}

func (f *stubFilter) PostRequest(ctx context.Context, h http.Header) error {
	cur.log = append(cur.log, fmt.Sprintf("post%d", f.idx))
	return nil
}

var filterStacks = [][]string{{}, {"pass"}, {"ctx"}, {"fail"}, {"pass", "ctx", "pass"}, {"pass", "fail", "pass"}}

func mkFilters(stack []string) []restli.Filter {
	var fs []restli.Filter
	for i, k := range stack {
		fs = append(fs, &stubFilter{idx: i, kind: k})
	}
	return fs
}

// ---------------------------------------------------------------- requests

type request struct {
	Verb     string `json:"verb"`
	Header   string `json:"header"` // "" absent
	Path     string `json:"path"`
	Q        string `json:"q"` // "" | f1 | nope
	Ids      bool   `json:"ids"`
	Action   string `json:"action"` // "" | a1 | nope
	Tunnel   bool   `json:"tunnel"`
	Filters  int    `json:"filters"`
	Mounting string `json:"mounting"` // bare | mux | prefix
	// Stray: an X-HTTP-Method-Override header (with a form content type) on a request that is NOT a POST: such a
	// request is not tunnelled and is routed by its own verb
	Stray string `json:"stray_override,omitempty"`
}

func (r request) query() string {
	var parts []string
	if r.Q != "" {
		parts = append(parts, "q="+r.Q)
	}
	if r.Ids {
		parts = append(parts, "ids=List(a,b)")
	}
	if r.Action != "" {
		parts = append(parts, "action="+r.Action)
	}
	return strings.Join(parts, "&")
}

func (r request) body() string {
	if r.Verb != "POST" && r.Verb != "PUT" && r.Verb != "PATCH" {
		return ""
	}
	switch r.Header {
	case "batch_create":
		return `{"elements":[]}`
	case "batch_update", "batch_partial_update":
		return `{"entities":{}}`
	}
	if !has(methodNames, r.Header) && r.Verb == "PUT" && r.Ids {
		return `{"entities":{}}`
	}
	return `{}`
}

// the prefix shares characters with the first letters of the resource names (r, s, x2): stripping it must remove the prefix itself, not a character set
const prefix = "/srv/x1"

func (r request) build() ([]byte, error) {
	path := r.Path
	if r.Mounting == "prefix" {
		path = prefix + path
	}
	q := r.query()
	body := r.body()
	verb := r.Verb
	hdr := http.Header{}
	if r.Header != "" {
		hdr.Set("X-RestLi-Method", r.Header)
	}
	hdr.Set("X-RestLi-Protocol-Version", "2.0.0")
	if body != "" {
		hdr.Set("Content-Type", "application/json")
	}
	if r.Stray != "" {
		hdr.Set("X-HTTP-Method-Override", r.Stray)
		if body == "" {
			hdr.Set("Content-Type", "application/x-www-form-urlencoded")
		}
	}
	if r.Tunnel {
		// reference tunnelling encoder (sharing no code with restli.EncodeTunnelledQuery)
		hdr.Set("X-HTTP-Method-Override", verb)
		verb = "POST"
		if body == "" {
			hdr.Set("Content-Type", "application/x-www-form-urlencoded")
			body = q
		} else {
			const b = "verifBOUNDARYverif"
			hdr.Set("Content-Type", "multipart/mixed; boundary="+b)
			body = "--" + b + "\r\nContent-Type: application/x-www-form-urlencoded\r\n\r\n" + q + "\r\n--" + b +
				"\r\nContent-Type: application/json\r\n\r\n" + body + "\r\n--" + b + "--\r\n"
		}
		q = ""
	}
	u := "http://h" + path
	if q != "" {
		u += "?" + q
	}
	req, err := http.NewRequest(verb, u, strings.NewReader(body))
	if err != nil {
		return nil, err
	}
	for k, v := range hdr {
		req.Header[k] = v
	}
	var buf bytes.Buffer
	if err := req.Write(&buf); err != nil {
		return nil, err
	}
	return buf.Bytes(), nil
}

// ---------------------------------------------------------------- refrouter (Appendix A)

type expect struct {
	kind  string // stub | 404 | 400 | 4xx | dontcare | either
	stub  string
	facts string
	alts  []*expect
}

func (e *expect) String() string {
	switch e.kind {
	case "stub":
		return "routed to " + e.stub
	case "either":
		var s []string
		for _, a := range e.alts {
			s = append(s, a.String())
		}
		return "either {" + strings.Join(s, " | ") + "}"
	}
	return e.kind
}

var protocolVerb = map[string]string{"get": "GET", "batch_get": "GET", "get_all": "GET", "finder": "GET",
	"create": "POST", "batch_create": "POST", "action": "POST", "partial_update": "POST", "batch_partial_update": "POST",
	"update": "PUT", "batch_update": "PUT", "delete": "DELETE", "batch_delete": "DELETE"}

var methodNames = []string{"get", "create", "delete", "update", "partial_update", "batch_get", "batch_create", "batch_delete",
	"batch_update", "batch_partial_update", "get_all", "action", "finder"}

func has(list []string, s string) bool {
	for _, x := range list {
		if x == s {
			return true
		}
	}
	return false
}

// registered: a node exists in the server only if something was registered on it or below it.
func registered(n *node) bool {
	if len(n.Methods) > 0 {
		return true
	}
	for _, c := range n.Children {
		if registered(c) {
			return true
		}
	}
	return false
}

func route(roots []*node, r request) *expect {
	path := r.Path
	if path == "" || path == "/" {
		return &expect{kind: "404"}
	}
	if strings.HasSuffix(path, "/") {
		rr := r
		rr.Path = strings.TrimSuffix(path, "/")
		// a trailing slash may be read as the slash-less path, refused outright, or read as an
		// empty (undecodable) key of a routed request
		return &expect{kind: "either", alts: []*expect{route(roots, rr), {kind: "4xx"}, {kind: "400-decode"}}}
	}
	segs := strings.Split(strings.TrimPrefix(path, "/"), "/")
	var n *node
	for _, x := range roots {
		if x.Name == segs[0] && registered(x) {
			n = x
		}
	}
	if n == nil {
		return &expect{kind: "404"}
	}
	i := 1
	hasEntity := false
	var names, keys []string
	full := n.Name
	for {
		names = append(names, n.Name)
		hasEntity = false
		if n.Collection && i < len(segs) {
			keys = append(keys, segs[i])
			hasEntity = true
			i++
		}
		if i >= len(segs) {
			break
		}
		var child *node
		for _, c := range n.Children {
			if c.Name == segs[i] && registered(c) {
				child = c
			}
		}
		if child == nil {
			return &expect{kind: "404"}
		}
		n = child
		full += "/" + n.Name
		i++
	}
	// method
	method := ""
	headerValid := has(methodNames, r.Header)
	stdVerb := r.Verb == "GET" || r.Verb == "POST" || r.Verb == "PUT" || r.Verb == "DELETE"
	if n.Collection {
		infer := func() *expect {
			switch r.Verb {
			case "GET":
				switch {
				case hasEntity:
					method = "get"
				case r.Q != "":
					method = "finder"
				case r.Ids:
					method = "batch_get"
				default:
					method = "get_all"
				}
			case "PUT":
				if r.Ids {
					method = "batch_update"
				} else {
					method = "update"
				}
			case "DELETE":
				if r.Ids {
					method = "batch_delete"
				} else {
					method = "delete"
				}
			case "POST":
				return &expect{kind: "400"}
			default:
				return &expect{kind: "4xx"}
			}
			return nil
		}
		switch {
		case r.Header == "":
			if e := infer(); e != nil {
				return e
			}
		case headerValid:
			if protocolVerb[r.Header] != r.Verb {
				return &expect{kind: "dontcare"}
			}
			method = r.Header
		default:
			// a header that names no method: the statement is silent
			rr := r
			rr.Header = ""
			return &expect{kind: "either", alts: []*expect{route(roots, rr), {kind: "4xx"}}}
		}
		switch method {
		case "get", "delete", "update", "partial_update":
			if !hasEntity {
				return &expect{kind: "400"}
			}
		case "create", "finder", "get_all", "batch_get", "batch_create", "batch_delete", "batch_update", "batch_partial_update":
			if hasEntity {
				return &expect{kind: "400"}
			}
		}
	} else {
		switch r.Verb {
		case "GET":
			method = "get"
		case "PUT":
			method = "update"
		case "DELETE":
			method = "delete"
		case "POST":
			if r.Action != "" {
				method = "action"
			} else {
				method = "partial_update"
			}
		default:
			if r.Header == "" {
				return &expect{kind: "4xx"}
			}
			return &expect{kind: "dontcare"}
		}
	}
	_ = stdVerb
	// lookup
	reg := method
	switch method {
	case "finder":
		if r.Q == "" {
			return &expect{kind: "400"}
		}
		reg = "finder:" + r.Q
	case "action":
		if r.Action == "" {
			return &expect{kind: "400"}
		}
		reg = "action:" + r.Action
	}
	if !has(n.Methods, reg) {
		return &expect{kind: "400"}
	}
	// decode: batch methods need ids; body-less methods must not carry a body
	switch method {
	case "batch_get", "batch_delete", "batch_update", "batch_partial_update":
		if !r.Ids {
			// routed, but the parameters do not decode: 400, the method is not run (filters may have)
			return &expect{kind: "400-decode"}
		}
		if r.Q != "" || r.Action != "" {
			// whether a parameter unknown to the stub's decoder (restli.SliceBatchQueryParams) is an
			// error is the decoder's business (the generations differ), not routing's
			facts := fmt.Sprintf("method=%s path=%s keys=%v", method, pathFacts(roots, names), keys)
			return &expect{kind: "either", alts: []*expect{{kind: "400-decode"}, {kind: "stub", stub: full + ":" + reg, facts: facts}}}
		}
	}
	facts := fmt.Sprintf("method=%s path=%s keys=%v", method, pathFacts(roots, names), keys)
	if method == "finder" {
		facts += " finder=" + r.Q
	}
	if method == "action" {
		facts += " action=" + r.Action
	}
	return &expect{kind: "stub", stub: full + ":" + reg, facts: facts}
}

// pathFacts renders the resource path segments the way fmt prints []restli.ResourcePathSegment.
func pathFacts(roots []*node, names []string) string {
	var segs []restli.ResourcePathSegment
	level := roots
	for _, nm := range names {
		for _, x := range level {
			if x.Name == nm {
				segs = append(segs, restli.NewResourcePathSegment(x.Name, x.Collection))
				level = x.Children
				break
			}
		}
	}
	return fmt.Sprint(segs)
}

// ---------------------------------------------------------------- check one request

type server struct {
	handlers map[string]http.Handler // mounting -> handler, per filter stack index
}

func buildServer(roots []*node, stack []string, mounting string) http.Handler {
	ctxF := has(stack, "ctx") && !has(stack, "fail")
	var s restli.Server
	if mounting == "prefix" {
		s = restli.NewPrefixedServer(prefix, mkFilters(stack)...)
	} else {
		s = restli.NewServer(mkFilters(stack)...)
	}
	for _, n := range roots {
		register(s, n, nil, "", &ctxF)
	}
	if mounting == "mux" {
		mux := http.NewServeMux()
		s.AddToMux(mux)
		return mux
	}
	return s.Handler()
}

func check(roots []*node, h http.Handler, r request) (kind, detail string) {
	raw, err := r.build()
	if err != nil {
		report.Internal("cannot build request %+v: %v", r, err)
	}
	cur = &obs{}
	x, err := wire.DoRaw(h, raw)
	o := cur
	want := route(roots, r)
	if r.Mounting == "mux" {
		// the mux itself answers for anything that is not under a registered root resource
		want = want
	}
	if want.kind == "dontcare" {
		if x != nil && x.Panic != nil {
			return "panic", fmt.Sprintf("handler panicked: %v", x.Panic)
		}
		return "", ""
	}
	if x == nil || x.Response == nil {
		if x != nil && x.Panic != nil {
			return "panic", fmt.Sprintf("handler panicked: %v", x.Panic)
		}
		return "no-response", fmt.Sprint(err)
	}
	status := x.Response.StatusCode
	stack := filterStacks[r.Filters]
	var matches func(e *expect) string
	matches = func(e *expect) string {
		switch e.kind {
		case "either":
			var why []string
			for _, a := range e.alts {
				w := matches(a)
				if w == "" {
					return ""
				}
				why = append(why, w)
			}
			return strings.Join(why, " / ")
		case "dontcare":
			return ""
		case "400-decode":
			if len(o.hits) > 0 {
				return fmt.Sprintf("resource code %v was invoked", o.hits)
			}
			if status != 400 && !has(stack, "fail") {
				return fmt.Sprintf("status %d, want 400", status)
			}
			return ""
		case "404", "400", "4xx":
			if len(o.hits) > 0 {
				return fmt.Sprintf("resource code %v was invoked", o.hits)
			}
			if len(o.log) > 0 {
				return fmt.Sprintf("filters ran %v", o.log)
			}
			if e.kind == "4xx" {
				if status < 400 || status > 499 {
					return fmt.Sprintf("status %d, want 4xx", status)
				}
				return ""
			}
			if fmt.Sprint(status) != e.kind {
				return fmt.Sprintf("status %d, want %s", status, e.kind)
			}
			return ""
		case "stub":
			failAt := -1
			for i, k := range stack {
				if k == "fail" {
					failAt = i
					break
				}
			}
			var wantLog []string
			for i := range stack {
				if failAt >= 0 && i > failAt {
					break
				}
				wantLog = append(wantLog, fmt.Sprintf("pre%d", i), "facts:"+e.facts)
			}
			if failAt < 0 {
				wantLog = append(wantLog, "stub")
				for i := len(stack) - 1; i >= 0; i-- {
					wantLog = append(wantLog, fmt.Sprintf("post%d", i))
				}
				if len(o.hits) != 1 || o.hits[0] != e.stub {
					return fmt.Sprintf("invoked %v, want exactly [%s] (status %d)", o.hits, e.stub, status)
				}
				if status < 200 || status > 299 {
					return fmt.Sprintf("status %d for a routed request", status)
				}
			} else if len(o.hits) != 0 {
				return fmt.Sprintf("method %v ran although filter %d failed", o.hits, failAt)
			}
			if strings.Join(o.log, " ") != strings.Join(wantLog, " ") {
				return fmt.Sprintf("filter/method sequence %v, want %v", o.log, wantLog)
			}
			if len(o.bad) > 0 {
				return strings.Join(o.bad, "; ")
			}
			return ""
		}
		return "unknown expectation"
	}
	if why := matches(want); why != "" {
		k := "misrouted"
		switch {
		case want.kind == "stub" && len(o.hits) == 0 && !has(stack, "fail"):
			k = "not-routed"
		case want.kind != "stub" && want.kind != "either" && len(o.hits) > 0:
			k = "routed-but-must-not"
		case strings.Contains(why, "filter"):
			k = "filters"
		case strings.HasPrefix(why, "status"):
			k = "wrong-status"
		}
		return k, fmt.Sprintf("expected %s; observed status %d, invoked %v, sequence %v: %s", want, status, o.hits, o.log, why)
	}
	return "", ""
}

// ---------------------------------------------------------------- enumeration

func trees(thorough bool) [][]*node {
	var out [][]*node
	sets := func(all []string) [][]string {
		res := [][]string{{}}
		for _, m := range all {
			res = append(res, []string{m})
		}
		res = append(res, append([]string{}, all...))
		for i := range all {
			var s []string
			for j, m := range all {
				if j != i {
					s = append(s, m)
				}
			}
			res = append(res, s)
		}
		return res
	}
	shapes := []func(ms []string) []*node{
		func(ms []string) []*node { return []*node{{Name: "r", Collection: true, Methods: ms}} },
		func(ms []string) []*node {
			return []*node{{Name: "r", Collection: true, Methods: []string{"get"}, Children: []*node{{Name: "s", Collection: true, Methods: ms}}}}
		},
		func(ms []string) []*node {
			return []*node{{Name: "r", Collection: false, Methods: []string{"get"}, Children: []*node{{Name: "s", Collection: true, Methods: ms}}}}
		},
		func(ms []string) []*node {
			return []*node{{Name: "r", Collection: true, Methods: ms}, {Name: "x2", Collection: false, Methods: []string{"get"}}}
		},
	}
	simpleShapes := []func(ms []string) []*node{
		func(ms []string) []*node { return []*node{{Name: "r", Collection: false, Methods: ms}} },
		func(ms []string) []*node {
			return []*node{{Name: "r", Collection: true, Methods: []string{"get", "finder:f1"}, Children: []*node{{Name: "s", Collection: false, Methods: ms}}}}
		},
	}
	cs, ss := sets(collectionMethods), sets(simpleMethods)
	if !thorough {
		// quick: every single method, none, all and two all-but-one sets on two collection shapes and two simple shapes
		cs = append(cs[:15], cs[16], cs[27])
		ss = append(ss[:7], ss[8])
		// a collection below a simple resource (its ancestors contribute path segments but no keys):
		// quick keeps a few method sets on that shape
		for _, ms := range [][]string{collectionMethods, {"get"}, {"get_all"}, {"create"}, {"delete", "batch_delete"}, {"update", "finder:f1"}} {
			out = append(out, shapes[2](ms))
		}
		shapes = shapes[:2]
	}
	for _, sh := range shapes {
		for _, ms := range cs {
			out = append(out, sh(ms))
		}
	}
	for _, sh := range simpleShapes {
		for _, ms := range ss {
			out = append(out, sh(ms))
		}
	}
	return out
}

func treeString(roots []*node) string {
	var s []string
	for _, n := range roots {
		s = append(s, n.String())
	}
	return strings.Join(s, " + ")
}

var verbs = []string{"GET", "POST", "PUT", "DELETE", "PATCH"}
var paths = []string{"/r", "/r/k", "/r/k/s", "/r/k/s/k2", "/r/", "/r/k/", "/x", "/r/k/x", "/", "/r/s", "/r/s/k2", "/x2"}

type replayPayload struct {
	Gen     string  `json:"gen"`
	Tree    []*node `json:"tree"`
	Request request `json:"request"`
	After   []*node `json:"registered_after_handler,omitempty"`
}

func sigOf(gen, kind string, r request, want *expect) string {
	hdr := r.Header
	if hdr == "" {
		hdr = "-"
	}
	shape := r.Path
	return fmt.Sprintf("%s route %s mounting=%s tunnel=%v verb=%s header=%s path=%s want=%s", gen, kind, r.Mounting, r.Tunnel, r.Verb, hdr, shape, want.kind)
}

func main() {
	a := hcli.Parse()
	rep := report.New(a.Gen)
	if a.Replay != "" {
		var rp replayPayload
		a.LoadReplay(&rp)
		h := buildServer(rp.Tree, filterStacks[rp.Request.Filters], rp.Request.Mounting)
		kind, detail := check(rp.Tree, h, rp.Request)
		raw, _ := rp.Request.build()
		fmt.Printf("tree: %s\nrequest: %+v\n%s\n", treeString(rp.Tree), rp.Request, wire.RequestLine(raw))
		if kind != "" {
			fmt.Println("FAIL:", kind, detail)
			os.Exit(1)
		}
		fmt.Println("no violation")
		return
	}
	headers := append([]string{""}, append(append([]string{}, methodNames...), "bogus")...)
	s := rep.S("routing")
	ts := trees(a.Thorough())
	s.Bounds = fmt.Sprintf("trees=%d x verbs%v x method header{absent,13 names,bogus} x paths%v x q{-,f1,nope} x ids{-,+} x action{-,a1,nope} x tunnelled{no,yes} (+ a stray override header on non-POST requests) x filter stacks%v x mounting{bare,mux,prefix} (quick: filter stack and mounting deviate one at a time)", len(ts), verbs, paths, filterStacks)
	classes := map[string]int64{}
	for ti, roots := range ts {
		if !a.Mine(ti) {
			continue
		}
		if a.Expired() {
			s.Exhaustive = false
			rep.Cap("routing: internal deadline")
			break
		}
		s.States++
		type cfg struct {
			f int
			m string
		}
		var cfgs []cfg
		if a.Thorough() {
			for f := range filterStacks {
				for _, m := range []string{"bare", "mux", "prefix"} {
					cfgs = append(cfgs, cfg{f, m})
				}
			}
		} else {
			cfgs = []cfg{{0, "bare"}, {1, "bare"}, {2, "bare"}, {3, "bare"}, {4, "bare"}, {5, "bare"}, {0, "mux"}, {0, "prefix"}, {4, "prefix"}}
		}
		for _, c := range cfgs {
			h := buildServer(roots, filterStacks[c.f], c.m)
			// an override header on requests that are not POSTs (all paths, no query, no method header)
			for _, verb := range []string{"GET", "PUT", "DELETE"} {
				for _, p := range paths {
					for _, over := range []string{"GET", "PUT", "DELETE", "POST"} {
						if over == verb {
							continue
						}
						r := request{Verb: verb, Path: p, Filters: c.f, Mounting: c.m, Stray: over}
						kind, detail := check(roots, h, r)
						s.Evaluations++
						s.Transitions++
						s.Traces++
						if kind != "" {
							want := route(roots, r)
							rep.Fail(sigOf(a.Gen, kind, r, want)+" stray-override="+over, fmt.Sprintf("tree %s\nrequest %+v\n%s", treeString(roots), r, detail),
								replayPayload{Gen: a.Gen, Tree: roots, Request: r})
							classes["fail:"+kind]++
						} else {
							classes["ok:stray-override:"+route(roots, r).kind]++
						}
					}
				}
			}
			for _, verb := range verbs {
				for _, hdr := range headers {
					for _, p := range paths {
						for _, q := range []string{"", "f1", "nope"} {
							for _, ids := range []bool{false, true} {
								for _, act := range []string{"", "a1", "nope"} {
									for _, tun := range []bool{false, true} {
										r := request{verb, hdr, p, q, ids, act, tun, c.f, c.m, ""}
										if tun && r.query() == "" {
											continue // a client never tunnels an empty query
										}
										kind, detail := check(roots, h, r)
										s.Evaluations++
										s.Transitions++
										s.Traces++
										if kind != "" {
											want := route(roots, r)
											rep.Fail(sigOf(a.Gen, kind, r, want), fmt.Sprintf("tree %s\nrequest %+v\n%s", treeString(roots), r, detail),
												replayPayload{Gen: a.Gen, Tree: roots, Request: r})
											classes["fail:"+kind]++
										} else {
											classes["ok:"+route(roots, r).kind]++
										}
									}
								}
							}
						}
					}
				}
			}
		}
		if ti%17 == 0 {
			rep.Sample(map[string]interface{}{"tree": treeString(roots), "example_request": request{"GET", "", "/r/k", "", false, "", false, 0, "bare", ""}, "expected": route(roots, request{Verb: "GET", Path: "/r/k"}).String()})
		}
	}
	for k, v := range classes {
		s.Classes[k] += v
	}

	// handler snapshots: registering after Handler() must not change the handler obtained earlier
	if a.Shard == 0 {
		sn := rep.S("handler-snapshot")
		before := []*node{{Name: "r", Collection: true, Methods: []string{"get"}}}
		after := []*node{{Name: "r", Collection: true, Methods: []string{"delete", "finder:f1", "create"}, Children: []*node{{Name: "s", Collection: false, Methods: []string{"get"}}}},
			{Name: "x2", Collection: false, Methods: []string{"get"}}}
		for _, mounting := range []string{"bare", "mux"} {
			ctxF := false
			srv := restli.NewServer()
			for _, n := range before {
				register(srv, n, nil, "", &ctxF)
			}
			var h http.Handler
			if mounting == "mux" {
				mux := http.NewServeMux()
				srv.AddToMux(mux)
				h = mux
			} else {
				h = srv.Handler()
			}
			for _, n := range after {
				register(srv, n, nil, "", &ctxF)
			}
			for _, verb := range verbs {
				for _, hdr := range headers {
					for _, p := range paths {
						for _, q := range []string{"", "f1"} {
							r := request{verb, hdr, p, q, false, "", false, 0, mounting, ""}
							kind, detail := check(before, h, r)
							sn.Evaluations++
							sn.Transitions++
							sn.Traces++
							sn.States++
							if kind != "" {
								rep.Fail(sigOf(a.Gen, "snapshot-"+kind, r, route(before, r)), fmt.Sprintf("handler taken from tree %s, then registered %s\nrequest %+v\n%s", treeString(before), treeString(after), r, detail),
									replayPayload{Gen: a.Gen, Tree: before, Request: r, After: after})
								sn.Class("fail")
							} else {
								sn.Class("ok:" + route(before, r).kind)
							}
						}
					}
				}
			}
		}
	}
	// deep trees: several sub-resources below one parent at depth 4 and 5 (filters must see the path of the routed
	// resource, not a sibling's)
	if a.Shard == 0 || a.Shards == 1 {
		sd := rep.S("deep-siblings")
		leafs := func(prefix string) []*node {
			return []*node{{Name: prefix + "1", Collection: true, Methods: []string{"get", "get_all"}}, {Name: prefix + "2", Collection: true, Methods: []string{"get", "delete"}},
				{Name: prefix + "3", Collection: false, Methods: []string{"get"}}}
		}
		deep := leafs("v")
		d4 := leafs("u")
		d4[0].Children = deep
		roots := []*node{{Name: "r", Collection: true, Methods: []string{"get"}, Children: []*node{{Name: "s", Collection: true, Methods: []string{"get"},
			Children: []*node{{Name: "t", Collection: true, Methods: []string{"get"}, Children: d4}}}}}}
		base := "/r/k/s/k/t/k"
		var dpaths []string
		for _, n := range []string{"u1", "u2", "u3", "u4"} {
			dpaths = append(dpaths, base+"/"+n, base+"/"+n+"/k")
		}
		for _, n := range []string{"v1", "v2", "v3"} {
			dpaths = append(dpaths, base+"/u1/k/"+n, base+"/u1/k/"+n+"/k")
		}
		sd.Bounds = fmt.Sprintf("one tree r/s/t with three sub-resources at depth 4 and three more at depth 5 x %d paths x verbs {GET, DELETE} x method header {absent, get, get_all} x every filter stack x mounting {bare, prefix}", len(dpaths))
		for f := range filterStacks {
			for _, mounting := range []string{"bare", "prefix"} {
				h := buildServer(roots, filterStacks[f], mounting)
				for _, verb := range []string{"GET", "DELETE"} {
					for _, hdr := range []string{"", "get", "get_all"} {
						for _, p := range dpaths {
							r := request{Verb: verb, Header: hdr, Path: p, Filters: f, Mounting: mounting}
							kind, detail := check(roots, h, r)
							sd.Evaluations++
							sd.Transitions++
							sd.Traces++
							sd.States++
							if kind != "" {
								rep.Fail(sigOf(a.Gen, "deep-"+kind, r, route(roots, r)), fmt.Sprintf("tree %s\nrequest %+v\n%s", treeString(roots), r, detail),
									replayPayload{Gen: a.Gen, Tree: roots, Request: r})
								sd.Class("fail")
							} else {
								sd.Class("ok:" + route(roots, r).kind)
							}
						}
					}
				}
			}
		}
	}
	_ = sort.Strings
	rep.Write(a.Out)
}
