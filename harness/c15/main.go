// C15: request URL construction over a base-URL grammar x resource paths x queries, against refurl.
package main

import (
	"bufio"
	"bytes"
	"context"
	"fmt"
	"net/http"
	"net/url"
	"os"
	"strings"

	"github.com/PapaCharlie/go-restli/v2/restli"
	"github.com/PapaCharlie/go-restli/v2/restlicodec"

	"verif/mc/hcli"
	"verif/mc/report"
)

const root = "search"

type urlCase struct {
	Gen    string   `json:"gen"`
	Scheme string   `json:"scheme"`
	Host   string   `json:"host"`
	Ctx    []string `json:"ctx"`
	Slash  bool     `json:"trailing_slash"`
	Path   string   `json:"resource_path"`
	Query  string   `json:"query"`
	HasQ   bool     `json:"has_query"`
	Kind   string   `json:"request_kind"` // get | json
}

func (c urlCase) base() string {
	b := ""
	if c.Scheme != "" {
		b = c.Scheme + "://" + c.Host
	}
	if len(c.Ctx) > 0 {
		b += "/" + strings.Join(c.Ctx, "/")
	}
	if c.Slash {
		b += "/"
	}
	return b
}

type emptyBody struct{}

func (emptyBody) MarshalRestLi(w restlicodec.Writer) error {
	return w.WriteMap(func(func(string) restlicodec.Writer) error { return nil })
}

// refurl: the URL the statement prescribes.
func (c urlCase) want() (escapedPath, rawQuery string, dontCare bool) {
	ctx := append([]string{}, c.Ctx...)
	for i, s := range ctx {
		if s == root && i != len(ctx)-1 {
			return "", "", true // the root name as a complete non-final context segment: unspecified
		}
	}
	if len(ctx) > 0 && ctx[len(ctx)-1] == root {
		ctx = ctx[:len(ctx)-1]
	}
	p := ""
	if len(ctx) > 0 {
		p = "/" + strings.Join(ctx, "/")
	}
	return p + c.Path, c.Query, false
}

func check(c urlCase) (kind, detail string) {
	escPath, rawQuery, dc := c.want()
	if dc {
		return "dontcare", ""
	}
	base, err := url.Parse(c.base())
	if err != nil {
		report.Internal("bad base %q: %v", c.base(), err)
	}
	cl := &restli.Client{Client: http.DefaultClient, HostnameResolver: &restli.SimpleHostnameResolver{Hostname: base}}
	var q restli.QueryParamsEncoder
	if c.HasQ {
		q = restli.QueryParamsString(c.Query)
	}
	var req *http.Request
	build := func() {
		defer func() {
			if r := recover(); r != nil {
				err = fmt.Errorf("panic: %v", r)
			}
		}()
		if c.Kind == "get" {
			req, err = restli.NewGetRequest(cl, context.Background(), restli.ResourcePathString(c.Path), q, restli.Method_get)
		} else {
			req, err = restli.NewJsonRequest(cl, context.Background(), restli.ResourcePathString(c.Path), q, http.MethodPut, restli.Method_update, emptyBody{}, nil)
		}
	}
	before := *base
	build()
	if err != nil {
		return "error", fmt.Sprintf("request construction failed: %v", err)
	}
	// the URL handed out by the resolver belongs to the resolver: building a request must not change
	// it, and building the same request again must give the same URL
	if *base != before {
		return "resolver-url-modified", fmt.Sprintf("the resolver's URL was %q before the request was built and is %q afterwards", before.String(), base.String())
	}
	first := req.URL.String()
	build()
	if err != nil || req.URL.String() != first {
		return "second-request-differs", fmt.Sprintf("the same request built twice on one client: %q then %q (%v)", first, req.URL.String(), err)
	}
	// a tunnelling threshold the query stays below changes nothing
	plain := cl
	cl = &restli.Client{Client: http.DefaultClient, HostnameResolver: plain.HostnameResolver, QueryTunnellingThreshold: 1000000}
	build()
	if err != nil || req.URL.String() != first {
		return "threshold-changes-url", fmt.Sprintf("with a tunnelling threshold of 10^6 (query %d bytes) the URL is %q, without %q (%v)", len(c.Query), req.URL.String(), first, err)
	}
	cl = plain
	build()
	u := req.URL
	if u.Scheme != c.Scheme || u.Host != c.Host {
		return "scheme-host", fmt.Sprintf("URL %q: scheme/host %q %q, resolver gave %q %q", u.String(), u.Scheme, u.Host, c.Scheme, c.Host)
	}
	if got := u.EscapedPath(); got != escPath {
		k := "path"
		switch {
		case strings.Count(got, "/"+root) > strings.Count(escPath, "/"+root):
			k = "path-root-duplicated"
		case len(got) < len(escPath):
			k = "path-normalised-or-truncated"
		}
		return k, fmt.Sprintf("URL %q: escaped path %q, want %q", u.String(), got, escPath)
	}
	if u.RawQuery != rawQuery {
		return "query", fmt.Sprintf("URL %q: raw query %q, want %q", u.String(), u.RawQuery, rawQuery)
	}
	// String() must re-parse to the same
	back, err := url.Parse(u.String())
	if err != nil || back.EscapedPath() != escPath || back.RawQuery != rawQuery {
		return "string-reparse", fmt.Sprintf("URL.String() = %q does not re-parse to path %q query %q", u.String(), escPath, rawQuery)
	}
	// and the request target on the wire is byte for byte path?query
	if c.Scheme != "" {
		var buf bytes.Buffer
		if err := req.Write(&buf); err != nil {
			return "wire-write", err.Error()
		}
		line, _ := bufio.NewReader(&buf).ReadString('\n')
		parts := strings.Split(strings.TrimSpace(line), " ")
		target := escPath
		if target == "" {
			target = "/"
		}
		if rawQuery != "" {
			target += "?" + rawQuery
		}
		// an encoder that yields no parameters leaves a bare "?" behind: harmless, accepted
		if len(parts) != 3 || (parts[1] != target && !(c.HasQ && rawQuery == "" && parts[1] == target+"?")) {
			return "wire-target", fmt.Sprintf("request line %q, want target %q", strings.TrimSpace(line), target)
		}
	}
	return "", ""
}

func main() {
	a := hcli.Parse()
	rep := report.New(a.Gen)
	if a.Replay != "" {
		var c urlCase
		a.LoadReplay(&c)
		kind, detail := check(c)
		fmt.Printf("case %+v base=%q\n", c, c.base())
		if kind != "" && kind != "dontcare" {
			fmt.Println("FAIL:", kind, detail)
			os.Exit(1)
		}
		fmt.Println("no violation")
		return
	}
	// (two context segments carry percent-escapes - an escaped slash, space, '#', '?' and '%': the context path is
	// escaped text and must come out as it went in)
	segAlphabet := []string{root, root + "er", "sea", "api", "a%2Fb", "x%20y%23z%3F%25"}
	maxSeg := 3
	if a.Thorough() {
		// more ways to resemble the root name, one more level
		segAlphabet = append(segAlphabet, root+"-v2", "x"+root, strings.ToUpper(root))
		maxSeg = 4
	}
	var ctxs [][]string
	var gen func(cur []string)
	gen = func(cur []string) {
		ctxs = append(ctxs, append([]string{}, cur...))
		if len(cur) == maxSeg {
			return
		}
		for _, x := range segAlphabet {
			gen(append(cur, x))
		}
	}
	gen(nil)
	keys := []string{"a", "%25", "%2F", ".", "..", "a%2F..%2Fb", ";", "a;b", "%3F", "%23", "''", "(a:b)", "!*", "%28x%29", "a%20b", "+", "%C3%A9", "$", "a=b&c", "%2E%2E"}
	var paths []string
	paths = append(paths, "/"+root)
	for _, k := range keys {
		paths = append(paths, "/"+root+"/"+k)
	}
	for _, k := range keys {
		paths = append(paths, "/"+root+"/"+k+"/sub/"+k, "/"+root+"/a/sub/"+k)
	}
	type qq struct {
		q   string
		has bool
	}
	queries := []qq{{"", false}, {"a=b", true}, {"q=x&ids=List(1,2)", true}, {"%25", true}, {"+", true}, {"a=%2F..", true}, {"q=%3F%23", true}, {"x=a+b", true}, {"p=(a:b)", true}, {"", true}}
	type sh struct{ scheme, host string }
	hosts := []sh{{"http", "h"}, {"https", "h"}, {"http", "h:8080"}, {"https", "h:8080"}, {"", ""}}
	if a.Thorough() {
		hosts = append(hosts, sh{"http", "[::1]:8080"}, sh{"https", "xn--bcher-kva.example"}, sh{"http", "10.0.0.1"})
	}
	s := rep.S("url-construction")
	s.Bounds = fmt.Sprintf("bases: %d scheme/host x %d context paths (0-3 segments over %v) x trailing slash; %d resource paths (keys %v); %d queries; NewGetRequest and NewJsonRequest", len(hosts), len(ctxs), segAlphabet, len(paths), keys, len(queries))
	item := 0
	for _, h := range hosts {
		for _, ctx := range ctxs {
			for _, slash := range []bool{false, true} {
				item++
				if !a.Mine(item) {
					continue
				}
				s.States++
				for _, p := range paths {
					for _, q := range queries {
						for _, kind := range []string{"get", "json"} {
							c := urlCase{a.Gen, h.scheme, h.host, ctx, slash, p, q.q, q.has, kind}
							if slash && len(ctx) == 0 && h.scheme == "" {
								c.Slash = true
							}
							k, detail := check(c)
							s.Evaluations++
							s.Transitions++
							s.Traces++
							if k == "dontcare" {
								s.Class("dontcare")
								continue
							}
							if k != "" {
								key := strings.TrimPrefix(p, "/"+root)
								rep.Fail(fmt.Sprintf("%s url %s key-part=%q ctxlen=%d query=%q", a.Gen, k, key, len(ctx), q.q),
									fmt.Sprintf("base %q resource path %q query %q (%s): %s", c.base(), p, q.q, kind, detail), c)
								s.Class("fail:" + k)
							} else {
								s.Class(fmt.Sprintf("ok:ctx%d", len(ctx)))
							}
						}
					}
				}
			}
		}
	}
	rep.Sample(map[string]interface{}{"base": "https://h:8080/api/search/", "resource_path": "/search/%2F/sub/a%2F..%2Fb", "query": "q=%3F%23", "expected_url": "https://h:8080/api/search/%2F/sub/a%2F..%2Fb?q=%3F%23"})
	rep.Write(a.Out)
}
