package main

// C06 at the wire: a response from which required fields were deleted (or nulled) reaches a
// lenient client as the partially filled value with no error, and a strict client as the same
// value plus one MissingRequiredFieldsError naming exactly the deleted paths.
//
// The server side is the real router + generated mock resource; the response bytes are then
// rewritten by the transport (a peer answering with an incomplete document) before the generated
// client reads them. Alphabet: every resource x every method whose response carries an entity
// (get, create / partial_update returning the entity, actions returning a record, finders,
// get_all, batch_get) x every single required path present in the entity (deleted, nulled) and
// every pair of them (deleted) x {lenient, strict} client.

import (
	"bytes"
	"encoding/json"
	"errors"
	"fmt"
	"io"
	"net/http"
	"reflect"
	"sort"
	"strconv"
	"strings"

	"github.com/PapaCharlie/go-restli/v2/restlicodec"

	"verif/mc/hcli"
	"verif/mc/report"
	"verif/mc/schema"
	"verif/mc/wire"
)

type lenientReplay struct {
	Gen    string   `json:"gen"`
	Part   string   `json:"part"`
	Univ   string   `json:"universe"`
	Res    string   `json:"resource"`
	Method string   `json:"method"`
	Paths  []string `json:"paths"`
	Null   bool     `json:"null"`
	Strict bool     `json:"strict"`
}

// reqPaths lists the required record fields present in document j of type t, at any depth below
// records, arrays and maps (union members are left alone).
func reqPaths(t *schema.Type, j interface{}, path []string, emit func([]string)) {
	t = t.Base()
	switch t.Kind {
	case schema.Record:
		obj, ok := j.(map[string]interface{})
		if !ok {
			return
		}
		for _, f := range t.AllFields() {
			v, present := obj[f.Name]
			if !present {
				continue
			}
			p := append(append([]string{}, path...), f.Name)
			if !f.Optional && f.Default == nil {
				emit(p)
			}
			reqPaths(f.Type, v, p, emit)
		}
	case schema.Array:
		arr, _ := j.([]interface{})
		for i, v := range arr {
			reqPaths(t.Elem, v, append(append([]string{}, path...), "["+strconv.Itoa(i)+"]"), emit)
		}
	case schema.Map:
		obj, _ := j.(map[string]interface{})
		keys := make([]string, 0, len(obj))
		for k := range obj {
			keys = append(keys, k)
		}
		sort.Strings(keys)
		for _, k := range keys {
			reqPaths(t.Elem, obj[k], append(append([]string{}, path...), k), emit)
		}
	}
}

func scopeString(path []string) string {
	var sb strings.Builder
	for i, p := range path {
		if i > 0 && !strings.HasPrefix(p, "[") {
			sb.WriteByte('.')
		}
		sb.WriteString(p)
	}
	return sb.String()
}

// jsonAt walks to the parent of path and applies f to (parent, last segment).
func jsonEdit(root interface{}, path []string, null bool) bool {
	cur := root
	for i, p := range path {
		last := i == len(path)-1
		if strings.HasPrefix(p, "[") {
			arr, ok := cur.([]interface{})
			idx, _ := strconv.Atoi(strings.Trim(p, "[]"))
			if !ok || idx >= len(arr) {
				return false
			}
			if last {
				return false // array elements are never "required fields"
			}
			cur = arr[idx]
			continue
		}
		obj, ok := cur.(map[string]interface{})
		if !ok {
			return false
		}
		if last {
			if _, ok := obj[p]; !ok {
				return false
			}
			if null {
				obj[p] = nil
			} else {
				delete(obj, p)
			}
			return true
		}
		cur = obj[p]
	}
	return false
}

// slots returns where the entities sit in the response body (JSON paths) for method m.
func entitySlots(m *schema.Method, body interface{}) [][]string {
	obj, _ := body.(map[string]interface{})
	switch {
	case m.Kind == "ACTION":
		return [][]string{{"value"}}
	case m.Kind == "FINDER" || m.Name == "get_all":
		arr, _ := obj["elements"].([]interface{})
		var out [][]string
		for i := range arr {
			out = append(out, []string{"elements", "[" + strconv.Itoa(i) + "]"})
		}
		return out
	case m.Name == "batch_get":
		res, _ := obj["results"].(map[string]interface{})
		var out [][]string
		for k := range res {
			out = append(out, []string{"results", k})
		}
		sort.Slice(out, func(i, j int) bool { return out[i][1] < out[j][1] })
		return out
	}
	return [][]string{{}}
}

// goSlots returns the Go values of the entities in a client result, in an order that is the same
// for two results of the same call.
func goSlots(m *schema.Method, out reflect.Value) []reflect.Value {
	for out.Kind() == reflect.Ptr {
		if out.IsNil() {
			return nil
		}
		out = out.Elem()
	}
	switch {
	case m.Kind == "FINDER" || m.Name == "get_all":
		el := out
		if out.Kind() == reflect.Struct {
			el = out.FieldByName("Elements")
		}
		if !el.IsValid() || el.Kind() != reflect.Slice {
			return nil
		}
		var vs []reflect.Value
		for i := 0; i < el.Len(); i++ {
			vs = append(vs, el.Index(i))
		}
		return vs
	case m.Name == "batch_get":
		res := out.FieldByName("Results")
		if !res.IsValid() || res.Kind() != reflect.Map {
			return nil
		}
		keys := res.MapKeys()
		sort.Slice(keys, func(i, j int) bool { return fmt.Sprint(keys[i].Interface()) < fmt.Sprint(keys[j].Interface()) })
		var vs []reflect.Value
		for _, k := range keys {
			vs = append(vs, res.MapIndex(k))
		}
		return vs
	case m.Name == "create":
		e := out.FieldByName("Entity")
		if !e.IsValid() {
			return nil
		}
		return []reflect.Value{e}
	}
	return []reflect.Value{out.Addr()}
}

// eqExcept compares got with want everywhere except below the deleted paths, where got must
// hold the zero value. It returns a description of the first difference and the number of
// deleted paths it located.
func eqExcept(got, want reflect.Value, dels [][]string, at string) (diff string, located int) {
	for _, d := range dels {
		if len(d) == 0 {
			if !got.IsZero() {
				return fmt.Sprintf("%s: the absent field holds %v", at, got.Interface()), 1
			}
			return "", 1
		}
	}
	if len(dels) == 0 {
		if !reflect.DeepEqual(got.Interface(), want.Interface()) {
			return fmt.Sprintf("%s: got %+v, the complete response gave %+v", at, got.Interface(), want.Interface()), 0
		}
		return "", 0
	}
	if got.Kind() == reflect.Ptr || got.Kind() == reflect.Interface {
		if got.IsNil() || want.IsNil() {
			if got.IsNil() != want.IsNil() {
				return fmt.Sprintf("%s: got nil=%v, the complete response gave nil=%v", at, got.IsNil(), want.IsNil()), 0
			}
			return "", 0
		}
		return eqExcept(got.Elem(), want.Elem(), dels, at)
	}
	sub := func(seg string) [][]string {
		var out [][]string
		for _, d := range dels {
			if d[0] == seg {
				out = append(out, d[1:])
			}
		}
		return out
	}
	switch got.Kind() {
	case reflect.Struct:
		for i := 0; i < got.NumField(); i++ {
			sf := got.Type().Field(i)
			if sf.PkgPath != "" {
				continue
			}
			if sf.Anonymous {
				d, n := eqExcept(got.Field(i), want.Field(i), dels, at)
				located += n
				if d != "" {
					return d, located
				}
				continue
			}
			var mine [][]string
			for _, d := range dels {
				if exported(d[0]) == sf.Name {
					mine = append(mine, d[1:])
				}
			}
			d, n := eqExcept(got.Field(i), want.Field(i), mine, at+"."+sf.Name)
			located += n
			if d != "" {
				return d, located
			}
		}
	case reflect.Slice:
		if got.Len() != want.Len() {
			return fmt.Sprintf("%s: %d elements, the complete response gave %d", at, got.Len(), want.Len()), 0
		}
		for i := 0; i < got.Len(); i++ {
			d, n := eqExcept(got.Index(i), want.Index(i), sub("["+strconv.Itoa(i)+"]"), fmt.Sprintf("%s[%d]", at, i))
			located += n
			if d != "" {
				return d, located
			}
		}
	case reflect.Map:
		if got.Len() != want.Len() {
			return fmt.Sprintf("%s: %d entries, the complete response gave %d", at, got.Len(), want.Len()), 0
		}
		for _, k := range want.MapKeys() {
			g := got.MapIndex(k)
			if !g.IsValid() {
				return fmt.Sprintf("%s: entry %v lost", at, k.Interface()), located
			}
			d, n := eqExcept(g, want.MapIndex(k), sub(fmt.Sprint(k.Interface())), fmt.Sprintf("%s[%v]", at, k.Interface()))
			located += n
			if d != "" {
				return d, located
			}
		}
	default:
		if !reflect.DeepEqual(got.Interface(), want.Interface()) {
			return fmt.Sprintf("%s: got %+v, the complete response gave %+v", at, got.Interface(), want.Interface()), 0
		}
	}
	return "", located
}

func returnsEntity(r *schema.Resource, m *schema.Method) *schema.Type {
	switch {
	case m.Kind == "ACTION":
		if m.Return != nil && m.Return.Base().Kind == schema.Record {
			return m.Return
		}
	case m.Kind == "FINDER":
		return m.Return
	case m.Name == "get" || m.Name == "get_all" || m.Name == "batch_get":
		return r.Schema
	case (m.Name == "create" || m.Name == "partial_update") && m.ReturnEntity:
		return r.Schema
	}
	return nil
}

// lenientCase runs one (resource, method, deleted paths) case on one client kind.
func lenientCase(gen string, u *schema.Universe, r *schema.Resource, m *schema.Method, ent *schema.Type, paths [][]string, null, strict bool, valid *wire.Exchange, validOuts []reflect.Value) (kind, detail string) {
	var body interface{}
	dec := json.NewDecoder(bytes.NewReader(valid.Body))
	dec.UseNumber()
	if err := dec.Decode(&body); err != nil {
		report.Internal("valid response body of %s.%s is not JSON: %v", r.Name(), m.Name, err)
	}
	slots := entitySlots(m, body)
	var want []string
	for _, s := range slots {
		for _, p := range paths {
			full := append(append([]string{}, s...), p...)
			if !jsonEdit(body, full, null) {
				report.Internal("cannot edit %v in %s", full, valid.Body)
			}
			want = append(want, scopeString(full))
		}
	}
	sort.Strings(want)
	mutated, _ := json.Marshal(body)
	cfg := DefaultConfig
	cfg.Strict = strict
	w := NewWorld(u, cfg)
	w.transport.Respond = func(x *wire.Exchange) *http.Response {
		return &http.Response{StatusCode: valid.Response.StatusCode, Status: valid.Response.Status, Proto: "HTTP/1.1", ProtoMajor: 1, ProtoMinor: 1,
			Header: valid.Response.Header.Clone(), Body: io.NopCloser(bytes.NewReader(mutated)), ContentLength: int64(len(mutated))}
	}
	call, reply := buildCall(gen, r, m, "none", nil)
	outs, pan := w.Do(call, reply)
	if pan != nil {
		return "client-panic", fmt.Sprintf("response %s: %v", mutated, pan)
	}
	var callErr error
	if ev := outs[len(outs)-1]; !ev.IsNil() {
		callErr = ev.Interface().(error)
	}
	if strict {
		var mf *restlicodec.MissingRequiredFieldsError
		if callErr == nil {
			return "strict-client-no-error", fmt.Sprintf("response %s lacks %v and the strict client reported nothing", mutated, want)
		}
		if !errors.As(callErr, &mf) {
			return "strict-client-other-error", fmt.Sprintf("response %s lacks %v: %v", mutated, want, callErr)
		}
		got := append([]string{}, mf.Fields...)
		sort.Strings(got)
		if !reflect.DeepEqual(got, want) {
			return "wrong-missing-set", fmt.Sprintf("response %s: reported %v, missing %v", mutated, mf.Fields, want)
		}
	} else if callErr != nil {
		return "lenient-client-error", fmt.Sprintf("response %s lacks %v: the lenient client returned %v", mutated, want, callErr)
	}
	gs, ws := goSlots(m, outs[0]), goSlots(m, validOuts[0])
	if len(ws) == 0 {
		report.Internal("no entity found in the result of %s.%s", r.Name(), m.Name)
	}
	if strict && len(gs) == 0 {
		return "", "" // the property only promises the value to the lenient client; a strict call may return the error alone
	}
	if len(gs) != len(ws) {
		return "value-lost", fmt.Sprintf("response %s lacks %v: the client returned %d entities (result %v), the complete response gave %d", mutated, want, len(gs), describe(outs[0]), len(ws))
	}
	for i := range gs {
		d, n := eqExcept(gs[i], ws[i], paths, "entity")
		if d != "" {
			return "present-field-lost", fmt.Sprintf("response %s lacks %v: %s", mutated, want, d)
		}
		if n != len(paths) {
			report.Internal("located %d of %d deleted paths %v in %s", n, len(paths), paths, gs[i].Type())
		}
	}
	return "", ""
}

func describe(v reflect.Value) string {
	if !v.IsValid() {
		return "<invalid>"
	}
	if (v.Kind() == reflect.Ptr || v.Kind() == reflect.Map || v.Kind() == reflect.Slice) && v.IsNil() {
		return "nil " + v.Type().String()
	}
	return fmt.Sprintf("%+v", v.Interface())
}

func pathStrings(ps [][]string) []string {
	var out []string
	for _, p := range ps {
		out = append(out, scopeString(p))
	}
	return out
}

// c06wPrepare performs the complete exchange of (r, m) and lists the required paths present in
// the first entity of its response (all entities of a reply have the same shape).
func c06wPrepare(gen string, u *schema.Universe, r *schema.Resource, m *schema.Method, ent *schema.Type) (*wire.Exchange, []reflect.Value, [][]string) {
	w := NewWorld(u, DefaultConfig)
	call, reply := buildCall(gen, r, m, "none", nil)
	validOuts, pan := w.Do(call, reply)
	valid := w.transport.Last()
	if pan != nil || valid == nil || !validOuts[len(validOuts)-1].IsNil() {
		report.Internal("the complete exchange of %s.%s fails: %v %v", r.Name(), m.Name, pan, validOuts[len(validOuts)-1])
	}
	var body interface{}
	dec := json.NewDecoder(bytes.NewReader(valid.Body))
	dec.UseNumber()
	if err := dec.Decode(&body); err != nil {
		report.Internal("valid response body of %s.%s is not JSON: %q", r.Name(), m.Name, valid.Body)
	}
	slots := entitySlots(m, body)
	if len(slots) == 0 {
		report.Internal("no entity in the response of %s.%s: %s", r.Name(), m.Name, valid.Body)
	}
	// required paths of the first entity (all entities of a reply have the same shape)
	first := body
	for _, p := range slots[0] {
		if strings.HasPrefix(p, "[") {
			i, _ := strconv.Atoi(strings.Trim(p, "[]"))
			first = first.([]interface{})[i]
		} else {
			first = first.(map[string]interface{})[p]
		}
	}
	var singles [][]string
	reqPaths(ent, first, nil, func(p []string) { singles = append(singles, p) })
	if len(singles) == 0 {
		report.Internal("entity %s of %s.%s has no required field present", ent.Label(), r.Name(), m.Name)
	}
	return valid, validOuts, singles
}

func partC06W(a *hcli.Args, rep *report.Report, univName string, u *schema.Universe) {
	s := rep.S("lenient-client")
	item := 0
	nres, nmeth := 0, 0
	for _, r := range u.Resources {
		nres++
		for _, m := range r.Methods {
			ent := returnsEntity(r, m)
			if ent == nil {
				continue
			}
			nmeth++
			item++
			if !a.Mine(item) {
				continue
			}
			valid, validOuts, singles := c06wPrepare(a.Gen, u, r, m, ent)
			type variant struct {
				paths [][]string
				null  bool
			}
			var vs []variant
			for _, p := range singles {
				vs = append(vs, variant{[][]string{p}, false}, variant{[][]string{p}, true})
			}
			for i := range singles {
				for j := i + 1; j < len(singles); j++ {
					// a pair where one path is below the other is the same document as the shorter one alone
					if strings.HasPrefix(scopeString(singles[j]), scopeString(singles[i])) || strings.HasPrefix(scopeString(singles[i]), scopeString(singles[j])) {
						continue
					}
					if !a.Thorough() && j > i+3 {
						continue
					}
					vs = append(vs, variant{[][]string{singles[i], singles[j]}, false})
				}
			}
			for _, v := range vs {
				for _, strict := range []bool{false, true} {
					kind, detail := lenientCase(a.Gen, u, r, m, ent, v.paths, v.null, strict, valid, validOuts)
					s.Evaluations++
					s.Transitions++
					s.Traces++
					s.States++
					if kind != "" {
						mode := "lenient"
						if strict {
							mode = "strict"
						}
						rep.Fail(fmt.Sprintf("%s wire-missing %s %s %s client=%s", a.Gen, kind, resourceKind(r), ClientMethod(m), mode),
							fmt.Sprintf("%s.%s %s", r.Name(), ClientMethod(m), detail),
							lenientReplay{a.Gen, "C06W", univName, r.Namespace, m.Name, pathStrings(v.paths), v.null, strict})
						s.Class("fail:" + kind)
					} else {
						s.Class(fmt.Sprintf("ok:%s:strict=%v:n=%d:null=%v", ClientMethod(m), strict, len(v.paths), v.null))
					}
				}
			}
		}
	}
	s.Bounds = fmt.Sprintf("%d resources, %d methods answering with an entity; per method every required path present in the entity deleted and nulled, every pair deleted (quick: neighbouring pairs); each on a lenient and a strict client", nres, nmeth)
	rep.Sample(map[string]interface{}{"case": "get with a required field deleted from the response", "lenient": "value with the other fields, no error", "strict": "same value + MissingRequiredFieldsError{that path}"})
}
