package main

// C06 at the wire: a response from which required fields were deleted (or nulled) reaches a
// lenient client as the partially filled value with no error, and a strict client as the same
// value plus one MissingRequiredFieldsError naming exactly the deleted paths.
//
// The server side is the real router + generated mock resource; the response bytes are then
// rewritten by the transport (a peer answering with an incomplete document) before the generated
// client reads them. Alphabet: every resource x every method whose response carries an entity
// (get, create / partial_update returning the entity, actions returning a record, finders,
// get_all, batch_get) x every single required path present in the entity (deleted, nulled) and
// every pair of them (deleted) x {lenient, strict} client.

import (
	"bytes"
	"encoding/json"
	"errors"
	"fmt"
	"io"
	"net/http"
	"reflect"
	"sort"
	"strconv"
	"strings"

	"github.com/PapaCharlie/go-restli/v2/restlicodec"

	"verif/mc/hcli"
	"verif/mc/report"
	"verif/mc/schema"
	"verif/mc/wire"
)

type lenientReplay struct {
	Gen    string   `json:"gen"`
	Part   string   `json:"part"`
	Univ   string   `json:"universe"`
	Res    string   `json:"resource"`
	Method string   `json:"method"`
	Paths  []string `json:"paths"`
	Null   bool     `json:"null"`
	Strict bool     `json:"strict"`
}

// reqPaths lists the required record fields present in document j of type t, at any depth below
// records, arrays and maps (union members are left alone).
func reqPaths(t *schema.Type, j interface{}, path []string, emit func([]string)) {
	t = t.Base()
	switch t.Kind {
	case schema.Record:
		obj, ok := j.(map[string]interface{})
		if !ok {
			return
		}
		for _, f := range t.AllFields() {
			v, present := obj[f.Name]
			if !present {
				continue
			}
			p := append(append([]string{}, path...), f.Name)
			if !f.Optional && f.Default == nil {
				emit(p)
			}
			reqPaths(f.Type, v, p, emit)
		}
	case schema.Array:
		arr, _ := j.([]interface{})
		for i, v := range arr {
			reqPaths(t.Elem, v, append(append([]string{}, path...), "["+strconv.Itoa(i)+"]"), emit)
		}
	case schema.Map:
		obj, _ := j.(map[string]interface{})
		keys := make([]string, 0, len(obj))
		for k := range obj {
			keys = append(keys, k)
		}
		sort.Strings(keys)
		for _, k := range keys {
			reqPaths(t.Elem, obj[k], append(append([]string{}, path...), k), emit)
		}
	}
}

func scopeString(path []string) string {
	var sb strings.Builder
	for i, p := range path {
		if i > 0 && !strings.HasPrefix(p, "[") {
			sb.WriteByte('.')
		}
		sb.WriteString(p)
	}
	return sb.String()
}

// jsonAt walks to the parent of path and applies f to (parent, last segment).
func jsonEdit(root interface{}, path []string, null bool) bool {
	cur := root
	for i, p := range path {
		last := i == len(path)-1
		if strings.HasPrefix(p, "[") {
			arr, ok := cur.([]interface{})
			idx, _ := strconv.Atoi(strings.Trim(p, "[]"))
			if !ok || idx >= len(arr) {
				return false
			}
			if last {
				return false // array elements are never "required fields"
			}
			cur = arr[idx]
			continue
		}
		obj, ok := cur.(map[string]interface{})
		if !ok {
			return false
		}
		if last {
			if _, ok := obj[p]; !ok {
				return false
			}
			if null {
				obj[p] = nil
			} else {
				delete(obj, p)
			}
			return true
		}
		cur = obj[p]
	}
	return false
}

// slots returns where the entities sit in the response body (JSON paths) for method m.
func entitySlots(m *schema.Method, body interface{}) [][]string {
	obj, _ := body.(map[string]interface{})
	switch {
	case m.Kind == "ACTION":
		return [][]string{{"value"}}
	case m.Kind == "FINDER" || m.Name == "get_all":
		arr, _ := obj["elements"].([]interface{})
		var out [][]string
		for i := range arr {
			out = append(out, []string{"elements", "[" + strconv.Itoa(i) + "]"})
		}
		return out
	case m.Name == "batch_get":
		res, _ := obj["results"].(map[string]interface{})
		var out [][]string
		for k := range res {
			out = append(out, []string{"results", k})
		}
		sort.Slice(out, func(i, j int) bool { return out[i][1] < out[j][1] })
		return out
	}
	return [][]string{{}}
}

// goSlots returns the Go values of the entities in a client result, in an order that is the same
// for two results of the same call.
func goSlots(m *schema.Method, out reflect.Value) []reflect.Value {
	for out.Kind() == reflect.Ptr {
		if out.IsNil() {
			return nil
		}
		out = out.Elem()
	}
	switch {
	case m.Kind == "FINDER" || m.Name == "get_all":
		el := out
		if out.Kind() == reflect.Struct {
			el = out.FieldByName("Elements")
		}
		if !el.IsValid() || el.Kind() != reflect.Slice {
			return nil
		}
		var vs []reflect.Value
		for i := 0; i < el.Len(); i++ {
			vs = append(vs, el.Index(i))
		}
		return vs
	case m.Name == "batch_get":
		res := out.FieldByName("Results")
		if !res.IsValid() || res.Kind() != reflect.Map {
			return nil
		}
		keys := res.MapKeys()
		sort.Slice(keys, func(i, j int) bool { return fmt.Sprint(keys[i].Interface()) < fmt.Sprint(keys[j].Interface()) })
		var vs []reflect.Value
		for _, k := range keys {
			vs = append(vs, res.MapIndex(k))
		}
		return vs
	case m.Name == "create":
		e := out.FieldByName("Entity")
		if !e.IsValid() {
			return nil
		}
		return []reflect.Value{e}
	}
	return []reflect.Value{out.Addr()}
}

// eqExcept compares got with want everywhere except below the deleted paths, where got must
// hold the zero value. It returns a description of the first difference and the number of
// deleted paths it located.
func eqExcept(got, want reflect.Value, dels [][]string, at string) (diff string, located int) {
	for _, d := range dels {
		if len(d) == 0 {
			if !got.IsZero() {
				return fmt.Sprintf("%s: the absent field holds %v", at, got.Interface()), 1
			}
			return "", 1
		}
	}
	if len(dels) == 0 {
		if !reflect.DeepEqual(got.Interface(), want.Interface()) {
			return fmt.Sprintf("%s: got %+v, the complete response gave %+v", at, got.Interface(), want.Interface()), 0
		}
		return "", 0
	}
	if got.Kind() == reflect.Ptr || got.Kind() == reflect.Interface {
		if got.IsNil() || want.IsNil() {
			if got.IsNil() != want.IsNil() {
				return fmt.Sprintf("%s: got nil=%v, the complete response gave nil=%v", at, got.IsNil(), want.IsNil()), 0
			}
			return "", 0
		}
		return eqExcept(got.Elem(), want.Elem(), dels, at)
	}
	sub := func(seg string) [][]string {
		var out [][]string
		for _, d := range dels {
			if d[0] == seg {
				out = append(out, d[1:])
			}
		}
		return out
	}
	switch got.Kind() {
	case reflect.Struct:
		for i := 0; i < got.NumField(); i++ {
			sf := got.Type().Field(i)
			if sf.PkgPath != "" {
				continue
			}
			if sf.Anonymous {
				d, n := eqExcept(got.Field(i), want.Field(i), dels, at)
				located += n
				if d != "" {
					return d, located
				}
				continue
			}
			var mine [][]string
			for _, d := range dels {
				if exported(d[0]) == sf.Name {
					mine = append(mine, d[1:])
				}
			}
			d, n := eqExcept(got.Field(i), want.Field(i), mine, at+"."+sf.Name)
			located += n
			if d != "" {
				return d, located
			}
		}
	case reflect.Slice:
		if got.Len() != want.Len() {
			return fmt.Sprintf("%s: %d elements, the complete response gave %d", at, got.Len(), want.Len()), 0
		}
		for i := 0; i < got.Len(); i++ {
			d, n := eqExcept(got.Index(i), want.Index(i), sub("["+strconv.Itoa(i)+"]"), fmt.Sprintf("%s[%d]", at, i))
			located += n
			if d != "" {
				return d, located
			}
		}
	case reflect.Map:
		if got.Len() != want.Len() {
			return fmt.Sprintf("%s: %d entries, the complete response gave %d", at, got.Len(), want.Len()), 0
		}
		for _, k := range want.MapKeys() {
			g := got.MapIndex(k)
			if !g.IsValid() {
				return fmt.Sprintf("%s: entry %v lost", at, k.Interface()), located
			}
			d, n := eqExcept(g, want.MapIndex(k), sub(fmt.Sprint(k.Interface())), fmt.Sprintf("%s[%v]", at, k.Interface()))
			located += n
			if d != "" {
				return d, located
			}
		}
	default:
		if !reflect.DeepEqual(got.Interface(), want.Interface()) {
			return fmt.Sprintf("%s: got %+v, the complete response gave %+v", at, got.Interface(), want.Interface()), 0
		}
	}
	return "", located
}

func returnsEntity(r *schema.Resource, m *schema.Method) *schema.Type {
	switch {
	case m.Kind == "ACTION":
		if m.Return != nil && m.Return.Base().Kind == schema.Record {
			return m.Return
		}
	case m.Kind == "FINDER":
		return m.Return
	case m.Name == "get" || m.Name == "get_all" || m.Name == "batch_get":
		return r.Schema
	case (m.Name == "create" || m.Name == "partial_update") && m.ReturnEntity:
		return r.Schema
	}
	return nil
}

// lenientCase runs one (resource, method, deleted paths) case on one client kind.
func lenientCase(gen string, u *schema.Universe, r *schema.Resource, m *schema.Method, ent *schema.Type, paths [][]string, null, strict bool, valid *wire.Exchange, validOuts []reflect.Value) (kind, detail string) {
	var body interface{}
	dec := json.NewDecoder(bytes.NewReader(valid.Body))
	dec.UseNumber()
	if err := dec.Decode(&body); err != nil {
		report.Internal("valid response body of %s.%s is not JSON: %v", r.Name(), m.Name, err)
	}
	slots := entitySlots(m, body)
	var want []string
	for _, s := range slots {
		for _, p := range paths {
			full := append(append([]string{}, s...), p...)
			if !jsonEdit(body, full, null) {
				report.Internal("cannot edit %v in %s", full, valid.Body)
			}
			want = append(want, scopeString(full))
		}
	}
	sort.Strings(want)
	mutated, _ := json.Marshal(body)
	cfg := DefaultConfig
	cfg.Strict = strict
	w := NewWorld(u, cfg)
	w.transport.Respond = func(x *wire.Exchange) *http.Response {
		return &http.Response{StatusCode: valid.Response.StatusCode, Status: valid.Response.Status, Proto: "HTTP/1.1", ProtoMajor: 1, ProtoMinor: 1,
			Header: valid.Response.Header.Clone(), Body: io.NopCloser(bytes.NewReader(mutated)), ContentLength: int64(len(mutated))}
	}
	call, reply := buildCall(gen, r, m, "none", nil)
	outs, pan := w.Do(call, reply)
	if pan != nil {
		return "client-panic", fmt.Sprintf("response %s: %v", mutated, pan)
	}
	var callErr error
	if ev := outs[len(outs)-1]; !ev.IsNil() {
		callErr = ev.Interface().(error)
	}
	if strict {
		var mf *restlicodec.MissingRequiredFieldsError
		if callErr == nil {
			return "strict-client-no-error", fmt.Sprintf("response %s lacks %v and the strict client reported nothing", mutated, want)
		}
		if !errors.As(callErr, &mf) {
			return "strict-client-other-error", fmt.Sprintf("response %s lacks %v: %v", mutated, want, callErr)
		}
		got := append([]string{}, mf.Fields...)
		sort.Strings(got)
		if !reflect.DeepEqual(got, want) {
			return "wrong-missing-set", fmt.Sprintf("response %s: reported %v, missing %v", mutated, mf.Fields, want)
		}
	} else if callErr != nil {
		return "lenient-client-error", fmt.Sprintf("response %s lacks %v: the lenient client returned %v", mutated, want, callErr)
	}
	gs, ws := goSlots(m, outs[0]), goSlots(m, validOuts[0])
	if len(ws) == 0 {
		report.Internal("no entity found in the result of %s.%s", r.Name(), m.Name)
	}
	if strict && len(gs) == 0 {
		return "", "" // the property only promises the value to the lenient client; a strict call may return the error alone
	}
	if len(gs) != len(ws) {
		return "value-lost", fmt.Sprintf("response %s lacks %v: the client returned %d entities (result %v), the complete response gave %d", mutated, want, len(gs), describe(outs[0]), len(ws))
	}
	for i := range gs {
		d, n := eqExcept(gs[i], ws[i], paths, "entity")
		if d != "" {
			return "present-field-lost", fmt.Sprintf("response %s lacks %v: %s", mutated, want, d)
		}
		if n != len(paths) {
			report.Internal("located %d of %d deleted paths %v in %s", n, len(paths), paths, gs[i].Type())
		}
	}
	return "", ""
}

func describe(v reflect.Value) string {
	if !v.IsValid() {
		return "<invalid>"
	}
	if (v.Kind() == reflect.Ptr || v.Kind() == reflect.Map || v.Kind() == reflect.Slice) && v.IsNil() {
		return "nil " + v.Type().String()
	}
	return fmt.Sprintf("%+v", v.Interface())
}

func pathStrings(ps [][]string) []string {
	var out []string
	for _, p := range ps {
		out = append(out, scopeString(p))
	}
	return out
}

// c06wPrepare performs the complete exchange of (r, m) and lists the required paths present in
// the first entity of its response (all entities of a reply have the same shape).
func c06wPrepare(gen string, u *schema.Universe, r *schema.Resource, m *schema.Method, ent *schema.Type) (*wire.Exchange, []reflect.Value, [][]string) {
	w := NewWorld(u, DefaultConfig)
	call, reply := buildCall(gen, r, m, "none", nil)
	validOuts, pan := w.Do(call, reply)
	valid := w.transport.Last()
	if pan != nil || valid == nil || !validOuts[len(validOuts)-1].IsNil() {
		report.Internal("the complete exchange of %s.%s fails: %v %v", r.Name(), m.Name, pan, validOuts[len(validOuts)-1])
	}
	var body interface{}
	dec := json.NewDecoder(bytes.NewReader(valid.Body))
	dec.UseNumber()
	if err := dec.Decode(&body); err != nil {
		report.Internal("valid response body of %s.%s is not JSON: %q", r.Name(), m.Name, valid.Body)
	}
	slots := entitySlots(m, body)
	if len(slots) == 0 {
		report.Internal("no entity in the response of %s.%s: %s", r.Name(), m.Name, valid.Body)
	}
	// required paths of the first entity (all entities of a reply have the same shape)
	first := body
	for _, p := range slots[0] {
		if strings.HasPrefix(p, "[") {
			i, _ := strconv.Atoi(strings.Trim(p, "[]"))
			first = first.([]interface{})[i]
		} else {
			first = first.(map[string]interface{})[p]
		}
	}
	var singles [][]string
	reqPaths(ent, first, nil, func(p []string) { singles = append(singles, p) })
	if len(singles) == 0 {
		report.Internal("entity %s of %s.%s has no required field present", ent.Label(), r.Name(), m.Name)
	}
	return valid, validOuts, singles
}

// unknownFieldSites lists the JSON objects of a response body that are records or envelopes (not maps keyed by
// entity keys): the body itself, "paging", "metadata", every element of "elements", every value of "results" /
// "errors", "error" objects below them.
func unknownFieldSites(m *schema.Method, body interface{}) [][]string {
	obj, ok := body.(map[string]interface{})
	if !ok {
		return nil
	}
	sites := [][]string{{}}
	for _, k := range []string{"paging", "metadata"} {
		if _, ok := obj[k].(map[string]interface{}); ok {
			sites = append(sites, []string{k})
		}
	}
	if arr, ok := obj["elements"].([]interface{}); ok {
		for i, e := range arr {
			if eo, ok := e.(map[string]interface{}); ok {
				sites = append(sites, []string{"elements", "[" + strconv.Itoa(i) + "]"})
				if _, ok := eo["error"].(map[string]interface{}); ok {
					sites = append(sites, []string{"elements", "[" + strconv.Itoa(i) + "]", "error"})
				}
			}
		}
	}
	for _, mk := range []string{"results", "errors"} {
		if mp, ok := obj[mk].(map[string]interface{}); ok {
			var ks []string
			for k := range mp {
				ks = append(ks, k)
			}
			sort.Strings(ks)
			for _, k := range ks {
				if _, ok := mp[k].(map[string]interface{}); ok {
					sites = append(sites, []string{mk, k})
				}
			}
		}
	}
	return sites
}

// canonGo renders a Go value by content: pointers are followed (result maps of complex-key resources are keyed by
// the caller's key pointers), map entries sorted by their rendered key.
func canonGo(v reflect.Value) string {
	if !v.IsValid() {
		return "<invalid>"
	}
	switch v.Kind() {
	case reflect.Ptr, reflect.Interface:
		if v.IsNil() {
			return "nil"
		}
		return "&" + canonGo(v.Elem())
	case reflect.Struct:
		var parts []string
		for i := 0; i < v.NumField(); i++ {
			if v.Type().Field(i).PkgPath != "" {
				continue
			}
			parts = append(parts, v.Type().Field(i).Name+":"+canonGo(v.Field(i)))
		}
		return "{" + strings.Join(parts, " ") + "}"
	case reflect.Slice, reflect.Array:
		if v.Kind() == reflect.Slice && v.IsNil() {
			return "nil[]"
		}
		var parts []string
		for i := 0; i < v.Len(); i++ {
			parts = append(parts, canonGo(v.Index(i)))
		}
		return "[" + strings.Join(parts, " ") + "]"
	case reflect.Map:
		if v.IsNil() {
			return "nilmap"
		}
		var parts []string
		for _, k := range v.MapKeys() {
			parts = append(parts, canonGo(k)+"=>"+canonGo(v.MapIndex(k)))
		}
		sort.Strings(parts)
		return "map[" + strings.Join(parts, " ") + "]"
	}
	return fmt.Sprintf("%#v", v.Interface())
}

func jsonObjectAt(root interface{}, path []string) map[string]interface{} {
	cur := root
	for _, p := range path {
		if strings.HasPrefix(p, "[") {
			i, _ := strconv.Atoi(strings.Trim(p, "[]"))
			cur = cur.([]interface{})[i]
		} else {
			cur = cur.(map[string]interface{})[p]
		}
	}
	o, _ := cur.(map[string]interface{})
	return o
}

// unknownFieldCase: the complete response with an unknown field of the given shape added to one record / envelope
// object must give the client exactly what the complete response gives it.
func unknownFieldCase(gen string, u *schema.Universe, r *schema.Resource, m *schema.Method, site []string, shape string, strict bool, valid *wire.Exchange, validOuts []reflect.Value) (kind, detail string) {
	var body interface{}
	dec := json.NewDecoder(bytes.NewReader(valid.Body))
	dec.UseNumber()
	if err := dec.Decode(&body); err != nil {
		return "", ""
	}
	o := jsonObjectAt(body, site)
	if o == nil {
		report.Internal("no object at %v in %s", site, valid.Body)
	}
	var extra interface{}
	if err := json.Unmarshal([]byte(shape), &extra); err != nil {
		report.Internal("bad shape %s", shape)
	}
	o["zzUnknown"] = extra
	o["$aaUnknown"] = extra
	mutated, _ := json.Marshal(body)
	cfg := DefaultConfig
	cfg.Strict = strict
	w := NewWorld(u, cfg)
	w.transport.Respond = func(x *wire.Exchange) *http.Response {
		return &http.Response{StatusCode: valid.Response.StatusCode, Status: valid.Response.Status, Proto: "HTTP/1.1", ProtoMajor: 1, ProtoMinor: 1,
			Header: valid.Response.Header.Clone(), Body: io.NopCloser(bytes.NewReader(mutated)), ContentLength: int64(len(mutated))}
	}
	call, reply := buildCall(gen, r, m, "none", nil)
	outs, pan := w.Do(call, reply)
	if pan != nil {
		return "client-panic", fmt.Sprintf("response %s: %v", mutated, pan)
	}
	if ev := outs[len(outs)-1]; !ev.IsNil() {
		return "unknown-field-refused", fmt.Sprintf("response %s (unknown fields added at %q): %v", mutated, scopeString(site), ev.Interface())
	}
	for i := 0; i < len(outs)-1; i++ {
		if canonGo(outs[i]) != canonGo(validOuts[i]) {
			return "unknown-field-disturbs", fmt.Sprintf("response %s (unknown fields added at %q): the client returned %s, the complete response gave %s", mutated, scopeString(site), canonGo(outs[i]), canonGo(validOuts[i]))
		}
	}
	return "", ""
}

func partC06WUnknown(a *hcli.Args, rep *report.Report, univName string, u *schema.Universe) {
	s := rep.S("unknown-envelope-fields")
	shapes := []string{`7`, `"s"`, `null`, `{"a":{"b":[1,{"c":null}]},"d":"e"}`, `[1,[2,[3]],{"k":"v"}]`, `{}`, `[]`}
	item, nm := 0, 0
	for _, r := range u.Resources {
		if len(r.ReadOnly)+len(r.CreateOnly) > 0 {
			continue
		}
		for _, m := range r.Methods {
			item++
			if !a.Mine(item) {
				continue
			}
			w := NewWorld(u, DefaultConfig)
			call, reply := buildCall(a.Gen, r, m, "none", nil)
			validOuts, pan := w.Do(call, reply)
			valid := w.transport.Last()
			if pan != nil || valid == nil || !validOuts[len(validOuts)-1].IsNil() || len(valid.Body) == 0 {
				continue
			}
			var body interface{}
			dec := json.NewDecoder(bytes.NewReader(valid.Body))
			dec.UseNumber()
			if dec.Decode(&body) != nil {
				continue
			}
			nm++
			s.States++
			for _, site := range unknownFieldSites(m, body) {
				for _, shape := range shapes {
					for _, strict := range []bool{false, true} {
						kind, detail := unknownFieldCase(a.Gen, u, r, m, site, shape, strict, valid, validOuts)
						s.Evaluations++
						s.Transitions++
						s.Traces++
						if kind != "" {
							where := "body"
							if len(site) > 0 {
								where = site[0]
							}
							rep.Fail(fmt.Sprintf("%s wire-unknown %s %s %s at=%s", a.Gen, kind, resourceKind(r), ClientMethod(m), where),
								fmt.Sprintf("%s.%s %s", r.Name(), ClientMethod(m), detail),
								lenientReplay{a.Gen, "C06W", univName, r.Namespace, m.Name, []string{"unknown@" + scopeString(site), shape}, false, strict})
							s.Class("fail:" + kind)
						} else {
							s.Class("ok:" + ClientMethod(m))
						}
					}
				}
			}
		}
	}
	s.Bounds = fmt.Sprintf("every method whose response has a JSON body x every record / envelope object of it (body, paging, metadata, each element, each results / errors value, error objects) x %d shapes of unknown field (added under two names sorting first and last) x {lenient, strict} client: the call must succeed and return exactly what the complete response gives", len(shapes))
}

func partC06W(a *hcli.Args, rep *report.Report, univName string, u *schema.Universe) {
	s := rep.S("lenient-client")
	item := 0
	nres, nmeth := 0, 0
	for _, r := range u.Resources {
		nres++
		for _, m := range r.Methods {
			ent := returnsEntity(r, m)
			if ent == nil {
				continue
			}
			nmeth++
			item++
			if !a.Mine(item) {
				continue
			}
			valid, validOuts, singles := c06wPrepare(a.Gen, u, r, m, ent)
			type variant struct {
				paths [][]string
				null  bool
			}
			var vs []variant
			for _, p := range singles {
				vs = append(vs, variant{[][]string{p}, false}, variant{[][]string{p}, true})
			}
			for i := range singles {
				for j := i + 1; j < len(singles); j++ {
					// a pair where one path is below the other is the same document as the shorter one alone
					if strings.HasPrefix(scopeString(singles[j]), scopeString(singles[i])) || strings.HasPrefix(scopeString(singles[i]), scopeString(singles[j])) {
						continue
					}
					if !a.Thorough() && j > i+3 {
						continue
					}
					vs = append(vs, variant{[][]string{singles[i], singles[j]}, false})
				}
			}
			for _, v := range vs {
				for _, strict := range []bool{false, true} {
					kind, detail := lenientCase(a.Gen, u, r, m, ent, v.paths, v.null, strict, valid, validOuts)
					s.Evaluations++
					s.Transitions++
					s.Traces++
					s.States++
					if kind != "" {
						mode := "lenient"
						if strict {
							mode = "strict"
						}
						rep.Fail(fmt.Sprintf("%s wire-missing %s %s %s client=%s", a.Gen, kind, resourceKind(r), ClientMethod(m), mode),
							fmt.Sprintf("%s.%s %s", r.Name(), ClientMethod(m), detail),
							lenientReplay{a.Gen, "C06W", univName, r.Namespace, m.Name, pathStrings(v.paths), v.null, strict})
						s.Class("fail:" + kind)
					} else {
						s.Class(fmt.Sprintf("ok:%s:strict=%v:n=%d:null=%v", ClientMethod(m), strict, len(v.paths), v.null))
					}
				}
			}
		}
	}
	partC06WUnknown(a, rep, univName, u)
	s.Bounds = fmt.Sprintf("%d resources, %d methods answering with an entity; per method every required path present in the entity deleted and nulled, every pair deleted (quick: neighbouring pairs); each on a lenient and a strict client", nres, nmeth)
	rep.Sample(map[string]interface{}{"case": "get with a required field deleted from the response", "lenient": "value with the other fields, no error", "strict": "same value + MissingRequiredFieldsError{that path}"})
}
