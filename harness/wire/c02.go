package main

import (
	"fmt"
	"reflect"
	"sort"
	"strings"

	"verif/mc/hcli"
	"verif/mc/report"
	"verif/mc/schema"
)

// keyAlphabet: values of a key type, base first, each labelled.
func keyAlphabet(t *schema.Type, reduced bool) []*schema.V {
	if t.ComplexKey == nil {
		var out []*schema.V
		for _, v := range schema.Alphabet(t, reduced) {
			if !v.HasNaN() { // NaN never equals itself: it is not a key value
				out = append(out, v)
			}
		}
		return out
	}
	ck := t.ComplexKey
	var out []*schema.V
	for _, kv := range schema.Alphabet(ck.Key, true) {
		v := &schema.V{T: t, Fields: map[string]*schema.V{}}
		for n, f := range kv.Fields {
			v.Fields[n] = f
		}
		out = append(out, v.D("ckey:%s", kv.Dev))
		if kv.Dev == "base" {
			p := v.Clone()
			p.Fields["$params"] = schema.Rich(ck.Params)
			out = append(out, p.D("ckey:with-params"))
		}
	}
	return out
}

// keyPartEqual: key equality (complex keys compare by their key part only).
func keyPartEqual(a, b *schema.V) bool {
	if a.T.ComplexKey == nil {
		return schema.Equal(a, b)
	}
	ca, cb := a.Clone(), b.Clone()
	delete(ca.Fields, "$params")
	delete(cb.Fields, "$params")
	return schema.Equal(ca, cb)
}

// otherKey picks a key of type t that differs (as a key) from every key in avoid.
func otherKey(t *schema.Type, avoid ...*schema.V) *schema.V {
	for _, k := range keyAlphabet(t, true) {
		ok := true
		for _, a := range avoid {
			if keyPartEqual(k, a) {
				ok = false
			}
		}
		if ok {
			return k
		}
	}
	panic("no other key")
}

func replyEntity(t *schema.Type, tag string) *schema.V {
	v := schema.Rich(t)
	// make replies distinguishable from requests
	for _, f := range t.AllFields() {
		if f.Type.Kind == schema.String && v.Fields[f.Name] != nil {
			v.Fields[f.Name] = schema.VS(f.Type, "reply-"+tag+" (:,')%é")
			break
		}
	}
	return v
}

type e2eReplay struct {
	Gen    string `json:"gen"`
	Part   string `json:"part"`
	Univ   string `json:"universe"`
	Res    string `json:"resource"`
	Method string `json:"method"`
	Pos    string `json:"position"`
	Dev    string `json:"dev"`
	Cfg    Config `json:"config"`
}

// argument positions of a method that can deviate
type argPos struct {
	name  string
	alpha []*schema.V
}

// buildCall assembles the call with all-default arguments, then applies (pos, value).
func buildCall(gen string, r *schema.Resource, m *schema.Method, pos string, val *schema.V) (*Call, *Reply) {
	c := &Call{Res: r, M: m}
	for _, kt := range pathKeyTypes(r, m) {
		c.Keys = append(c.Keys, keyAlphabet(kt, true)[0])
	}
	rep := &Reply{}
	ownKey := ownKeyType(r)
	if strings.HasPrefix(pos, "key") {
		var i int
		fmt.Sscanf(pos, "key%d", &i)
		c.Keys[i] = val
	}
	if m.Kind == "REST_METHOD" {
		if pt := ParamsType(m, gen); len(pt.Fields) > 0 {
			c.Params = schema.Base(pt)
			if strings.HasPrefix(pos, "param:") {
				c.Params = c.Params.With(strings.TrimPrefix(pos, "param:"), val)
			}
		}
	}
	switch {
	case m.Kind == "FINDER":
		pt := ParamsType(m, gen)
		if len(pt.Fields) > 0 {
			c.Params = schema.Base(pt)
			if strings.HasPrefix(pos, "param:") {
				c.Params = c.Params.With(strings.TrimPrefix(pos, "param:"), val)
			}
		}
		rep.Elements = []*schema.V{replyEntity(m.Return, "1"), replyEntity(m.Return, "2")}
		if m.Metadata != nil {
			rep.Metadata = schema.Rich(m.Metadata)
			t := int32(7)
			rep.Total = &t
			if pos == "reply-paging" && val != nil && !val.B {
				rep.Total = nil // metadata without a paging block
			}
			if pos == "reply-elements" && val != nil && !val.B {
				rep.Elements = []*schema.V{} // metadata with no elements at all
			}
		}
	case m.Kind == "ACTION":
		pt := ParamsType(m, gen)
		if len(pt.Fields) > 0 {
			c.Params = schema.Base(pt)
			if strings.HasPrefix(pos, "param:") {
				c.Params = c.Params.With(strings.TrimPrefix(pos, "param:"), val)
			}
		}
		if m.Return != nil {
			if m.Return.Kind == schema.Record {
				rep.Entity = replyEntity(m.Return, "a")
			} else {
				rep.Entity = schema.Alphabet(m.Return, true)[1]
			}
			if pos == "result" {
				rep.Entity = val
			}
		}
	case m.Name == "get":
		rep.Entity = replyEntity(r.Schema, "g")
		if pos == "result" {
			rep.Entity = val
		}
	case m.Name == "create":
		c.Entity = schema.Base(r.Schema)
		if pos == "entity" {
			c.Entity = val
		}
		rep.Created = &CreatedV{Id: keyAlphabet(ownKey, true)[0]}
		if pos == "created-id" {
			rep.Created.Id = val
		}
		if pos == "created-status" {
			rep.Created.Status = int(val.I)
		}
		if m.ReturnEntity {
			rep.Created.Entity = replyEntity(r.Schema, "c")
		}
	case m.Name == "update":
		c.Entity = schema.Base(r.Schema)
		if pos == "entity" {
			c.Entity = val
		}
	case m.Name == "partial_update":
		c.Patch = &Patch{T: r.Schema, Set: map[string]*schema.V{}}
		f := r.Schema.AllFields()[1]
		c.Patch.Set[f.Name] = schema.Base(f.Type)
		if pos == "patch-set" {
			c.Patch.Set[f.Name] = val
		}
		if pos == "patch-shape" {
			c.Patch = shapedPatch(r.Schema, val.S)
		}
		if m.ReturnEntity {
			rep.Entity = replyEntity(r.Schema, "p")
		}
	case m.Name == "delete":
	case m.Name == "get_all":
		rep.Elements = []*schema.V{replyEntity(r.Schema, "1"), replyEntity(r.Schema, "2")}
	case m.Name == "batch_get" || m.Name == "batch_delete":
		ka := keyAlphabet(ownKey, true)
		c.BatchKeys = []*schema.V{ka[0], otherKey(ownKey, ka[0])}
		if pos == "batch-key" {
			c.BatchKeys[0] = val
			c.BatchKeys[1] = otherKey(ownKey, val)
		}
		if pos == "batch-size" {
			// (no key at all is a call like any other: it reaches the resource, which may have its own opinion)
			c.BatchKeys = c.BatchKeys[:map[string]int{"none": 0, "one": 1, "two": 2}[val.S]]
		}
		for i, k := range c.BatchKeys {
			e := &BatchEntry{K: k, Has: map[string]bool{"results": true}, Status: 204}
			if m.Name == "batch_get" {
				e.Result = replyEntity(r.Schema, fmt.Sprint(i))
			}
			rep.Batch = append(rep.Batch, e)
		}
	case m.Name == "batch_create":
		c.Entities = []*schema.V{schema.Base(r.Schema), schema.Rich(r.Schema)}
		if pos == "entity" {
			c.Entities[0] = val
		}
		ka := keyAlphabet(ownKey, true)
		for i := range c.Entities {
			cr := &CreatedV{Id: ka[i%len(ka)], Status: 201}
			if pos == "created-id" && i == 0 {
				cr.Id = val
			}
			if m.ReturnEntity {
				cr.Entity = replyEntity(r.Schema, fmt.Sprint(i))
			}
			rep.CreatedList = append(rep.CreatedList, cr)
		}
	case m.Name == "batch_update" || m.Name == "batch_partial_update":
		ka := keyAlphabet(ownKey, true)
		ks := []*schema.V{ka[0], otherKey(ownKey, ka[0])}
		if pos == "batch-key" {
			ks[0] = val
			ks[1] = otherKey(ownKey, val)
		}
		if pos == "batch-size" {
			ks = ks[:map[string]int{"none": 0, "one": 1, "two": 2}[val.S]]
		}
		for i, k := range ks {
			kv := KV{K: k}
			if m.Name == "batch_update" {
				kv.V = schema.Base(r.Schema)
				if pos == "entity" && i == 0 {
					kv.V = val
				}
			} else {
				f := r.Schema.AllFields()[1]
				kv.P = &Patch{T: r.Schema, Set: map[string]*schema.V{f.Name: schema.Base(f.Type)}}
				if pos == "patch-shape" && i == 0 {
					kv.P = shapedPatch(r.Schema, val.S)
				}
			}
			c.Keyed = append(c.Keyed, kv)
			rep.Batch = append(rep.Batch, &BatchEntry{K: k, Has: map[string]bool{"results": true}, Status: 204})
		}
	}
	return c, rep
}

// canonicalQuery: the query of the request just sent lists its parameters in strictly ascending byte order of their
// names, and the items of ids in ascending order of their encoded form.
func canonicalQuery(w *World) (kind, detail string) {
	l := w.transport.Last()
	if l == nil || l.ServerReq == nil {
		return "", "" // refused before sending: nothing to judge
	}
	raw := l.ServerReq.URL.RawQuery
	if raw == "" {
		return "", ""
	}
	var names []string
	for _, part := range strings.Split(raw, "&") {
		names = append(names, strings.SplitN(part, "=", 2)[0])
	}
	for i := 1; i < len(names); i++ {
		if names[i-1] >= names[i] {
			return "params-not-ascending", fmt.Sprintf("query %q: parameter %q comes before %q", raw, names[i-1], names[i])
		}
	}
	if ids, err := idsOnWire(w); err == nil && !sort.StringsAreSorted(ids) {
		return "ids-not-ascending", fmt.Sprintf("query %q: ids %q are not in ascending encoded order", raw, ids)
	}
	return "", ""
}

// patchShapes: patches that mix sections ($set with $delete, several of each), as alphabet of the patch-shape position.
func batchSizes() []*schema.V {
	var out []*schema.V
	for _, n := range []string{"two", "none", "one"} { // (the first element stands for the default call)
		out = append(out, schema.VS(schema.P(schema.String), n).D("keys:%s", n))
	}
	return out
}

func patchShapes() []*schema.V {
	var out []*schema.V
	for _, n := range []string{"set", "delete", "set+delete", "delete+set-later-field", "two-sets+two-deletes"} {
		out = append(out, schema.VS(schema.P(schema.String), n).D("patch:%s", n))
	}
	return out
}

func shapedPatch(t *schema.Type, shape string) *Patch {
	p := &Patch{T: t, Set: map[string]*schema.V{}}
	var req, opt []*schema.Field
	for _, f := range t.AllFields() {
		if f.Optional {
			opt = append(opt, f)
		} else {
			req = append(req, f)
		}
	}
	set := func(f *schema.Field) { p.Set[f.Name] = schema.Base(f.Type) }
	switch shape {
	case "set":
		set(req[len(req)-1])
	case "delete":
		p.Delete = []string{opt[0].Name}
	case "set+delete":
		set(req[0])
		p.Delete = []string{opt[len(opt)-1].Name}
	case "delete+set-later-field":
		p.Delete = []string{opt[0].Name}
		set(opt[len(opt)-1])
	case "two-sets+two-deletes":
		set(req[0])
		set(req[len(req)-1])
		p.Delete = []string{opt[0].Name, opt[1].Name}
	}
	return p
}

// positions lists the deviating argument positions of (r, m) with their alphabets.
func positions(gen string, r *schema.Resource, m *schema.Method, full bool) []argPos {
	var ps []argPos
	kts := pathKeyTypes(r, m)
	for i, kt := range kts {
		// the full string alphabet on the entity key of get; reduced elsewhere
		red := !(full && m.Name == "get" && i == len(kts)-1)
		ps = append(ps, argPos{fmt.Sprintf("key%d", i), keyAlphabet(kt, red)})
	}
	ownKey := ownKeyType(r)
	if m.Kind == "REST_METHOD" {
		for _, f := range ParamsType(m, gen).Fields {
			ps = append(ps, argPos{"param:" + f.Name, schema.FieldAlphabet(f, true)})
		}
	}
	switch {
	case m.Kind != "REST_METHOD":
		for _, f := range ParamsType(m, gen).Fields {
			red := !(full && f.Type.Kind == schema.String && (m.Name == "byS" || m.Name == "resWithResult"))
			ps = append(ps, argPos{"param:" + f.Name, schema.FieldAlphabet(f, red)})
		}
		if m.Kind == "ACTION" && m.Return != nil {
			ps = append(ps, argPos{"result", schema.Alphabet(m.Return, true)})
		}
		if m.Kind == "FINDER" && m.Metadata != nil {
			b := schema.P(schema.Bool)
			ps = append(ps, argPos{"reply-paging", []*schema.V{schema.VB(b, true).D("paging:present"), schema.VB(b, false).D("paging:absent")}},
				argPos{"reply-elements", []*schema.V{schema.VB(b, true).D("elements:two"), schema.VB(b, false).D("elements:none")}})
		}
	case m.Name == "get":
		ps = append(ps, argPos{"result", schema.Alphabet(r.Schema, true)})
	case m.Name == "create":
		i32 := schema.P(schema.Int32)
		ps = append(ps, argPos{"entity", schema.Alphabet(r.Schema, true)}, argPos{"created-id", keyAlphabet(ownKey, !full)},
			argPos{"created-status", []*schema.V{schema.VI(i32, 201).D("status:201"), schema.VI(i32, 200).D("status:200"), schema.VI(i32, 202).D("status:202")}})
	case m.Name == "update":
		ps = append(ps, argPos{"entity", schema.Alphabet(r.Schema, true)})
	case m.Name == "partial_update":
		ps = append(ps, argPos{"patch-set", schema.Alphabet(r.Schema.AllFields()[1].Type, true)})
		ps = append(ps, argPos{"patch-shape", patchShapes()})
	case m.Name == "batch_get" || m.Name == "batch_delete":
		ps = append(ps, argPos{"batch-key", keyAlphabet(ownKey, true)}, argPos{"batch-size", batchSizes()})
	case m.Name == "batch_create":
		ps = append(ps, argPos{"entity", schema.Alphabet(r.Schema, true)}, argPos{"created-id", keyAlphabet(ownKey, true)})
	case m.Name == "batch_update":
		ps = append(ps, argPos{"batch-key", keyAlphabet(ownKey, true)}, argPos{"entity", schema.Alphabet(r.Schema, true)}, argPos{"batch-size", batchSizes()})
	case m.Name == "batch_partial_update":
		ps = append(ps, argPos{"batch-key", keyAlphabet(ownKey, true)}, argPos{"patch-shape", patchShapes()}, argPos{"batch-size", batchSizes()})
	}
	return ps
}

// verify compares what the mock recorded and what the client returned with the call and reply.
func (w *World) verify(gen string, c *Call, r *Reply, outs []reflect.Value, panicked interface{}) (kind, detail string) {
	name := ClientMethod(c.M)
	if panicked != nil {
		return "client-panic", fmt.Sprint(panicked)
	}
	if last := w.transport.Last(); last != nil && last.Panic != nil {
		return "server-panic-escaped", fmt.Sprint(last.Panic)
	}
	errV := outs[len(outs)-1]
	var callErr error
	if !errV.IsNil() {
		callErr = errV.Interface().(error)
	}
	if len(w.calls) == 0 {
		st := 0
		if l := w.transport.Last(); l != nil && l.Response != nil {
			st = l.Response.StatusCode
		}
		return "not-delivered", fmt.Sprintf("no resource method was invoked (status %d, client error: %v)%s", st, callErr, w.wireSummary())
	}
	if len(w.calls) > 1 {
		var ns []string
		for _, rc := range w.calls {
			ns = append(ns, rc.res+":"+rc.method)
		}
		return "multiple-invocations", strings.Join(ns, ", ")
	}
	rc := w.calls[0]
	if rc.res != c.Res.Namespace || rc.method != "Mock"+name {
		return "wrong-method", fmt.Sprintf("invoked %s:%s instead of %s:Mock%s", rc.res, rc.method, c.Res.Namespace, name)
	}
	// ---- arguments as seen by the resource
	idx := 0
	kts := pathKeyTypes(c.Res, c.M)
	for i, k := range c.Keys {
		got := fromGo(rc.args[idx], kts[i])
		if !schema.Equal(got, k) {
			return "key-altered", fmt.Sprintf("path key %d arrived as %s, sent %s%s", i, got, k, w.wireSummary())
		}
		idx++
	}
	ownKey := ownKeyType(c.Res)
	switch {
	case c.M.Kind != "REST_METHOD":
		if c.Params != nil {
			got := fromGo(rc.args[idx], c.Params.T)
			if !schema.Equal(got, c.Params) {
				return "params-altered", fmt.Sprintf("parameters arrived as %s, sent %s%s", got, c.Params, w.wireSummary())
			}
		}
	case c.M.Name == "create" || c.M.Name == "update":
		got := fromGo(rc.args[idx], c.Res.Schema)
		if !schema.Equal(got, c.Entity) {
			return "body-altered", fmt.Sprintf("entity arrived as %s, sent %s%s", got, c.Entity, w.wireSummary())
		}
	case c.M.Name == "partial_update":
		got := patchFromGo(rc.args[idx], c.Res.Schema)
		if !patchEqual(got, c.Patch) {
			return "body-altered", fmt.Sprintf("patch arrived as %s, sent %s%s", got, c.Patch, w.wireSummary())
		}
	case c.M.Name == "batch_get" || c.M.Name == "batch_delete":
		sl := rc.args[idx]
		if sl.Len() != len(c.BatchKeys) {
			return "keys-altered", fmt.Sprintf("%d keys arrived, sent %d%s", sl.Len(), len(c.BatchKeys), w.wireSummary())
		}
		for _, k := range c.BatchKeys {
			found := false
			for i := 0; i < sl.Len(); i++ {
				if schema.Equal(fromGo(sl.Index(i), ownKey), k) {
					found = true
				}
			}
			if !found {
				return "keys-altered", fmt.Sprintf("key %s did not arrive%s", k, w.wireSummary())
			}
		}
	case c.M.Name == "batch_create":
		sl := rc.args[idx]
		if sl.Len() != len(c.Entities) {
			return "body-altered", fmt.Sprintf("%d entities arrived, sent %d", sl.Len(), len(c.Entities))
		}
		for i, e := range c.Entities {
			if got := fromGo(sl.Index(i), c.Res.Schema); !schema.Equal(got, e) {
				return "body-altered", fmt.Sprintf("entity %d arrived as %s, sent %s%s", i, got, e, w.wireSummary())
			}
		}
	case c.M.Name == "batch_update" || c.M.Name == "batch_partial_update":
		mp := rc.args[idx]
		if mp.Len() != len(c.Keyed) {
			return "keys-altered", fmt.Sprintf("%d entries arrived, sent %d%s", mp.Len(), len(c.Keyed), w.wireSummary())
		}
		for _, kv := range c.Keyed {
			found := false
			it := mp.MapRange()
			for it.Next() {
				if !schema.Equal(fromGo(it.Key(), ownKey), kv.K) {
					continue
				}
				found = true
				if kv.P != nil {
					if got := patchFromGo(it.Value(), c.Res.Schema); !patchEqual(got, kv.P) {
						return "body-altered", fmt.Sprintf("patch for %s arrived as %s, sent %s", kv.K, got, kv.P)
					}
				} else if got := fromGo(it.Value(), c.Res.Schema); !schema.Equal(got, kv.V) {
					return "body-altered", fmt.Sprintf("entity for %s arrived as %s, sent %s%s", kv.K, got, kv.V, w.wireSummary())
				}
			}
			if !found {
				return "keys-altered", fmt.Sprintf("entry for key %s did not arrive%s", kv.K, w.wireSummary())
			}
		}
	}
	if c.M.Kind == "REST_METHOD" && c.Params != nil {
		last := rc.args[len(rc.args)-1]
		if last.Kind() == reflect.Ptr && last.IsNil() {
			return "params-altered", fmt.Sprintf("the resource received nil query parameters, sent %s%s", c.Params, w.wireSummary())
		}
		if got := fromGo(last, c.Params.T); !schema.Equal(got, c.Params) {
			return "params-altered", fmt.Sprintf("parameters arrived as %s, sent %s%s", got, c.Params, w.wireSummary())
		}
	}
	// ---- results as seen by the caller
	if callErr != nil {
		return "client-error", fmt.Sprintf("the resource method succeeded but the client call returned: %v%s", callErr, w.wireSummary())
	}
	if len(outs) == 1 {
		return "", ""
	}
	o := outs[0]
	switch {
	case c.M.Kind == "ACTION":
		if r.Entity != nil {
			if got := fromGo(o, c.M.Return); !schema.Equal(got, r.Entity) {
				return "result-altered", fmt.Sprintf("action result %s, resource returned %s%s", got, r.Entity, w.wireSummary())
			}
		}
	case c.M.Kind == "FINDER" || c.M.Name == "get_all":
		entT := c.Res.Schema
		if c.M.Return != nil {
			entT = c.M.Return
		}
		els, total, meta := readElements(o, entT, c.M.Metadata)
		if len(els) != len(r.Elements) {
			return "result-altered", fmt.Sprintf("%d elements, resource returned %d", len(els), len(r.Elements))
		}
		for i := range els {
			if !schema.Equal(els[i], r.Elements[i]) {
				return "result-altered", fmt.Sprintf("element %d is %s, resource returned %s", i, els[i], r.Elements[i])
			}
		}
		if r.Total != nil && (total == nil || *total != *r.Total) {
			return "result-altered", fmt.Sprintf("paging total %v, resource returned %d", total, *r.Total)
		}
		if r.Metadata != nil && !schema.Equal(meta, r.Metadata) {
			return "result-altered", fmt.Sprintf("metadata %s, resource returned %s", meta, r.Metadata)
		}
	case c.M.Name == "get" || c.M.Name == "partial_update":
		if got := fromGo(o, c.Res.Schema); !schema.Equal(got, r.Entity) {
			return "result-altered", fmt.Sprintf("entity %s, resource returned %s%s", got, r.Entity, w.wireSummary())
		}
	case c.M.Name == "create":
		got := readCreated(o, ownKey, c.Res.Schema)
		if got == nil {
			return "result-altered", "nil created entity"
		}
		if !schema.Equal(got.Id, r.Created.Id) {
			return "created-id-altered", fmt.Sprintf("created id %s, resource returned %s%s", got.Id, r.Created.Id, w.wireSummary())
		}
		wantStatus := r.Created.Status
		if wantStatus == 0 {
			wantStatus = 201
		}
		if got.Status != wantStatus {
			return "status-altered", fmt.Sprintf("created status %d, want %d", got.Status, wantStatus)
		}
		if r.Created.Entity != nil && !schema.Equal(got.Entity, r.Created.Entity) {
			return "result-altered", fmt.Sprintf("returned entity %s, resource returned %s", got.Entity, r.Created.Entity)
		}
	case c.M.Name == "batch_create":
		if o.Len() != len(r.CreatedList) {
			return "result-altered", fmt.Sprintf("%d created entities, resource returned %d", o.Len(), len(r.CreatedList))
		}
		for i, cr := range r.CreatedList {
			got := readCreated(o.Index(i), ownKey, c.Res.Schema)
			if got == nil || !schema.Equal(got.Id, cr.Id) {
				return "created-id-altered", fmt.Sprintf("created id %d is %v, resource returned %s%s", i, got, cr.Id, w.wireSummary())
			}
			if got.Status != cr.Status {
				return "status-altered", fmt.Sprintf("created status %d is %d, want %d", i, got.Status, cr.Status)
			}
			if cr.Entity != nil && !schema.Equal(got.Entity, cr.Entity) {
				return "result-altered", fmt.Sprintf("returned entity %d is %s, resource returned %s", i, got.Entity, cr.Entity)
			}
		}
	case strings.HasPrefix(c.M.Name, "batch_"):
		results, _, _ := readBatch(o)
		if len(results) != len(r.Batch) {
			return "result-altered", fmt.Sprintf("%d results, resource returned %d%s", len(results), len(r.Batch), w.wireSummary())
		}
		for _, e := range r.Batch {
			found := false
			for k, rv := range results {
				if !schema.Equal(fromGo(reflect.ValueOf(k), ownKey), e.K) {
					continue
				}
				found = true
				if e.Result != nil {
					if got := fromGo(rv, c.Res.Schema); !schema.Equal(got, e.Result) {
						return "result-altered", fmt.Sprintf("result for %s is %s, resource returned %s", e.K, got, e.Result)
					}
				} else if st := int(rv.Elem().FieldByName("Status").Int()); st != e.Status {
					return "status-altered", fmt.Sprintf("status for %s is %d, resource returned %d", e.K, st, e.Status)
				}
			}
			if !found {
				return "result-altered", fmt.Sprintf("no result under key %s%s", e.K, w.wireSummary())
			}
		}
	}
	return "", ""
}

func (w *World) wireSummary() string {
	l := w.transport.Last()
	if l == nil {
		return "\n (nothing was sent)"
	}
	req := string(l.RawRequest)
	if len(req) > 500 {
		req = req[:500] + "..."
	}
	st := 0
	if l.Response != nil {
		st = l.Response.StatusCode
	}
	body := string(l.Body)
	if len(body) > 300 {
		body = body[:300] + "..."
	}
	return fmt.Sprintf("\n wire request: %q\n wire response: %d %q", req, st, body)
}

func resourceKind(r *schema.Resource) string {
	s := r.Segments[len(r.Segments)-1]
	k := "simple"
	if s.KeyName != "" {
		k = "collection<" + s.KeyType.Label() + ">"
	} else if r.Schema == nil {
		k = "actionset"
	}
	if len(r.Segments) > 1 {
		k = fmt.Sprintf("sub%d:", len(r.Segments)-1) + k
	}
	return k
}

// c02Configs lists the configurations of the end-to-end sweep; the first one takes the full
// alphabets. Part C02 sweeps all of them, C14W the tunnelling ones and C15W the resolver bases.
func c02Configs(part string) []Config {
	cfgs := []Config{DefaultConfig}
	var tunnel, bases []Config
	for _, th := range []int{1, 1000000} {
		c := DefaultConfig
		c.Threshold = th
		cfgs = append(cfgs, c)
		tunnel = append(tunnel, c)
	}
	c := DefaultConfig
	c.Strict = false
	cfgs = append(cfgs, c)
	for _, b := range []string{"http://h/ctx", "http://h/ctx/", "https://h:8443/a/b"} {
		c := DefaultConfig
		c.Base = b
		cfgs = append(cfgs, c)
		bases = append(bases, c)
	}
	for _, mnt := range []string{"mux", "prefix"} {
		c := DefaultConfig
		c.Mounting = mnt
		cfgs = append(cfgs, c)
	}
	// context paths that end in a resource name: the name of a sub-resource (nothing special), and the name of
	// the root resource (the deployment path is the context path without it)
	for _, b := range []string{"http://h/ctx/subColl", "http://h/underSimple/"} {
		c := DefaultConfig
		c.Base = b
		cfgs = append(cfgs, c)
		bases = append(bases, c)
	}
	for _, br := range [][2]string{{"http://h/ctx/cString", "cString"}, {"http://h/sRoot/", "sRoot"}} {
		c := DefaultConfig
		c.Base, c.Root = br[0], br[1]
		cfgs = append(cfgs, c)
		bases = append(bases, c)
	}
	switch part {
	case "C09W":
		return []Config{DefaultConfig}
	case "C14W":
		c := DefaultConfig
		c.Threshold = 40 // some queries of the sweep are longer, some shorter
		return append(tunnel, c)
	case "C15W":
		return bases
	}
	return cfgs
}

func partC02(a *hcli.Args, rep *report.Report, univName string, u *schema.Universe) {
	s := rep.S(map[string]string{"C02": "end-to-end", "C14W": "end-to-end-tunnelled", "C15W": "end-to-end-bases", "C09W": "request-queries-canonical"}[a.Part])
	cfgs := c02Configs(a.Part)
	s.Bounds = fmt.Sprintf("universe=%s resources=%d; every method x every argument position x its alphabet (one argument deviates at a time; full string alphabet on get keys, finder/action string parameters, created ids) under the default configuration, reduced alphabets (thorough: the full ones as well) under each of %d configuration deviations (tunnelling threshold, lenient, resolver base, mounting)", univName, len(u.Resources), len(cfgs)-1)
	if a.Part != "C02" {
		var names []string
		for _, c := range cfgs {
			names = append(names, c.String())
		}
		s.Bounds = fmt.Sprintf("universe=%s resources=%d; every method x every argument position x its reduced alphabet (thorough: full) under each of the configurations %s; a call must reach the method it names with the arguments given and its reply must come back unchanged", univName, len(u.Resources), strings.Join(names, " | "))
	}
	item := 0
	for ci, cfg := range cfgs {
		w := NewWorld(u, cfg)
		for _, r := range u.Resources {
			if len(r.ReadOnly)+len(r.CreateOnly) > 0 {
				continue // annotated resources strip fields on purpose: they belong to C07
			}
			if cfg.Root != "" && r.Segments[0].Name != cfg.Root {
				continue
			}
			for _, m := range r.Methods {
				item++
				if !a.Mine(item) {
					continue
				}
				if a.Expired() {
					s.Exhaustive = false
					rep.Cap("end-to-end: internal deadline")
					rep.Write(a.Out)
					return
				}
				s.States++
				for _, p := range append([]argPos{{"none", []*schema.V{nil}}}, positions(a.Gen, r, m, (ci == 0 && a.Part == "C02") || a.Thorough())...) {
					for vi, val := range p.alpha {
						if p.name != "none" && vi == 0 {
							continue // the default element is the all-default call
						}
						w.reset()
						call, reply := buildCall(a.Gen, r, m, p.name, val)
						outs, pan := w.Do(call, reply)
						kind, detail := w.verify(a.Gen, call, reply, outs, pan)
						if a.Part == "C09W" {
							// canonical form of the request: parameter names strictly ascending, ids ascending
							kind, detail = canonicalQuery(w)
						}
						s.Evaluations++
						s.Transitions++
						s.Traces++
						if kind != "" {
							dev := "default"
							if val != nil {
								dev = leafLabel(val.Dev)
							} else if p.name != "none" {
								dev = "unset"
							}
							cfgDev := "default"
							if cfg != DefaultConfig {
								cfgDev = cfg.String()
							}
							rep.Fail(fmt.Sprintf("%s e2e %s %s %s pos=%s %s cfg=%s", a.Gen, kind, resourceKind(r), ClientMethod(m), p.name, dev, cfgDev),
								fmt.Sprintf("%s [%s]: %s", call, cfg, detail), e2eReplay{a.Gen, a.Part, univName, r.Namespace, m.Name, p.name, devOf(val), cfg})
							s.Class("fail:" + kind)
						} else {
							s.Class("ok:" + m.Kind)
						}
					}
				}
				if item%23 == 0 {
					call, _ := buildCall(a.Gen, r, m, "none", nil)
					w.reset()
					w.Do(call, &Reply{})
					rep.Sample(map[string]interface{}{"call": call.String(), "config": cfg.String(), "request_line": requestLine(w)})
				}
			}
		}
	}
}

func requestLine(w *World) string {
	if l := w.transport.Last(); l != nil {
		if i := strings.Index(string(l.RawRequest), "\r\n"); i > 0 {
			return string(l.RawRequest[:i])
		}
	}
	return ""
}

func devOf(v *schema.V) string {
	if v == nil {
		return ""
	}
	return v.Dev
}

func leafLabel(dev string) string {
	if i := strings.LastIndex(dev, ">"); i >= 0 && !strings.Contains(dev[i:], "\"") {
		dev = dev[i+1:]
	}
	for {
		i := strings.Index(dev, ".")
		if i <= 0 {
			break
		}
		if q := strings.IndexAny(dev, "\":"); q >= 0 && q < i {
			break
		}
		dev = dev[i+1:]
	}
	return dev
}
