package main

import (
	"context"
	"fmt"
	"reflect"
	"sort"
	"strings"

	"verif/mc/bind"
	"verif/mc/report"
	"verif/mc/schema"
)

// ---------------------------------------------------------------- patches

type Patch struct {
	T      *schema.Type
	Set    map[string]*schema.V
	Delete []string
	Nested map[string]*Patch
}

func (p *Patch) String() string {
	if p == nil {
		return "<nil patch>"
	}
	var parts []string
	var ks []string
	for k := range p.Set {
		ks = append(ks, k)
	}
	sort.Strings(ks)
	for _, k := range ks {
		parts = append(parts, "$set "+k+"="+p.Set[k].String())
	}
	d := append([]string{}, p.Delete...)
	sort.Strings(d)
	for _, k := range d {
		parts = append(parts, "$delete "+k)
	}
	ks = nil
	for k := range p.Nested {
		ks = append(ks, k)
	}
	sort.Strings(ks)
	for _, k := range ks {
		parts = append(parts, k+":"+p.Nested[k].String())
	}
	return "patch{" + strings.Join(parts, "; ") + "}"
}

func patchEqual(a, b *Patch) bool {
	if a == nil || b == nil {
		return a == b
	}
	if len(a.Set) != len(b.Set) || len(a.Delete) != len(b.Delete) || len(a.Nested) != len(b.Nested) {
		return false
	}
	for k, v := range a.Set {
		if !schema.Equal(v, b.Set[k]) {
			return false
		}
	}
	da, db := append([]string{}, a.Delete...), append([]string{}, b.Delete...)
	sort.Strings(da)
	sort.Strings(db)
	if strings.Join(da, ",") != strings.Join(db, ",") {
		return false
	}
	for k, n := range a.Nested {
		if !patchEqual(n, b.Nested[k]) {
			return false
		}
	}
	return true
}

// patchToGo builds the generated X_PartialUpdate value (rt is the struct type or a pointer to it).
func patchToGo(p *Patch, rt reflect.Type) reflect.Value {
	if rt.Kind() == reflect.Ptr {
		if p == nil {
			return reflect.Zero(rt)
		}
		v := reflect.New(rt.Elem())
		v.Elem().Set(patchToGo(p, rt.Elem()))
		return v
	}
	out := reflect.New(rt).Elem()
	del := out.FieldByName("Delete_Fields")
	for _, d := range p.Delete {
		f := del.FieldByName(bind.GoFieldName(d))
		if !f.IsValid() {
			report.Internal("patch: %s has no delete flag for %q", rt, d)
		}
		f.SetBool(true)
	}
	set := out.FieldByName("Set_Fields")
	for k, v := range p.Set {
		f := set.FieldByName(bind.GoFieldName(k))
		if !f.IsValid() {
			report.Internal("patch: %s has no set field for %q", rt, k)
		}
		f.Set(toGo(v, f.Type()))
	}
	for k, n := range p.Nested {
		f := out.FieldByName(bind.GoFieldName(k))
		if !f.IsValid() {
			report.Internal("patch: %s has no nested patch field for %q", rt, k)
		}
		f.Set(patchToGo(n, f.Type()))
	}
	return out
}

func patchFromGo(rv reflect.Value, t *schema.Type) *Patch {
	if rv.Kind() == reflect.Ptr {
		if rv.IsNil() {
			return nil
		}
		rv = rv.Elem()
	}
	p := &Patch{T: t, Set: map[string]*schema.V{}, Nested: map[string]*Patch{}}
	del := rv.FieldByName("Delete_Fields")
	set := rv.FieldByName("Set_Fields")
	for _, f := range t.AllFields() {
		gn := bind.GoFieldName(f.Name)
		if df := del.FieldByName(gn); df.IsValid() && df.Bool() {
			p.Delete = append(p.Delete, f.Name)
		}
		if sf := set.FieldByName(gn); sf.IsValid() && !sf.IsNil() {
			p.Set[f.Name] = fromGo(sf, f.Type)
		}
		if f.Type.Kind == schema.Record {
			if nf := rv.FieldByName(gn); nf.IsValid() && nf.Kind() == reflect.Ptr && !nf.IsNil() {
				p.Nested[f.Name] = patchFromGo(nf, f.Type)
			}
		}
	}
	return p
}

// ---------------------------------------------------------------- abstract calls and replies

type KV struct {
	K *schema.V
	V *schema.V
	P *Patch
}

type Call struct {
	Res       *schema.Resource
	M         *schema.Method
	Keys      []*schema.V
	Entity    *schema.V
	Patch     *Patch
	Entities  []*schema.V
	Keyed     []KV
	BatchKeys []*schema.V
	Params    *schema.V
	// SentKeys: the Go key values handed to the client for BatchKeys / Keyed (set by Do)
	SentKeys []reflect.Value
}

func (c *Call) String() string {
	var parts []string
	for _, k := range c.Keys {
		parts = append(parts, "key="+k.String())
	}
	if c.Entity != nil {
		parts = append(parts, "entity="+c.Entity.String())
	}
	if c.Patch != nil {
		parts = append(parts, c.Patch.String())
	}
	for _, e := range c.Entities {
		parts = append(parts, "elem="+e.String())
	}
	for _, kv := range c.Keyed {
		if kv.P != nil {
			parts = append(parts, kv.K.String()+"=>"+kv.P.String())
		} else {
			parts = append(parts, kv.K.String()+"=>"+kv.V.String())
		}
	}
	for _, k := range c.BatchKeys {
		parts = append(parts, "id="+k.String())
	}
	if c.Params != nil {
		parts = append(parts, "params="+c.Params.String())
	}
	return fmt.Sprintf("%s.%s(%s)", c.Res.Name(), ClientMethod(c.M), strings.Join(parts, ", "))
}

type CreatedV struct {
	Id     *schema.V
	Status int
	Entity *schema.V
}

type ErrV struct {
	Status  *int32
	Message *string
	Code    *int32
}

type BatchEntry struct {
	K      *schema.V
	Result *schema.V // entity (batch_get) ; nil for update responses
	Status int       // statuses map entry (0 = none) / update status
	Err    *ErrV
	Has    map[string]bool // which maps mention the key: "results" "statuses" "errors"
}

type Reply struct {
	Err         error
	Entity      *schema.V
	Created     *CreatedV
	CreatedList []*CreatedV
	Elements    []*schema.V
	Total       *int32 // paging total
	Metadata    *schema.V
	Batch       []*BatchEntry
	Status      int         // overridden response status (0 = leave)
	NilResult   bool        // return a typed nil result and a nil error
	Panic       interface{} // panic with this value inside the resource method
}

func structField(rv reflect.Value, name string) reflect.Value {
	f := rv.FieldByName(name)
	if !f.IsValid() {
		report.Internal("%s has no field %s", rv.Type(), name)
	}
	return f
}

// buildCreated fills a *CreatedEntity[K] / *CreatedAndReturnedEntity[K,V].
func buildCreated(rt reflect.Type, c *CreatedV) reflect.Value {
	if c == nil {
		return reflect.Zero(rt)
	}
	p := reflect.New(rt.Elem())
	s := p.Elem()
	idf := structField(s, "Id")
	idf.Set(toGo(c.Id, idf.Type()))
	structField(s, "Status").SetInt(int64(c.Status))
	if ef := s.FieldByName("Entity"); ef.IsValid() && c.Entity != nil {
		ef.Set(toGo(c.Entity, ef.Type()))
	}
	return p
}

func readCreated(rv reflect.Value, keyT, entT *schema.Type) *CreatedV {
	if rv.Kind() == reflect.Ptr {
		if rv.IsNil() {
			return nil
		}
		rv = rv.Elem()
	}
	c := &CreatedV{Id: fromGo(structField(rv, "Id"), keyT), Status: int(structField(rv, "Status").Int())}
	if ef := rv.FieldByName("Entity"); ef.IsValid() {
		c.Entity = fromGo(ef, entT)
	}
	return c
}

func buildElements(rt reflect.Type, r *Reply) reflect.Value {
	p := reflect.New(rt.Elem())
	s := p.Elem()
	ef := structField(s, "Elements")
	sl := reflect.MakeSlice(ef.Type(), len(r.Elements), len(r.Elements))
	for i, e := range r.Elements {
		sl.Index(i).Set(toGo(e, ef.Type().Elem()))
	}
	ef.Set(sl)
	if r.Total != nil {
		pf := structField(s, "Paging")
		pg := reflect.New(pf.Type().Elem())
		tf := pg.Elem().FieldByName("Total")
		if tf.IsValid() {
			t := *r.Total
			tf.Set(reflect.ValueOf(&t))
		}
		if cf := pg.Elem().FieldByName("Count"); cf.IsValid() {
			cf.SetInt(10)
		}
		pf.Set(pg)
	}
	if mf := s.FieldByName("Metadata"); mf.IsValid() && r.Metadata != nil {
		mf.Set(toGo(r.Metadata, mf.Type()))
	}
	return p
}

func readElements(rv reflect.Value, entT, metaT *schema.Type) (els []*schema.V, total *int32, meta *schema.V) {
	if rv.Kind() == reflect.Ptr {
		if rv.IsNil() {
			return nil, nil, nil
		}
		rv = rv.Elem()
	}
	ef := structField(rv, "Elements")
	for i := 0; i < ef.Len(); i++ {
		els = append(els, fromGo(ef.Index(i), entT))
	}
	if pf := rv.FieldByName("Paging"); pf.IsValid() && !pf.IsNil() {
		if tf := pf.Elem().FieldByName("Total"); tf.IsValid() && !tf.IsNil() {
			t := int32(tf.Elem().Int())
			total = &t
		}
	}
	if mf := rv.FieldByName("Metadata"); mf.IsValid() && metaT != nil {
		meta = fromGo(mf, metaT)
	}
	return
}

func buildErrResp(rt reflect.Type, e *ErrV) reflect.Value {
	p := reflect.New(rt.Elem())
	if e.Status != nil {
		s := *e.Status
		p.Elem().FieldByName("Status").Set(reflect.ValueOf(&s))
	}
	if e.Message != nil {
		m := *e.Message
		p.Elem().FieldByName("Message").Set(reflect.ValueOf(&m))
	}
	if e.Code != nil {
		c := *e.Code
		p.Elem().FieldByName("ServiceErrorCode").Set(reflect.ValueOf(&c))
	}
	return p
}

func readErrResp(rv reflect.Value) *ErrV {
	if rv.Kind() == reflect.Ptr {
		if rv.IsNil() {
			return nil
		}
		rv = rv.Elem()
	}
	e := &ErrV{}
	if f := rv.FieldByName("Status"); f.IsValid() && !f.IsNil() {
		s := int32(f.Elem().Int())
		e.Status = &s
	}
	if f := rv.FieldByName("Message"); f.IsValid() && !f.IsNil() {
		m := f.Elem().String()
		e.Message = &m
	}
	if f := rv.FieldByName("ServiceErrorCode"); f.IsValid() && !f.IsNil() {
		c := int32(f.Elem().Int())
		e.Code = &c
	}
	return e
}

// buildBatch fills a *BatchResponse[K,V]; it returns the Go key used for each entry.
func buildBatch(rt reflect.Type, entries []*BatchEntry, update bool) reflect.Value {
	p := reflect.New(rt.Elem())
	s := p.Elem()
	st, rs, es := structField(s, "Statuses"), structField(s, "Results"), structField(s, "Errors")
	// the response is filled the way an implementation does it: through AddResult / AddStatus / AddError
	addResult, addStatus, addError := p.MethodByName("AddResult"), p.MethodByName("AddStatus"), p.MethodByName("AddError")
	if !addResult.IsValid() || !addStatus.IsValid() || !addError.IsValid() {
		report.Internal("%s lacks AddResult / AddStatus / AddError", rt)
	}
	for _, e := range entries {
		k := keyToGo(e.K, rs.Type().Key())
		if e.Has["results"] {
			if update {
				u := reflect.New(rs.Type().Elem().Elem())
				u.Elem().FieldByName("Status").SetInt(int64(e.Status))
				addResult.Call([]reflect.Value{k, u})
			} else {
				addResult.Call([]reflect.Value{k, toGo(e.Result, rs.Type().Elem())})
			}
		}
		if e.Has["statuses"] {
			addStatus.Call([]reflect.Value{k, reflect.ValueOf(e.Status).Convert(st.Type().Elem())})
		}
		if e.Has["errors"] {
			addError.Call([]reflect.Value{k, buildErrResp(es.Type().Elem(), e.Err)})
		}
	}
	return p
}

type batchOut struct {
	key    reflect.Value
	result reflect.Value
	status *int
	err    *ErrV
}

// readBatch lists the entries of a *BatchResponse by Go key.
func readBatch(rv reflect.Value) (results, statuses, errors map[interface{}]reflect.Value) {
	results, statuses, errors = map[interface{}]reflect.Value{}, map[interface{}]reflect.Value{}, map[interface{}]reflect.Value{}
	if rv.Kind() == reflect.Ptr {
		if rv.IsNil() {
			return
		}
		rv = rv.Elem()
	}
	for name, dst := range map[string]map[interface{}]reflect.Value{"Results": results, "Statuses": statuses, "Errors": errors} {
		m := structField(rv, name)
		it := m.MapRange()
		for it.Next() {
			dst[it.Key().Interface()] = it.Value()
		}
	}
	return
}

// ---------------------------------------------------------------- executing a call

func (w *World) mockOuts(c *Call, r *Reply, outs []reflect.Type, ctxStatus func(int)) []reflect.Value {
	res := make([]reflect.Value, len(outs))
	for j, o := range outs {
		res[j] = reflect.Zero(o)
	}
	if r.Panic != nil {
		panic(r.Panic)
	}
	if r.Err != nil {
		res[len(res)-1] = errValue(r.Err)
		return res
	}
	if r.NilResult {
		return res
	}
	if r.Status != 0 && ctxStatus != nil {
		ctxStatus(r.Status)
	}
	if len(outs) == 1 {
		return res
	}
	ot := outs[0]
	switch {
	case c.M.Kind == "ACTION":
		if r.Entity != nil {
			res[0] = toGo(r.Entity, ot)
		}
	case c.M.Kind == "FINDER" || c.M.Name == "get_all":
		res[0] = buildElements(ot, r)
	case c.M.Name == "get" || c.M.Name == "partial_update":
		res[0] = toGo(r.Entity, ot)
	case c.M.Name == "create":
		res[0] = buildCreated(ot, r.Created)
	case c.M.Name == "batch_create":
		sl := reflect.MakeSlice(ot, len(r.CreatedList), len(r.CreatedList))
		for i, cr := range r.CreatedList {
			sl.Index(i).Set(buildCreated(ot.Elem(), cr))
		}
		res[0] = sl
	case strings.HasPrefix(c.M.Name, "batch_"):
		res[0] = buildBatch(ot, r.Batch, c.M.Name != "batch_get")
	}
	return res
}

// Do scripts the mock with reply r, performs the call through the generated client and
// returns the client method's results.
func (w *World) Do(c *Call, r *Reply) (outs []reflect.Value, panicked interface{}) {
	name := ClientMethod(c.M)
	w.script[c.Res.Namespace+":Mock"+name] = func(w *World, args []reflect.Value, ots []reflect.Type) []reflect.Value {
		rc := w.calls[len(w.calls)-1]
		return w.mockOuts(c, r, ots, func(s int) {
			if rc.ctx != nil {
				rc.ctx.ResponseStatus = s
			}
		})
	}
	cl := w.clients[c.Res.Namespace]
	m := cl.MethodByName(name + "WithContext")
	if !m.IsValid() {
		report.Internal("client of %s has no method %s", c.Res.Namespace, name)
	}
	mt := m.Type()
	args := []reflect.Value{reflect.ValueOf(context.Background())}
	idx := 1
	for _, k := range c.Keys {
		args = append(args, keyToGo(k, mt.In(idx)))
		idx++
	}
	add := func(v reflect.Value) { args = append(args, v); idx++ }
	switch {
	case c.M.Kind != "REST_METHOD":
		if idx < mt.NumIn() {
			add(toGo(c.Params, mt.In(idx)))
		}
	case c.M.Name == "create" || c.M.Name == "update":
		add(toGo(c.Entity, mt.In(idx)))
	case c.M.Name == "partial_update":
		add(patchToGo(c.Patch, mt.In(idx)))
	case c.M.Name == "batch_get" || c.M.Name == "batch_delete":
		st := mt.In(idx)
		sl := reflect.MakeSlice(st, len(c.BatchKeys), len(c.BatchKeys))
		c.SentKeys = nil
		for i, k := range c.BatchKeys {
			gk := keyToGo(k, st.Elem())
			c.SentKeys = append(c.SentKeys, gk)
			sl.Index(i).Set(gk)
		}
		add(sl)
	case c.M.Name == "batch_create":
		st := mt.In(idx)
		sl := reflect.MakeSlice(st, len(c.Entities), len(c.Entities))
		for i, e := range c.Entities {
			sl.Index(i).Set(toGo(e, st.Elem()))
		}
		add(sl)
	case c.M.Name == "batch_update" || c.M.Name == "batch_partial_update":
		mtp := mt.In(idx)
		mp := reflect.MakeMap(mtp)
		c.SentKeys = nil
		for _, kv := range c.Keyed {
			k := keyToGo(kv.K, mtp.Key())
			c.SentKeys = append(c.SentKeys, k)
			if kv.P != nil {
				mp.SetMapIndex(k, patchToGo(kv.P, mtp.Elem()))
			} else {
				mp.SetMapIndex(k, toGo(kv.V, mtp.Elem()))
			}
		}
		add(mp)
	}
	if c.M.Kind == "REST_METHOD" && idx < mt.NumIn() {
		// REST methods that declare query parameters (or paging) take them as the last argument
		if c.Params == nil {
			c.Params = schema.Base(ParamsType(c.M, ""))
		}
		add(toGo(c.Params, mt.In(idx)))
	}
	if idx != mt.NumIn() {
		report.Internal("argument count mismatch calling %s.%s: built %d of %d", c.Res.Namespace, name, idx, mt.NumIn())
	}
	func() {
		defer func() {
			if p := recover(); p != nil {
				if be, ok := p.(*bind.Error); ok {
					panic(be)
				}
				panicked = p
			}
		}()
		outs = m.Call(args)
	}()
	return outs, panicked
}
