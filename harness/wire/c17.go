package main

import (
	"context"
	"fmt"
	"net/http"
	"net/url"
	"os"
	"reflect"
	"sort"
	"strings"
	"sync"

	"github.com/PapaCharlie/go-restli/v2/restli"
	common "github.com/PapaCharlie/go-restli/v2/restlidata/generated/com/linkedin/restli/common"

	"verif/mc/hcli"
	"verif/mc/report"
	"verif/mc/sched"
	"verif/mc/schema"
	"verif/mc/wire"
)

// C17 world: one server, one client, stateless mocks whose replies are pure functions of
// their arguments, so that every request has a well-defined outcome in isolation.

type c17World struct {
	u        *schema.Universe
	client   *restli.Client
	clients  map[string]reflect.Value
	tclients map[string]reflect.Value // the same clients with query tunnelling forced on
	handler  http.Handler
	mu       sync.Mutex
	log      map[int][]string // per thread: what resource code / filters / the wire saw
	shared   *common.ErrorResponse
	shared2  *common.ErrorResponse // a second error object shared by all requests: no status, no message
	sharedEn reflect.Value
	free     bool // free-running (race pass): no scheduler
	// resources below an existing root that are registered on the server only after the handler was obtained
	srv      restli.Server
	late     []func()
	lateOnce sync.Once
}

func (w *c17World) tid() int {
	if w.free {
		return 0
	}
	return sched.CurID()
}

func (w *c17World) point(label string) {
	if !w.free {
		sched.Point(label)
	}
}

func (w *c17World) note(t int, s string) {
	w.mu.Lock()
	w.log[t] = append(w.log[t], s)
	w.mu.Unlock()
}

type c17Filter struct{ w *c17World }

type c17Key struct{}

func (f *c17Filter) PreRequest(req *http.Request) (context.Context, error) {
	f.w.point("filter.pre")
	t := req.Header.Get("X-Verif-Thread")
	facts := fmt.Sprintf("pre method=%s", restli.GetMethodFromContext(req.Context()))
	var keys []string
	for _, r := range restli.GetEntitySegmentsFromContext(req.Context()) {
		k, _ := r.ReadString()
		keys = append(keys, k)
	}
	f.w.noteHdr(t, facts+fmt.Sprintf(" keys=%v", keys))
	return context.WithValue(req.Context(), c17Key{}, t), nil
}

func (f *c17Filter) PostRequest(ctx context.Context, h http.Header) error {
	f.w.point("filter.post")
	h.Set("X-Verif-Post", fmt.Sprint(ctx.Value(c17Key{})))
	return nil
}

func (w *c17World) noteHdr(t, s string) {
	var id int
	fmt.Sscanf(t, "%d", &id)
	w.note(id, s)
}

type c17Transport struct{ w *c17World }

func (t *c17Transport) RoundTrip(req *http.Request) (*http.Response, error) {
	t.w.point("roundtrip.enter")
	x, err := wire.Do(t.w.handler, req)
	t.w.point("roundtrip.exit")
	id := req.Header.Get("X-Verif-Thread")
	if x != nil && x.Panic != nil {
		t.w.noteHdr(id, fmt.Sprintf("wire PANIC %v", x.Panic))
	}
	if err != nil {
		return nil, err
	}
	t.w.noteHdr(id, fmt.Sprintf("wire status=%d errhdr=%q post=%q id=%q body=%s", x.Response.StatusCode, x.Response.Header.Get("X-RestLi-Error-Response"),
		x.Response.Header.Get("X-Verif-Post"), x.Response.Header.Get("X-RestLi-Id"), x.Body))
	x.Response.Request = req
	return x.Response, nil
}

func newC17World(u *schema.Universe, free bool) *c17World {
	w := &c17World{u: u, clients: map[string]reflect.Value{}, log: map[int][]string{}, free: free}
	st := int32(409)
	w.shared = &common.ErrorResponse{Status: &st} // no message: exercises the defaulting path on a shared object
	w.shared2 = &common.ErrorResponse{}
	srv := restli.NewServer(&c17Filter{w})
	for _, r := range u.Resources {
		b := Bindings[r.Namespace]
		mock := reflect.ValueOf(b.NewMock())
		stv := mock.Elem()
		ns := r.Namespace
		res := r
		for i := 0; i < stv.NumField(); i++ {
			f := stv.Type().Field(i)
			if f.Type.Kind() != reflect.Func {
				continue
			}
			name, ft := f.Name, f.Type
			stv.Field(i).Set(reflect.MakeFunc(ft, func(args []reflect.Value) []reflect.Value {
				w.point("resource.enter")
				ctx, _ := args[0].Interface().(*restli.RequestContext)
				tid := "?"
				if ctx != nil {
					tid = fmt.Sprint(ctx.Request.Context().Value(c17Key{}))
				}
				var rendered []string
				for _, a := range args[1:] {
					rendered = append(rendered, render(a))
				}
				w.noteHdr(tid, fmt.Sprintf("resource %s:%s(%s)", ns, name, strings.Join(rendered, ", ")))
				outs := w.respond(res, name, ft, args[1:], ctx)
				w.point("resource.exit")
				return outs
			}))
		}
		if len(r.Segments) > 1 {
			w.late = append(w.late, func() { b.Register(srv, mock.Interface()) })
			continue
		}
		b.Register(srv, mock.Interface())
	}
	w.srv = srv
	w.handler = srv.Handler()
	bu, _ := url.Parse("http://h")
	w.client = &restli.Client{Client: &http.Client{Transport: &c17Transport{w}}, HostnameResolver: &restli.SimpleHostnameResolver{Hostname: bu}, StrictResponseDeserialization: true}
	tc := *w.client
	tc.QueryTunnellingThreshold = 1
	w.tclients = map[string]reflect.Value{}
	for _, r := range u.Resources {
		w.clients[r.Namespace] = reflect.ValueOf(Bindings[r.Namespace].NewClient(w.client))
		w.tclients[r.Namespace] = reflect.ValueOf(Bindings[r.Namespace].NewClient(&tc))
	}
	return w
}

func render(v reflect.Value) string {
	if v.Kind() == reflect.Ptr && !v.IsNil() && v.Elem().Kind() == reflect.Struct {
		return fmt.Sprintf("%+v", derefAll(v))
	}
	return fmt.Sprintf("%+v", derefAll(v))
}

// derefAll renders pointers by value so that addresses never reach the logs.
func derefAll(v reflect.Value) interface{} {
	switch v.Kind() {
	case reflect.Ptr:
		if v.IsNil() {
			return nil
		}
		return derefAll(v.Elem())
	case reflect.Struct:
		m := map[string]interface{}{}
		for i := 0; i < v.NumField(); i++ {
			if v.Type().Field(i).PkgPath == "" {
				m[v.Type().Field(i).Name] = derefAll(v.Field(i))
			}
		}
		return m
	case reflect.Slice:
		if v.Type().Elem().Kind() == reflect.Uint8 {
			return fmt.Sprintf("%x", v.Bytes())
		}
		var s []interface{}
		for i := 0; i < v.Len(); i++ {
			s = append(s, derefAll(v.Index(i)))
		}
		return s
	case reflect.Map:
		m := map[string]interface{}{}
		it := v.MapRange()
		for it.Next() {
			m[fmt.Sprint(derefAll(it.Key()))] = derefAll(it.Value())
		}
		return m
	}
	if v.IsValid() && v.CanInterface() {
		return v.Interface()
	}
	return nil
}

// respond: replies are pure functions of the arguments.
func (w *c17World) respond(r *schema.Resource, mockName string, ft reflect.Type, args []reflect.Value, ctx *restli.RequestContext) []reflect.Value {
	outs := make([]reflect.Value, ft.NumOut())
	for j := range outs {
		outs[j] = reflect.Zero(ft.Out(j))
	}
	tag := ""
	if len(args) > 0 {
		tag = fmt.Sprint(derefAll(args[0]))
	}
	if strings.Contains(tag, "bare-err") {
		outs[len(outs)-1] = errValue(w.shared2)
		return outs
	}
	if strings.Contains(tag, "err") {
		outs[len(outs)-1] = errValue(w.shared)
		return outs
	}
	if len(outs) == 1 {
		if strings.Contains(tag, "status") && ctx != nil {
			ctx.ResponseStatus = 202
		}
		return outs
	}
	ent := func(t *schema.Type) *schema.V {
		v := schema.Rich(t)
		for _, f := range t.AllFields() {
			if f.Type.Kind == schema.String {
				v.Fields[f.Name] = schema.VS(f.Type, "for-"+tag)
				break
			}
		}
		return v
	}
	ot := ft.Out(0)
	switch {
	case mockName == "MockGet":
		outs[0] = toGo(ent(r.Schema), ot)
	case mockName == "MockCreate":
		outs[0] = buildCreated(ot, &CreatedV{Id: keyAlphabet(ownKeyType(r), true)[0].With2(tag)})
	case strings.HasPrefix(mockName, "MockFindBy") || mockName == "MockGetAll":
		outs[0] = buildElements(ot, &Reply{Elements: []*schema.V{ent(r.Schema)}})
	case strings.HasSuffix(mockName, "Action"):
		if ot.Kind() == reflect.String {
			outs[0] = reflect.ValueOf("result-for-" + tag).Convert(ot)
		} else if ot.Kind() == reflect.Ptr {
			outs[0] = toGo(ent(r.Schema), ot)
		}
	case mockName == "MockBatchGet":
		var es []*BatchEntry
		for i := 0; i < args[len(args)-1].Len(); i++ {
			k := fromGo(args[len(args)-1].Index(i), ownKeyType(r))
			es = append(es, &BatchEntry{K: k, Has: map[string]bool{"results": true}, Result: ent(r.Schema)})
		}
		outs[0] = buildBatch(ot, es, false)
	}
	return outs
}

// ---- requests ----

type c17Req struct {
	Name string
	Run  func(w *c17World, tid int) string // returns the rendered client-side result
}

func c17Requests(u *schema.Universe) []c17Req {
	var cs *schema.Resource
	for _, r := range u.Resources {
		if r.Name() == "cString" {
			cs = r
		}
	}
	call := func(w *c17World, tid int, r *schema.Resource, method string, args ...interface{}) string {
		// (the caller keeps the header object it hands out: it must come back untouched)
		mine := http.Header{"X-Verif-Thread": []string{fmt.Sprint(tid)}}
		ctx := restli.ExtraRequestHeaders(context.Background(), func() (http.Header, error) {
			return mine, nil
		})
		m := w.clients[r.Namespace].MethodByName(method + "WithContext")
		in := []reflect.Value{reflect.ValueOf(ctx)}
		for i, a := range args {
			switch x := a.(type) {
			case *schema.V:
				in = append(in, toGo(x, m.Type().In(i+1)))
			case reflect.Value:
				in = append(in, x)
			default:
				in = append(in, reflect.ValueOf(a).Convert(m.Type().In(i+1)))
			}
		}
		var outs []reflect.Value
		func() {
			defer func() {
				if p := recover(); p != nil {
					outs = []reflect.Value{reflect.ValueOf(fmt.Sprintf("CLIENT PANIC %v", p))}
				}
			}()
			outs = m.Call(in)
		}()
		var parts []string
		for _, o := range outs {
			if o.Type().Implements(errorType()) && !o.IsNil() {
				parts = append(parts, "error: "+o.Interface().(error).Error())
			} else {
				parts = append(parts, fmt.Sprint(derefAll(o)))
			}
		}
		if len(mine) != 1 || len(mine["X-Verif-Thread"]) != 1 || mine["X-Verif-Thread"][0] != fmt.Sprint(tid) {
			parts = append(parts, fmt.Sprintf("CALLER HEADER OBJECT MODIFIED: %v", mine))
		}
		return strings.Join(parts, " | ")
	}
	entity := func(s string) *schema.V {
		return schema.Base(cs.Schema).With("s", schema.VS(cs.Schema.Field("s").Type, s))
	}
	strT := schema.P(schema.String)
	var sub *schema.Resource
	for _, r := range u.Resources {
		if r.Name() == "subColl" {
			sub = r
		}
	}
	return []c17Req{
		// the server keeps being configured after the handler was obtained: sub-resources of roots the handler
		// serves are registered; the handler is a snapshot, so a request to one of them is a 404 before and after
		{"register-late", func(w *c17World, t int) string {
			w.lateOnce.Do(func() {
				for _, f := range w.late {
					f()
				}
			})
			return "registered"
		}},
		{"get-late(subColl)", func(w *c17World, t int) string { return call(w, t, sub, "Get", "p1", int64(5)) }},
		{"get(k1)", func(w *c17World, t int) string { return call(w, t, cs, "Get", "k1") }},
		{"get(k2)", func(w *c17World, t int) string { return call(w, t, cs, "Get", "k2") }},
		{"get(err)", func(w *c17World, t int) string { return call(w, t, cs, "Get", "err-a") }},
		{"get(bare-err)", func(w *c17World, t int) string { return call(w, t, cs, "Get", "bare-err-c") }},
		{"delete(err)", func(w *c17World, t int) string { return call(w, t, cs, "Delete", "err-b") }},
		{"delete(status)", func(w *c17World, t int) string { return call(w, t, cs, "Delete", "status-x") }},
		{"create(e1)", func(w *c17World, t int) string { return call(w, t, cs, "Create", entity("e1")) }},
		{"update(k3,e2)", func(w *c17World, t int) string { return call(w, t, cs, "Update", "k3", entity("e2")) }},
		{"finder(bare)", func(w *c17World, t int) string { return call(w, t, cs, "FindByBare") }},
		{"action(ent,k4)", func(w *c17World, t int) string {
			pt := ParamsType(cs.Method("entWithResult"), "")
			return call(w, t, cs, "EntWithResultAction", "k4", schema.Base(pt))
		}},
		{"batch_get(a,b)", func(w *c17World, t int) string {
			sl := reflect.ValueOf([]string{"a", "b"})
			return call(w, t, cs, "BatchGet", sl)
		}},
		// a tunnelled request with a body (client with tunnelling threshold 1: query + entity travel in a
		// multipart envelope); entity and parameter name the calling thread
		{"tunnelledUpdateWithParams(k6)", func(w *c17World, t int) string {
			var cp *schema.Resource
			for _, r := range u.Resources {
				if r.Name() == "cParams" {
					cp = r
				}
			}
			pt := ParamsType(cp.Method("update"), "")
			m := w.tclients[cp.Namespace].MethodByName("UpdateWithContext")
			ctx := restli.ExtraRequestHeaders(context.Background(), func() (http.Header, error) {
				return http.Header{"X-Verif-Thread": []string{fmt.Sprint(t)}}, nil
			})
			in := []reflect.Value{reflect.ValueOf(ctx), reflect.ValueOf("k6"),
				toGo(entity(fmt.Sprintf("tun-of-thread-%d", t)), m.Type().In(2)),
				toGo(schema.Base(pt).With("reason", schema.VS(strT, fmt.Sprintf("tun-of-thread-%d", t))), m.Type().In(3))}
			var outs []reflect.Value
			func() {
				defer func() {
					if p := recover(); p != nil {
						outs = []reflect.Value{reflect.ValueOf(fmt.Sprintf("CLIENT PANIC %v", p))}
					}
				}()
				outs = m.Call(in)
			}()
			var parts []string
			for _, o := range outs {
				if o.Type().Implements(errorType()) && !o.IsNil() {
					parts = append(parts, "error: "+o.Interface().(error).Error())
				} else {
					parts = append(parts, fmt.Sprint(derefAll(o)))
				}
			}
			return strings.Join(parts, " | ")
		}},
		// a REST method with query parameters of its own (the parameters name the calling thread)
		{"getWithParams(k5)", func(w *c17World, t int) string {
			var cp *schema.Resource
			for _, r := range u.Resources {
				if r.Name() == "cParams" {
					cp = r
				}
			}
			pt := ParamsType(cp.Method("get"), "")
			return call(w, t, cp, "Get", "k5", schema.Base(pt).With("viewer", schema.VS(strT, fmt.Sprintf("viewer-of-thread-%d", t))))
		}},
	}
}

func (w *c17World) outcome(t int, clientResult string) string {
	w.mu.Lock()
	defer w.mu.Unlock()
	return strings.Join(w.log[t], "\n") + "\nclient: " + clientResult
}

type c17Replay struct {
	Gen      string   `json:"gen"`
	Part     string   `json:"part"`
	Univ     string   `json:"universe"`
	Reqs     []string `json:"requests"`
	Schedule []int    `json:"schedule"`
}

// isolated outcome of every request: alone on a fresh world
func isolatedOutcomes(u *schema.Universe, reqs []c17Req) map[string]string {
	res := map[string]string{}
	for _, r := range reqs {
		w := newC17World(u, true)
		out := r.Run(w, 0)
		res[r.Name] = w.outcome(0, out)
	}
	return res
}

func normalise(out string, tid int) string {
	// thread ids appear in the logs (header echo): make outcomes comparable with the isolated run
	out = strings.ReplaceAll(out, fmt.Sprintf("viewer-of-thread-%d", tid), "viewer-of-thread-T")
	out = strings.ReplaceAll(out, fmt.Sprintf("tun-of-thread-%d", tid), "tun-of-thread-T")
	return strings.ReplaceAll(strings.ReplaceAll(out, fmt.Sprintf("post=\"%d\"", tid), "post=\"T\""), fmt.Sprintf("X-Verif-Thread:[%d]", tid), "")
}

func c17Harness(u *schema.Universe, combo []c17Req, iso map[string]string, results *[]string) sched.Harness {
	var w *c17World
	var clientOut []string
	return sched.Harness{
		Setup: func(e *sched.Exec) {
			w = newC17World(u, false)
			clientOut = make([]string, len(combo))
			for i, r := range combo {
				i, r := i, r
				e.Go(r.Name, func() { clientOut[i] = r.Run(w, i) })
			}
		},
		OnEnd: func(e *sched.Exec) error {
			for i, r := range combo {
				got := normalise(w.outcome(i, clientOut[i]), i)
				want := normalise(iso[r.Name], 0)
				if got != want {
					return fmt.Errorf("request %q (thread %d) observed\n%s\n--- but in isolation it observes\n%s", r.Name, i, indent(got), indent(want))
				}
			}
			for i, r := range combo {
				if strings.Contains(clientOut[i], "CALLER HEADER OBJECT MODIFIED") {
					return fmt.Errorf("request %q (thread %d): the http.Header handed out by the caller's ExtraRequestHeaders function was written to by the client: %s", r.Name, i, clientOut[i][strings.Index(clientOut[i], "CALLER HEADER"):])
				}
			}
			// the shared error object must be untouched
			if w.shared.Message != nil {
				return fmt.Errorf("the ErrorResponse shared by the resource between requests was modified: message %q", *w.shared.Message)
			}
			if w.shared2.Status != nil || w.shared2.Message != nil {
				return fmt.Errorf("the status-less ErrorResponse shared by the resource between requests was modified: %+v", describeErr(w.shared2))
			}
			return nil
		},
	}
}

func indent(s string) string { return "   " + strings.ReplaceAll(s, "\n", "\n   ") }

func partC17(a *hcli.Args, rep *report.Report, univName string, u *schema.Universe) {
	reqs := c17Requests(u)
	iso := isolatedOutcomes(u, reqs)
	s := rep.S("handler-client-interleavings")
	bound3 := 2
	if a.Thorough() {
		bound3 = 3
	}
	s.Bounds = fmt.Sprintf("one handler + one client; every pair of requests from a pool of %d (all interleavings at the harness-owned points: round-trip entry/exit, PreRequest, resource entry/exit, PostRequest) and every triple under preemption bound %d; oracle: each request's observations (routing facts seen by the filter, resource arguments, wire status/headers/body, client result) equal its observations in isolation; the shared ErrorResponse is untouched", len(reqs), bound3)
	item := 0
	run := func(combo []c17Req, bound int) {
		item++
		if !a.Mine(item) {
			return
		}
		if a.Expired() {
			s.Exhaustive = false
			rep.Cap("C17: internal deadline")
			return
		}
		var names []string
		for _, r := range combo {
			names = append(names, r.Name)
		}
		h := c17Harness(u, combo, iso, nil)
		res := sched.Explore(h, sched.Options{Bound: bound, Deadline: a.Deadline})
		s.States++
		s.Evaluations++
		s.Traces += res.Execs
		s.Transitions += res.Transitions
		if res.Capped {
			s.Exhaustive = false
			rep.Cap("C17: internal deadline during " + strings.Join(names, " || "))
		}
		s.Class(fmt.Sprintf("threads=%d", len(combo)))
		for _, f := range res.Failures {
			f2, _ := sched.Replay(h, f.Schedule)
			note := ""
			if f2 == nil {
				// The same schedule, another outcome: something outside the schedule - state that survives a request
				// (a pool, a cache) - decides. The observation above was made on the real code; it is reported when the
				// schedule fails again within a few more replays, and is a fault of the harness otherwise.
				again := 0
				for k := 0; k < 8; k++ {
					if fk, _ := sched.Replay(h, f.Schedule); fk != nil {
						again++
					}
				}
				note = fmt.Sprintf("\n(this schedule failed in %d of 9 runs: the outcome also depends on state that survives requests and executions - a pool, a cache - which no request may observe; the replay file may therefore pass)", again+1)
				f.Kind = "state-dependent-" + f.Kind
			}
			first := f.Msg
			if i := strings.Index(first, "\n"); i > 0 {
				first = first[:i]
			}
			rep.Fail(fmt.Sprintf("%s conc %s [%s]", a.Gen, f.Kind, strings.Join(names, " || ")),
				fmt.Sprintf("%s\nschedule: %s%s", f.Msg, sched.FormatTrace(f.Trace), note), c17Replay{a.Gen, "C17", univName, names, f.Schedule})
		}
		if item%40 == 1 && len(res.SampleTraces) > 0 {
			rep.Sample(map[string]interface{}{"requests": names, "schedules_explored": res.Execs, "one_schedule": sched.FormatTrace(res.SampleTraces[0])})
		}
	}
	for i := range reqs {
		for j := i; j < len(reqs); j++ {
			run([]c17Req{reqs[i], reqs[j]}, -1)
		}
	}
	for i := range reqs {
		for j := i; j < len(reqs); j++ {
			for k := j; k < len(reqs); k++ {
				if !a.Thorough() && (i+j+k)%3 != 0 {
					continue // quick: a third of the triples
				}
				run([]c17Req{reqs[i], reqs[j], reqs[k]}, bound3)
			}
		}
	}
}

// partC17Race: the same request bodies free-running (no scheduler) for the race detector.
func partC17Race(a *hcli.Args, u *schema.Universe) {
	reqs := c17Requests(u)
	rounds := 4
	if a.Thorough() {
		rounds = 25
	}
	// every unordered pair of requests (a request with itself included: two calls of one method share
	// whatever that method's registration shares), two goroutines per request, free-running
	for r := 0; r < rounds; r++ {
		for i := range reqs {
			for j := i; j < len(reqs); j++ {
				w := newC17World(u, true)
				var wg sync.WaitGroup
				for g := 0; g < 4; g++ {
					wg.Add(1)
					rq := reqs[i]
					if g%2 == 1 {
						rq = reqs[j]
					}
					go func(g int) {
						defer wg.Done()
						rq.Run(w, g)
					}(g)
				}
				wg.Wait()
			}
		}
	}
	raceRegistry()
	fmt.Println("race pass done:", rounds, "rounds")
	_ = os.Stdout
	_ = sort.Strings
}
