// Harness for the wire-level properties (C02, C08, C16, C07, C17 and the HTTP part of C04):
// generated clients -> in-memory HTTP wire -> real router -> generated mock resources.
package main

import (
	"encoding/json"
	"fmt"
	"os"
	"strings"

	"verif/mc/wire"

	"verif/mc/hcli"
	"verif/mc/report"
	"verif/mc/sched"
	"verif/mc/schema"
)

func main() {
	a := hcli.Parse()
	rep := report.New(a.Gen)
	univName := os.Getenv("VERIF_UNIVERSE")
	if univName == "" {
		univName = "resources-quick"
	}
	if a.Replay != "" {
		var hdr struct {
			Part string `json:"part"`
			Univ string `json:"universe"`
		}
		a.LoadReplay(&hdr)
		if hdr.Univ != "" {
			univName = hdr.Univ
		}
		u := schema.ByName(univName)
		rootAdjust(a.Gen, u)
		switch hdr.Part {
		case "C02", "C14W", "C15W", "C09W":
			var rp e2eReplay
			a.LoadReplay(&rp)
			var r *schema.Resource
			for _, x := range u.Resources {
				if x.Namespace == rp.Res {
					r = x
				}
			}
			m := r.Method(rp.Method)
			var val *schema.V
			for _, p := range positions(a.Gen, r, m, true) {
				if p.name == rp.Pos {
					for _, v := range p.alpha {
						if devOf(v) == rp.Dev {
							val = v
						}
					}
				}
			}
			w := NewWorld(u, rp.Cfg)
			call, reply := buildCall(a.Gen, r, m, rp.Pos, val)
			outs, pan := w.Do(call, reply)
			kind, detail := w.verify(a.Gen, call, reply, outs, pan)
			if hdr.Part == "C09W" {
				kind, detail = canonicalQuery(w)
			}
			fmt.Printf("%s [%s]\n", call, rp.Cfg)
			if kind != "" {
				fmt.Println("FAIL:", kind, detail)
				os.Exit(1)
			}
			fmt.Println("no violation")
		case "C04H":
			var rp httpReplay
			a.LoadReplay(&rp)
			w := NewWorld(u, DefaultConfig)
			if rp.Side != "request" {
				fmt.Println("response-side cases are replayed by re-running the check; the mutated response is:", rp.Raw)
				return
			}
			x, err := wire.DoRaw(w.transport.Handler, []byte(rp.Raw))
			fmt.Printf("request %.400q\n", rp.Raw)
			if x != nil && x.Panic != nil {
				fmt.Println("FAIL: panic escaped:", x.Panic)
				os.Exit(1)
			}
			if err == nil && x.Response != nil {
				fmt.Printf("status %d body %.300q resource invocations %d\n", x.Response.StatusCode, x.Body, len(w.calls))
				if x.Response.StatusCode >= 500 {
					fmt.Println("FAIL: 5xx")
					os.Exit(1)
				}
			}
			fmt.Println("no violation of the status rules (4xx-for-malformed is judged by the check)")
		case "C06W":
			var rp lenientReplay
			a.LoadReplay(&rp)
			for _, r := range u.Resources {
				if r.Namespace != rp.Res {
					continue
				}
				m := r.Method(rp.Method)
				if len(rp.Paths) == 2 && strings.HasPrefix(rp.Paths[0], "unknown@") {
					w := NewWorld(u, DefaultConfig)
					call, reply := buildCall(a.Gen, r, m, "none", nil)
					validOuts, _ := w.Do(call, reply)
					valid := w.transport.Last()
					var body interface{}
					_ = json.Unmarshal(valid.Body, &body)
					for _, site := range unknownFieldSites(m, body) {
						if "unknown@"+scopeString(site) != rp.Paths[0] {
							continue
						}
						kind, detail := unknownFieldCase(a.Gen, u, r, m, site, rp.Paths[1], rp.Strict, valid, validOuts)
						fmt.Printf("%s.%s response with unknown fields %s at %q strict=%v\n", r.Name(), rp.Method, rp.Paths[1], scopeString(site), rp.Strict)
						if kind != "" {
							fmt.Println("FAIL:", kind, detail)
							os.Exit(1)
						}
					}
					continue
				}
				ent := returnsEntity(r, m)
				valid, validOuts, singles := c06wPrepare(a.Gen, u, r, m, ent)
				var paths [][]string
				for _, p := range singles {
					for _, want := range rp.Paths {
						if scopeString(p) == want {
							paths = append(paths, p)
						}
					}
				}
				kind, detail := lenientCase(a.Gen, u, r, m, ent, paths, rp.Null, rp.Strict, valid, validOuts)
				fmt.Printf("%s.%s response without %v (null=%v) strict=%v\n", r.Name(), rp.Method, rp.Paths, rp.Null, rp.Strict)
				if kind != "" {
					fmt.Println("FAIL:", kind, detail)
					os.Exit(1)
				}
			}
			fmt.Println("no violation")
		case "C03W":
			var rp idEnvReplay
			a.LoadReplay(&rp)
			for _, r := range u.Resources {
				if r.Namespace != rp.Res {
					continue
				}
				m := r.Method(rp.Method)
				for _, key := range keyAlphabet(ownKeyType(r), false) {
					if key.Dev != rp.Dev {
						continue
					}
					kind, detail := checkCreatedEnvelope(NewWorld(u, DefaultConfig), a.Gen, r, m, key)
					fmt.Printf("%s.%s created key %s\n", r.Name(), rp.Method, key)
					if kind != "" {
						fmt.Println("FAIL:", kind, detail)
						os.Exit(1)
					}
				}
			}
			fmt.Println("no violation")
		case "C07W":
			var rp exclWireReplay
			a.LoadReplay(&rp)
			w := NewWorld(u, DefaultConfig)
			for _, c := range annotatedCases(a.Gen, u) {
				if c.name != rp.Case {
					continue
				}
				kind, detail := c.run(w)
				fmt.Println("case", c.name)
				if kind != "" {
					fmt.Println("FAIL:", kind, detail)
					os.Exit(1)
				}
			}
			fmt.Println("no violation")
		case "C17":
			var rp c17Replay
			a.LoadReplay(&rp)
			all := c17Requests(u)
			var combo []c17Req
			for _, n := range rp.Reqs {
				for _, r := range all {
					if r.Name == n {
						combo = append(combo, r)
					}
				}
			}
			h := c17Harness(u, combo, isolatedOutcomes(u, all), nil)
			f, tr := sched.Replay(h, rp.Schedule)
			fmt.Println("requests:", rp.Reqs)
			fmt.Println("schedule:", sched.FormatTrace(tr))
			if f != nil {
				fmt.Println("FAIL:", f.Msg)
				os.Exit(1)
			}
			fmt.Println("no violation")
		case "C16":
			var rp batchReplay
			a.LoadReplay(&rp)
			var r *schema.Resource
			for _, x := range u.Resources {
				if x.Namespace == rp.Res {
					r = x
				}
			}
			pool := keyPool(ownKeyType(r), true)
			var keys []poolKey
			for _, l := range rp.Keys {
				for _, k := range pool {
					if k.label == l {
						keys = append(keys, k)
						break
					}
				}
			}
			w := NewWorld(u, DefaultConfig)
			kind, detail := checkBatch(w, a.Gen, r, r.Method(rp.Method), keys, rp.Assign, rp.Foreign)
			fmt.Printf("%s.%s keys %v assignment %v foreign %q\n", r.Name(), rp.Method, rp.Keys, rp.Assign, rp.Foreign)
			if kind != "" && kind != "skip" {
				fmt.Println("FAIL:", kind, detail)
				os.Exit(1)
			}
			fmt.Println("no violation")
		case "C08":
			var rp outcomeReplay
			a.LoadReplay(&rp)
			var r *schema.Resource
			for _, x := range u.Resources {
				if x.Namespace == rp.Res {
					r = x
				}
			}
			w := NewWorld(u, DefaultConfig)
			for _, o := range outcomes(a.Gen) {
				if o.name != rp.Outcome {
					continue
				}
				kind, detail := checkOutcome(w, a.Gen, r, r.Method(rp.Method), o)
				fmt.Printf("%s.%s outcome %s\n", r.Name(), rp.Method, o.name)
				if kind != "" && kind != "skip" {
					fmt.Println("FAIL:", kind, detail, w.wireSummary())
					os.Exit(1)
				}
			}
			fmt.Println("no violation")
		default:
			report.Internal("unknown replay part %q", hdr.Part)
		}
		return
	}
	u := schema.ByName(univName)
	rootAdjust(a.Gen, u)
	switch a.Part {
	case "C02", "C14W", "C15W", "C09W":
		partC02(a, rep, univName, u)
	case "C07W":
		partC07W(a, rep, univName, u)
	case "C04H":
		partC04H(a, rep, univName, u)
	case "C06W":
		partC06W(a, rep, univName, u)
	case "C03W":
		partC03W(a, rep, univName, u)
	case "C08":
		partC08(a, rep, univName, u)
	case "C16":
		partC16(a, rep, univName, u)
	case "C17":
		partC17(a, rep, univName, u)
	case "C17race":
		partC17Race(a, u)
	default:
		report.Internal("unknown part %q", a.Part)
	}
	rep.Write(a.Out)
}

// rootAdjust mirrors what the emitter does for the root generation: partial_update never
// returns the entity there (the root runtime lacks that call; recorded under C12).
func rootAdjust(gen string, u *schema.Universe) {
	if gen != "root" {
		return
	}
	for _, r := range u.Resources {
		for _, m := range r.Methods {
			if m.Name == "partial_update" {
				m.ReturnEntity = false
			}
		}
	}
}
