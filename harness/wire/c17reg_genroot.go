package main

// the root module has no custom-typeref registry
func raceRegistry() {}
