package main

import (
	"context"
	"errors"
	"fmt"
	"net/http"
	"reflect"
	"strings"

	"github.com/PapaCharlie/go-restli/v2/restli"
	common "github.com/PapaCharlie/go-restli/v2/restlidata/generated/com/linkedin/restli/common"

	"verif/mc/hcli"
	"verif/mc/report"
	"verif/mc/schema"
)

type outcomeReplay struct {
	Gen     string `json:"gen"`
	Part    string `json:"part"`
	Univ    string `json:"universe"`
	Res     string `json:"resource"`
	Method  string `json:"method"`
	Outcome string `json:"outcome"`
}

var errFields = []string{"Status", "Message", "ServiceErrorCode", "ExceptionClass", "Code", "StackTrace"}

// newErrorResponse builds an ErrorResponse with the fields selected by mask set (fields the
// generation's ErrorResponse lacks are skipped).
func newErrorResponse(mask int) (*common.ErrorResponse, string) {
	e := &common.ErrorResponse{}
	rv := reflect.ValueOf(e).Elem()
	var set []string
	for i, name := range errFields {
		if mask&(1<<uint(i)) == 0 {
			continue
		}
		f := rv.FieldByName(name)
		if !f.IsValid() {
			continue
		}
		set = append(set, name)
		switch name {
		case "Status":
			v := int32(418)
			f.Set(reflect.ValueOf(&v))
		case "ServiceErrorCode":
			v := int32(77)
			f.Set(reflect.ValueOf(&v))
		default:
			v := "the " + name + " (:,')\"é"
			f.Set(reflect.ValueOf(&v))
		}
	}
	return e, strings.Join(set, "+")
}

func cloneErr(e *common.ErrorResponse) *common.ErrorResponse {
	c := *e
	rv, cv := reflect.ValueOf(e).Elem(), reflect.ValueOf(&c).Elem()
	for i := 0; i < rv.NumField(); i++ {
		f := rv.Field(i)
		if f.Kind() == reflect.Ptr && !f.IsNil() && f.Elem().Kind() != reflect.Struct {
			n := reflect.New(f.Type().Elem())
			n.Elem().Set(f.Elem())
			cv.Field(i).Set(n)
		}
	}
	return &c
}

func describeErr(e *common.ErrorResponse) string {
	rv := reflect.ValueOf(e).Elem()
	var parts []string
	for i := 0; i < rv.NumField(); i++ {
		f := rv.Field(i)
		if f.Kind() == reflect.Ptr && !f.IsNil() {
			parts = append(parts, fmt.Sprintf("%s=%v", rv.Type().Field(i).Name, f.Elem().Interface()))
		}
	}
	return "{" + strings.Join(parts, ", ") + "}"
}

type outcome struct {
	name  string
	apply func(r *Reply) (held *common.ErrorResponse)
	// expectation
	success    bool
	wantStatus int    // exact HTTP status (0 = see below)
	failure    bool   // any status >= 400, error header, message contains text
	text       string // text the client-visible message must contain
}

func outcomes(gen string) []outcome {
	var out []outcome
	out = append(out, outcome{name: "value", apply: func(r *Reply) *common.ErrorResponse { return nil }, success: true})
	out = append(out, outcome{name: "status-override-202", apply: func(r *Reply) *common.ErrorResponse {
		r.Status = 202
		if r.Created != nil {
			r.Created.Status = 202
		}
		return nil
	}, success: true, wantStatus: 202})
	// a status override no response can carry: a failure for the caller, never a crashed connection
	for _, st := range []int{99, 1000, 150} {
		st := st
		out = append(out, outcome{name: fmt.Sprintf("status-override-impossible-%d", st), apply: func(r *Reply) *common.ErrorResponse {
			r.Status = st
			if r.Created != nil {
				r.Created.Status = st
			}
			return nil
		}, failure: true})
	}
	out = append(out, outcome{name: "typed-nil-result", apply: func(r *Reply) *common.ErrorResponse { r.NilResult = true; return nil }, failure: true})
	seen := map[string]bool{}
	for mask := 0; mask < 1<<uint(len(errFields)); mask++ {
		e, desc := newErrorResponse(mask)
		if seen[desc] {
			continue
		}
		seen[desc] = true
		ee := e
		out = append(out, outcome{name: "error-response{" + desc + "}", apply: func(r *Reply) *common.ErrorResponse { r.Err = ee; return ee }})
	}
	// an error response whose own status is a success code is still delivered as an error
	for _, st := range []int32{200, 202} {
		e, _ := newErrorResponse(1<<uint(len(errFields)) - 1)
		st := st
		e.Status = &st
		ee := e
		out = append(out, outcome{name: fmt.Sprintf("error-response-status-%d", st), apply: func(r *Reply) *common.ErrorResponse { r.Err = ee; return ee }})
	}
	// texts that look like format directives pass through verbatim
	{
		e, _ := newErrorResponse(1<<uint(len(errFields)) - 1)
		msg := "95%d full %s 100%% %!v(x) %"
		e.Message = &msg
		ee := e
		out = append(out, outcome{name: "error-response-percent-message", apply: func(r *Reply) *common.ErrorResponse { r.Err = ee; return ee }})
	}
	out = append(out, outcome{name: "plain-error-percent", apply: func(r *Reply) *common.ErrorResponse { r.Err = errors.New("95%d full %s 100%% %!v(x) %"); return nil }, failure: true, text: "95%d full %s 100%% %!v(x) %"})
	out = append(out, outcome{name: "panic-percent", apply: func(r *Reply) *common.ErrorResponse { r.Panic = "boom %d %s %"; return nil }, failure: true, text: "boom %d %s %"})
	// a typed nil *ErrorResponse returned as the error (the classic Go slip), and statuses no HTTP response can carry:
	// a failure status and an error for the caller, never a crashed connection
	out = append(out, outcome{name: "typed-nil-error-response", apply: func(r *Reply) *common.ErrorResponse { r.Err = (*common.ErrorResponse)(nil); return nil }, failure: true})
	// (1xx: net/http would send an informational response and then answer 200)
	for _, st := range []int32{0, 99, 1000, -1, 100, 150, 199} {
		e, _ := newErrorResponse(2)
		st := st
		e.Status = &st
		ee := e
		out = append(out, outcome{name: fmt.Sprintf("error-response-impossible-status-%d", st), apply: func(r *Reply) *common.ErrorResponse { r.Err = ee; return nil }, failure: true})
	}
	out = append(out, outcome{name: "plain-error", apply: func(r *Reply) *common.ErrorResponse { r.Err = errors.New("boom-plain"); return nil }, failure: true, text: "boom-plain"})
	out = append(out, outcome{name: "wrapped-error-response", apply: func(r *Reply) *common.ErrorResponse {
		e, _ := newErrorResponse(3)
		r.Err = fmt.Errorf("wrapped: %w", e)
		return nil
	}, failure: true, text: "wrapped"})
	out = append(out, outcome{name: "panic-string", apply: func(r *Reply) *common.ErrorResponse { r.Panic = "boom-panic"; return nil }, failure: true, text: "boom-panic"})
	out = append(out, outcome{name: "panic-error", apply: func(r *Reply) *common.ErrorResponse { r.Panic = errors.New("boom-panic-error"); return nil }, failure: true, text: "boom-panic-error"})
	return out
}

func defaultStatus(m *schema.Method) int {
	switch m.Name {
	case "create":
		return 201
	case "update", "delete":
		return 204
	case "partial_update":
		if m.ReturnEntity {
			return 200
		}
		return 204
	}
	return 200
}

func hasResult(m *schema.Method) bool {
	switch {
	case m.Kind == "ACTION":
		return m.Return != nil
	case m.Kind == "FINDER":
		return true
	case m.Name == "update" || m.Name == "delete":
		return false
	case m.Name == "partial_update":
		return m.ReturnEntity
	}
	return true
}

func checkOutcome(w *World, gen string, r *schema.Resource, m *schema.Method, o outcome) (kind, detail string) {
	w.reset()
	call, reply := buildCall(gen, r, m, "none", nil)
	held := o.apply(reply)
	var before *common.ErrorResponse
	if held != nil {
		before = cloneErr(held)
	}
	if o.name == "typed-nil-result" && (!hasResult(m) || m.Name == "batch_create") {
		return "skip", "" // no result, or a slice result whose nil value simply is the empty list
	}
	if o.name == "typed-nil-result" && m.Kind == "ACTION" && m.Return.Kind != schema.Record {
		return "skip", "" // a primitive result has no nil
	}
	outs, pan := w.Do(call, reply)
	if pan != nil {
		return "client-panic", fmt.Sprint(pan)
	}
	last := w.transport.Last()
	if last == nil {
		return "nothing-sent", ""
	}
	if last.Panic != nil {
		return "connection-crashed", fmt.Sprintf("the handler panicked outside its recover: %v%s", last.Panic, firstLines(last.PanicStack, 12))
	}
	var callErr error
	if ev := outs[len(outs)-1]; !ev.IsNil() {
		callErr = ev.Interface().(error)
	}
	res := last.Response
	hdr := strings.ToLower(res.Header.Get("X-RestLi-Error-Response")) == "true"
	// the error object held by the resource must be untouched
	if held != nil && !reflect.DeepEqual(held, before) {
		return "error-object-modified", fmt.Sprintf("the ErrorResponse returned by the resource was %s before the call and is %s after it", describeErr(before), describeErr(held))
	}
	switch {
	case o.success:
		if callErr != nil {
			return "success-became-error", fmt.Sprintf("client error %v (status %d)", callErr, res.StatusCode)
		}
		if hdr {
			return "error-header-on-success", fmt.Sprintf("status %d carries X-RestLi-Error-Response", res.StatusCode)
		}
		want := o.wantStatus
		if want == 0 {
			want = defaultStatus(m)
		}
		if res.StatusCode != want {
			return "wrong-success-status", fmt.Sprintf("status %d, want %d", res.StatusCode, want)
		}
		if v := res.Header.Get("X-RestLi-Protocol-Version"); v != "2.0.0" {
			return "protocol-version-header", fmt.Sprintf("X-RestLi-Protocol-Version %q", v)
		}
	case held != nil:
		wantStatus := 500
		if held.Status != nil {
			wantStatus = int(*held.Status)
		}
		if res.StatusCode != wantStatus {
			return "wrong-error-status", fmt.Sprintf("status %d, want %d for %s", res.StatusCode, wantStatus, describeErr(held))
		}
		if !hdr {
			return "error-header-missing", fmt.Sprintf("status %d without X-RestLi-Error-Response", res.StatusCode)
		}
		var re *restli.Error
		if !errors.As(callErr, &re) {
			return "client-error-type", fmt.Sprintf("client returned %T %v, want *restli.Error", callErr, callErr)
		}
		if re.DeserializationError != nil {
			return "error-body-malformed", fmt.Sprintf("the client could not parse the error body %q: %v", last.Body, re.DeserializationError)
		}
		got := &re.ErrorResponse
		exp := cloneErr(before)
		if exp.Status == nil {
			s := int32(500)
			exp.Status = &s // the client fills the status from the HTTP status
		}
		if exp.Message == nil {
			got = cloneErr(got)
			got.Message = nil // a default message for an error without one is accepted
		}
		if !reflect.DeepEqual(got, exp) {
			return "error-response-altered", fmt.Sprintf("client got %s, resource returned %s", describeErr(&re.ErrorResponse), describeErr(before))
		}
	case o.failure:
		if callErr == nil {
			return "failure-became-success", fmt.Sprintf("status %d and no client error although the resource %s", res.StatusCode, o.name)
		}
		if res.StatusCode < 400 {
			return "failure-with-success-status", fmt.Sprintf("status %d", res.StatusCode)
		}
		if o.text != "" && !strings.Contains(callErr.Error()+string(last.Body), o.text) {
			return "failure-message-lost", fmt.Sprintf("neither the client error %q nor the body %q mentions %q", callErr, last.Body, o.text)
		}
		// "becomes an error response": the error header is set and the client receives a Rest.li error whose
		// message carries the text (errors and panics; a nil entity is only required to fail)
		if o.text != "" {
			if !hdr {
				return "failure-not-an-error-response", fmt.Sprintf("status %d without X-RestLi-Error-Response, content type %q, body %.200q", res.StatusCode, res.Header.Get("Content-Type"), last.Body)
			}
			var re *restli.Error
			if !errors.As(callErr, &re) {
				return "failure-client-error-type", fmt.Sprintf("client returned %T %v, want *restli.Error", callErr, callErr)
			}
			if re.Message == nil || !strings.Contains(*re.Message, o.text) {
				return "failure-message-lost", fmt.Sprintf("the error response's message %v does not mention %q", re.Message, o.text)
			}
		}
	}
	return "", ""
}

func firstLines(s string, n int) string {
	lines := strings.Split(s, "\n")
	var keep []string
	for _, l := range lines {
		if strings.Contains(l, "go-restli") || strings.Contains(l, "panic") {
			keep = append(keep, strings.TrimSpace(l))
		}
		if len(keep) >= n {
			break
		}
	}
	return "\n " + strings.Join(keep, "\n ")
}

// headerOnlyFilter adds a response header and never fails.
type headerOnlyFilter struct{}

func (headerOnlyFilter) PreRequest(req *http.Request) (context.Context, error) {
	return req.Context(), nil
}

func (headerOnlyFilter) PostRequest(ctx context.Context, h http.Header) error {
	h.Set("X-Verif-Filter", "seen")
	return nil
}

func partC08(a *hcli.Args, rep *report.Report, univName string, u *schema.Universe) {
	s := rep.S("outcomes")
	outs := outcomes(a.Gen)
	s.Bounds = fmt.Sprintf("every method of every resource x %d implementation outcomes (value, overridden status, typed nil, ErrorResponse with every subset of %v, plain error, wrapped ErrorResponse, panic(string), panic(error))", len(outs), errFields)
	// the same outcomes on a server without filters and on one with a header-only filter (filters
	// run around the method; they must not change what the caller is told)
	worlds := []struct {
		name string
		w    *World
	}{{"", NewWorld(u, DefaultConfig)}, {" filters=header-only", NewWorld(u, DefaultConfig, headerOnlyFilter{})}}
	item := 0
	for _, wd := range worlds {
		w := wd.w
		for _, r := range u.Resources {
			if len(r.ReadOnly)+len(r.CreateOnly) > 0 {
				continue
			}
			for _, m := range r.Methods {
				item++
				if !a.Mine(item) {
					continue
				}
				s.States++
				for _, o := range outs {
					kind, detail := checkOutcome(w, a.Gen, r, m, o)
					if kind == "skip" {
						continue
					}
					s.Evaluations++
					s.Transitions++
					s.Traces++
					if kind != "" {
						mk := m.Name
						if m.Kind != "REST_METHOD" {
							mk = strings.ToLower(m.Kind)
							if m.Return != nil {
								mk += "+result"
							}
						}
						rep.Fail(fmt.Sprintf("%s status %s method=%s outcome=%s%s", a.Gen, kind, mk, o.name, wd.name),
							fmt.Sprintf("%s.%s, resource %s: %s%s", r.Name(), ClientMethod(m), o.name, detail, w.wireSummary()),
							outcomeReplay{a.Gen, "C08", univName, r.Namespace, m.Name, o.name})
						s.Class("fail:" + kind)
					} else {
						s.Class("ok:" + strings.SplitN(o.name, "{", 2)[0])
					}
				}
			}
		}
	}
	w := worlds[0].w
	// shared error object across sequential requests + per-key batch errors
	if a.Shard == 0 {
		sh := rep.S("shared-error-object")
		shared, _ := newErrorResponse(0) // nothing set: every defaulting branch is exercised
		sharedMsg, _ := newErrorResponse(2)
		for _, e := range []*common.ErrorResponse{shared, sharedMsg} {
			before := cloneErr(e)
			var r *schema.Resource
			for _, x := range u.Resources {
				if x.Name() == "cString" {
					r = x
				}
			}
			for i, mn := range []string{"get", "delete", "get"} {
				w.reset()
				call, reply := buildCall(a.Gen, r, r.Method(mn), "none", nil)
				reply.Err = e
				_, pan := w.Do(call, reply)
				sh.Evaluations++
				sh.Transitions++
				sh.Traces++
				sh.States++
				last := w.transport.Last()
				switch {
				case pan != nil || (last != nil && last.Panic != nil):
					rep.Fail(fmt.Sprintf("%s status shared-error crash request=%d", a.Gen, i), fmt.Sprintf("request %d (%s) returning a shared %s crashed", i, mn, describeErr(before)), nil)
					sh.Class("fail:crash")
				case !reflect.DeepEqual(e, before):
					rep.Fail(fmt.Sprintf("%s status shared-error modified", a.Gen), fmt.Sprintf("after request %d (%s) the shared error object %s reads %s", i, mn, describeErr(before), describeErr(e)), nil)
					sh.Class("fail:modified")
				default:
					sh.Class("ok")
				}
			}
		}
		sb := rep.S("batch-per-key")
		var r *schema.Resource
		for _, x := range u.Resources {
			if x.Name() == "cString" {
				r = x
			}
		}
		m := r.Method("batch_get")
		ka := keyAlphabet(ownKeyType(r), true)
		keys := []*schema.V{ka[0], ka[2], ka[4]}
		kinds := []string{"result", "error", "status"}
		for a0 := 0; a0 < 3; a0++ {
			for a1 := 0; a1 < 3; a1++ {
				for a2 := 0; a2 < 3; a2++ {
					assign := []int{a0, a1, a2}
					w.reset()
					call, reply := buildCall(a.Gen, r, m, "none", nil)
					call.BatchKeys = keys
					reply.Batch = nil
					for i, k := range keys {
						e := &BatchEntry{K: k, Has: map[string]bool{}}
						switch kinds[assign[i]] {
						case "result":
							e.Has["results"] = true
							e.Result = replyEntity(r.Schema, fmt.Sprint(i))
						case "error":
							e.Has["errors"] = true
							st, msg := int32(404+i), fmt.Sprintf("no %d", i)
							e.Err = &ErrV{Status: &st, Message: &msg}
						case "status":
							e.Has["statuses"] = true
							e.Status = 202 + i
						}
						reply.Batch = append(reply.Batch, e)
					}
					outs, pan := w.Do(call, reply)
					sb.Evaluations++
					sb.Transitions++
					sb.Traces++
					sb.States++
					bad := ""
					if pan != nil {
						bad = fmt.Sprint("client panic: ", pan)
					} else if ev := outs[len(outs)-1]; !ev.IsNil() {
						bad = fmt.Sprint("client error: ", ev.Interface())
					} else {
						results, statuses, errs := readBatch(outs[0])
						for i, k := range keys {
							gk := keyToGo(k, reflect.TypeOf("")).Interface()
							_, inR := results[gk]
							_, inS := statuses[gk]
							ev, inE := errs[gk]
							want := kinds[assign[i]]
							if inR != (want == "result") || inE != (want == "error") || inS != (want == "status") {
								bad = fmt.Sprintf("key %s scripted as %s arrived in results=%v statuses=%v errors=%v", k, want, inR, inS, inE)
								break
							}
							if want == "error" {
								got := readErrResp(ev)
								if got.Status == nil || int(*got.Status) != 404+i || got.Message == nil || *got.Message != fmt.Sprintf("no %d", i) {
									bad = fmt.Sprintf("error under key %s altered", k)
								}
							}
							if want == "status" && int(statuses[gk].Int()) != 202+i {
								bad = fmt.Sprintf("status under key %s is %d, want %d", k, statuses[gk].Int(), 202+i)
							}
						}
					}
					if bad != "" {
						rep.Fail(fmt.Sprintf("%s status batch-per-key assignment=%v", a.Gen, assign), bad+w.wireSummary(), nil)
						sb.Class("fail")
					} else {
						sb.Class("ok")
					}
				}
			}
		}
	}
	rep.Sample(map[string]interface{}{"resource": "cString", "method": "get", "outcome": "error-response{Message+ExceptionClass}", "expect": "HTTP 500, X-RestLi-Error-Response: true, client *restli.Error with equal fields, resource's object untouched"})
}
