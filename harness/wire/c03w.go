package main

// C03 at the wire: the id / location part of create and batch_create responses. The X-RestLi-Id header (and the
// id member of batch_create elements) is the created key in ROR2 header form; the Location header (and the location
// member of elements) is the URL of the created entity: the request path followed by "/" and the key escaped for a
// URL path, so that a GET of it names that entity and no other.

import (
	"encoding/json"
	"fmt"
	"strings"

	"verif/mc/hcli"
	"verif/mc/ref/refror2"
	"verif/mc/report"
	"verif/mc/schema"
)

type idEnvReplay struct {
	Gen    string `json:"gen"`
	Part   string `json:"part"`
	Univ   string `json:"universe"`
	Res    string `json:"resource"`
	Method string `json:"method"`
	Dev    string `json:"dev"`
}

func checkCreatedEnvelope(w *World, gen string, r *schema.Resource, m *schema.Method, key *schema.V) (kind, detail string) {
	w.reset()
	call, reply := buildCall(gen, r, m, "none", nil)
	if m.Name == "create" {
		reply.Created = &CreatedV{Id: key}
		if m.ReturnEntity {
			reply.Created.Entity = replyEntity(r.Schema, "c")
		}
	} else {
		reply.CreatedList = []*CreatedV{{Id: key, Status: 201}}
		if m.ReturnEntity {
			reply.CreatedList[0].Entity = replyEntity(r.Schema, "c")
		}
		if len(call.Entities) > 1 {
			call.Entities = call.Entities[:1]
		}
	}
	outs, pan := w.Do(call, reply)
	if pan != nil {
		return "client-panic", fmt.Sprint(pan)
	}
	last := w.transport.Last()
	if last == nil || last.Response == nil {
		return "nothing-sent", ""
	}
	if ev := outs[len(outs)-1]; !ev.IsNil() {
		return "client-error", fmt.Sprintf("%v%s", ev.Interface(), w.wireSummary())
	}
	keyT := ownKeyType(r)
	// (alternative legal escapes are fine: the texts are judged by what they denote)
	isKey := func(text string, ctx refror2.Ctx) error {
		v, err := refror2.DecodeText(keyT, text, ctx)
		if err != nil {
			return fmt.Errorf("does not denote a key: %v", err)
		}
		if !schema.Equal(v, key) {
			return fmt.Errorf("denotes %s", v)
		}
		return nil
	}
	isLocation := func(loc string) error {
		prefix := strings.TrimSuffix(last.ServerReq.URL.EscapedPath(), "/") + "/"
		if !strings.HasPrefix(loc, prefix) {
			return fmt.Errorf("does not start with the request path %q", prefix)
		}
		seg := loc[len(prefix):]
		if strings.ContainsAny(seg, "/?#") {
			return fmt.Errorf("the key part %q holds an unescaped '/', '?' or '#': the URL names something else", seg)
		}
		return isKey(seg, refror2.Path)
	}
	if m.Name == "create" {
		if err := isKey(last.Response.Header.Get("X-RestLi-Id"), refror2.Header); err != nil {
			return "id-header", fmt.Sprintf("X-RestLi-Id %q for the created key %s %v", last.Response.Header.Get("X-RestLi-Id"), key, err)
		}
		if err := isLocation(last.Response.Header.Get("Location")); err != nil {
			return "location-header", fmt.Sprintf("Location %q for the created key %s %v", last.Response.Header.Get("Location"), key, err)
		}
		return "", ""
	}
	var body struct {
		Elements []struct {
			ID       *string `json:"id"`
			Location *string `json:"location"`
			Status   *int    `json:"status"`
		} `json:"elements"`
	}
	if err := json.Unmarshal(last.Body, &body); err != nil || len(body.Elements) != 1 {
		return "batch-create-envelope", fmt.Sprintf("response body %s is not {elements:[one element]} (%v)", last.Body, err)
	}
	el := body.Elements[0]
	if el.ID == nil {
		return "element-id", fmt.Sprintf("no element id in %s", last.Body)
	}
	if err := isKey(*el.ID, refror2.Header); err != nil {
		return "element-id", fmt.Sprintf("element id %q in %s for the created key %s %v", *el.ID, last.Body, key, err)
	}
	if el.Status == nil || *el.Status != 201 {
		return "element-status", fmt.Sprintf("element status %v in %s, want 201", el.Status, last.Body)
	}
	if el.Location != nil {
		if err := isLocation(*el.Location); err != nil {
			return "element-location", fmt.Sprintf("element location %q for the created key %s %v", *el.Location, key, err)
		}
	}
	return "", ""
}

func partC03W(a *hcli.Args, rep *report.Report, univName string, u *schema.Universe) {
	s := rep.S("created-id-and-location")
	item, nres := 0, 0
	w := NewWorld(u, DefaultConfig)
	c := DefaultConfig
	c.Base = "http://h/ctx/"
	wc := NewWorld(u, c)
	for _, r := range u.Resources {
		last := r.Segments[len(r.Segments)-1]
		if last.KeyName == "" || len(r.ReadOnly)+len(r.CreateOnly) > 0 {
			continue
		}
		nres++
		for _, mn := range []string{"create", "batch_create"} {
			m := r.Method(mn)
			if m == nil {
				continue
			}
			s.States++
			for _, key := range keyAlphabet(last.KeyType, !a.Thorough() && len(r.Segments) > 1) {
				if key.Fields != nil && key.Fields["$params"] != nil {
					continue // parameters of a complex key are not part of the entity's identity
				}
				item++
				if !a.Mine(item) {
					continue
				}
				for wi, world := range []*World{w, wc} {
					kind, detail := checkCreatedEnvelope(world, a.Gen, r, m, key)
					s.Evaluations++
					s.Transitions++
					s.Traces++
					if kind != "" {
						rep.Fail(fmt.Sprintf("%s created-envelope %s %s %s key=%s", a.Gen, kind, resourceKind(r), mn, leafLabel(key.Dev)),
							fmt.Sprintf("%s.%s (context %d): %s", r.Name(), mn, wi, detail), idEnvReplay{a.Gen, "C03W", univName, r.Namespace, mn, key.Dev})
						s.Class("fail:" + kind)
					} else {
						s.Class("ok:" + mn)
					}
				}
			}
		}
	}
	s.Bounds = fmt.Sprintf("%d keyed collections (root and sub-resources) x {create, batch_create} x the full key alphabet (reduced below parents) x {no context path, /ctx/}: X-RestLi-Id / element id = the key in ROR2 header form, Location / element location = request path + \"/\" + the key escaped for a URL path, element status 201", nres)
}
