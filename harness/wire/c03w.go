package main

// C03 at the wire: the id / location part of create and batch_create responses. The X-RestLi-Id header (and the
// id member of batch_create elements) is the created key in ROR2 header form; the Location header (and the location
// member of elements) is the URL of the created entity: the request path followed by "/" and the key escaped for a
// URL path, so that a GET of it names that entity and no other.

import (
	"encoding/json"
	"fmt"
	"strings"

	common "github.com/PapaCharlie/go-restli/v2/restlidata/generated/com/linkedin/restli/common"
	"verif/mc/hcli"
	"verif/mc/ref/refror2"
	"verif/mc/report"
	"verif/mc/schema"
)

type idEnvReplay struct {
	Gen    string `json:"gen"`
	Part   string `json:"part"`
	Univ   string `json:"universe"`
	Res    string `json:"resource"`
	Method string `json:"method"`
	Dev    string `json:"dev"`
}

func checkCreatedEnvelope(w *World, gen string, r *schema.Resource, m *schema.Method, key *schema.V) (kind, detail string) {
	w.reset()
	call, reply := buildCall(gen, r, m, "none", nil)
	if m.Name == "create" {
		reply.Created = &CreatedV{Id: key}
		if m.ReturnEntity {
			reply.Created.Entity = replyEntity(r.Schema, "c")
		}
	} else {
		reply.CreatedList = []*CreatedV{{Id: key, Status: 201}}
		if m.ReturnEntity {
			reply.CreatedList[0].Entity = replyEntity(r.Schema, "c")
		}
		if len(call.Entities) > 1 {
			call.Entities = call.Entities[:1]
		}
	}
	outs, pan := w.Do(call, reply)
	if pan != nil {
		return "client-panic", fmt.Sprint(pan)
	}
	last := w.transport.Last()
	if last == nil || last.Response == nil {
		return "nothing-sent", ""
	}
	if ev := outs[len(outs)-1]; !ev.IsNil() {
		return "client-error", fmt.Sprintf("%v%s", ev.Interface(), w.wireSummary())
	}
	keyT := ownKeyType(r)
	// (alternative legal escapes are fine: the texts are judged by what they denote)
	isKey := func(text string, ctx refror2.Ctx) error {
		v, err := refror2.DecodeText(keyT, text, ctx)
		if err != nil {
			return fmt.Errorf("does not denote a key: %v", err)
		}
		if !schema.Equal(v, key) {
			return fmt.Errorf("denotes %s", v)
		}
		return nil
	}
	isLocation := func(loc string) error {
		prefix := strings.TrimSuffix(last.ServerReq.URL.EscapedPath(), "/") + "/"
		if !strings.HasPrefix(loc, prefix) {
			return fmt.Errorf("does not start with the request path %q", prefix)
		}
		seg := loc[len(prefix):]
		if strings.ContainsAny(seg, "/?#") {
			return fmt.Errorf("the key part %q holds an unescaped '/', '?' or '#': the URL names something else", seg)
		}
		return isKey(seg, refror2.Path)
	}
	if m.Name == "create" {
		if err := isKey(last.Response.Header.Get("X-RestLi-Id"), refror2.Header); err != nil {
			return "id-header", fmt.Sprintf("X-RestLi-Id %q for the created key %s %v", last.Response.Header.Get("X-RestLi-Id"), key, err)
		}
		if err := isLocation(last.Response.Header.Get("Location")); err != nil {
			return "location-header", fmt.Sprintf("Location %q for the created key %s %v", last.Response.Header.Get("Location"), key, err)
		}
		return "", ""
	}
	var body struct {
		Elements []struct {
			ID       *string `json:"id"`
			Location *string `json:"location"`
			Status   *int    `json:"status"`
		} `json:"elements"`
	}
	if err := json.Unmarshal(last.Body, &body); err != nil || len(body.Elements) != 1 {
		return "batch-create-envelope", fmt.Sprintf("response body %s is not {elements:[one element]} (%v)", last.Body, err)
	}
	el := body.Elements[0]
	if el.ID == nil {
		return "element-id", fmt.Sprintf("no element id in %s", last.Body)
	}
	if err := isKey(*el.ID, refror2.Header); err != nil {
		return "element-id", fmt.Sprintf("element id %q in %s for the created key %s %v", *el.ID, last.Body, key, err)
	}
	if el.Status == nil || *el.Status != 201 {
		return "element-status", fmt.Sprintf("element status %v in %s, want 201", el.Status, last.Body)
	}
	if el.Location != nil {
		if err := isLocation(*el.Location); err != nil {
			return "element-location", fmt.Sprintf("element location %q for the created key %s %v", *el.Location, key, err)
		}
	}
	return "", ""
}


// checkBatchEnvelope: the response body of a batch method with the given keys filed under results / errors /
// statuses is {"results":{...}[,"errors":{...}][,"statuses":{...}]}: results - the one member the protocol requires -
// is there even when it is empty (all keys failed, no keys), every member is an object keyed by the keys in ROR2
// header form, and every response carries the protocol version header.
func checkBatchEnvelope(w *World, gen string, r *schema.Resource, m *schema.Method, keys []*schema.V, kinds []string) (kind, detail string) {
	w.reset()
	call, reply := buildCall(gen, r, m, "none", nil)
	call.BatchKeys = keys
	if call.Entities != nil {
		for len(call.Entities) < len(keys) {
			call.Entities = append(call.Entities, call.Entities[0])
		}
		call.Entities = call.Entities[:len(keys)]
	}
	reply.Batch = nil
	for i, k := range keys {
		e := &BatchEntry{K: k, Has: map[string]bool{}}
		switch kinds[i] {
		case "result":
			e.Has["results"] = true
			if m.Name == "batch_get" {
				e.Result = replyEntity(r.Schema, fmt.Sprint(i))
			} else {
				e.Status = 204
			}
		case "error":
			e.Has["errors"] = true
			st, msg := int32(404+i), fmt.Sprintf("no %d", i)
			e.Err = &ErrV{Status: &st, Message: &msg}
		}
		reply.Batch = append(reply.Batch, e)
	}
	_, pan := w.Do(call, reply)
	if pan != nil {
		return "client-panic", fmt.Sprint(pan)
	}
	last := w.transport.Last()
	if last == nil || last.Response == nil {
		return "nothing-sent", ""
	}
	if v := last.Response.Header.Get("X-RestLi-Protocol-Version"); v != "2.0.0" {
		return "protocol-version-header", fmt.Sprintf("status %d with X-RestLi-Protocol-Version %q", last.Response.StatusCode, v)
	}
	var body map[string]json.RawMessage
	if err := json.Unmarshal(last.Body, &body); err != nil {
		return "batch-envelope", fmt.Sprintf("response body %s is not a JSON object (%v)", last.Body, err)
	}
	members := map[string]map[string]json.RawMessage{}
	for name, raw := range body {
		var mm map[string]json.RawMessage
		if err := json.Unmarshal(raw, &mm); err != nil || mm == nil {
			return "batch-envelope", fmt.Sprintf("member %q of %s is not an object", name, last.Body)
		}
		members[name] = mm
	}
	if _, ok := members["results"]; !ok {
		return "batch-envelope-results-missing", fmt.Sprintf("response body %s has no results member", last.Body)
	}
	keyT := ownKeyType(r)
	for i, k := range keys {
		where := map[string]string{"result": "results", "error": "errors"}[kinds[i]]
		found := false
		for text := range members[where] {
			if v, err := refror2.DecodeText(keyT, text, refror2.Header); err == nil && schema.Equal(v, k) {
				found = true
			}
		}
		if !found {
			return "batch-envelope-key", fmt.Sprintf("key %s scripted under %s is not there in %s", k, where, last.Body)
		}
	}
	return "", ""
}

// checkErrorEnvelope: an error response reported by the resource method travels with its status, the error header,
// the protocol version header and a JSON object body carrying the status.
func checkErrorEnvelope(w *World, gen string, r *schema.Resource, m *schema.Method) (kind, detail string) {
	w.reset()
	call, reply := buildCall(gen, r, m, "none", nil)
	st, msg := int32(404), "nothing here"
	reply.Err = &common.ErrorResponse{Status: &st, Message: &msg}
	_, pan := w.Do(call, reply)
	if pan != nil {
		return "client-panic", fmt.Sprint(pan)
	}
	last := w.transport.Last()
	if last == nil || last.Response == nil {
		return "nothing-sent", ""
	}
	if last.Response.StatusCode != 404 {
		return "error-status", fmt.Sprintf("status %d, want 404", last.Response.StatusCode)
	}
	if v := last.Response.Header.Get("X-RestLi-Protocol-Version"); v != "2.0.0" {
		return "protocol-version-header", fmt.Sprintf("status %d with X-RestLi-Protocol-Version %q", last.Response.StatusCode, v)
	}
	if v := last.Response.Header.Get("X-RestLi-Error-Response"); strings.ToLower(v) != "true" {
		return "error-header", fmt.Sprintf("status %d with X-RestLi-Error-Response %q", last.Response.StatusCode, v)
	}
	var body struct {
		Status  *int    `json:"status"`
		Message *string `json:"message"`
	}
	if err := json.Unmarshal(last.Body, &body); err != nil || body.Status == nil || *body.Status != 404 || body.Message == nil || *body.Message != "nothing here" {
		return "error-envelope", fmt.Sprintf("error body %s is not {status:404, message:...} (%v)", last.Body, err)
	}
	return "", ""
}

func partC03W(a *hcli.Args, rep *report.Report, univName string, u *schema.Universe) {
	s := rep.S("created-id-and-location")
	item, nres := 0, 0
	w := NewWorld(u, DefaultConfig)
	c := DefaultConfig
	c.Base = "http://h/ctx/"
	wc := NewWorld(u, c)
	for _, r := range u.Resources {
		last := r.Segments[len(r.Segments)-1]
		if last.KeyName == "" || len(r.ReadOnly)+len(r.CreateOnly) > 0 {
			continue
		}
		nres++
		for _, mn := range []string{"create", "batch_create"} {
			m := r.Method(mn)
			if m == nil {
				continue
			}
			s.States++
			for _, key := range keyAlphabet(last.KeyType, !a.Thorough() && len(r.Segments) > 1) {
				if key.Fields != nil && key.Fields["$params"] != nil {
					continue // parameters of a complex key are not part of the entity's identity
				}
				item++
				if !a.Mine(item) {
					continue
				}
				for wi, world := range []*World{w, wc} {
					kind, detail := checkCreatedEnvelope(world, a.Gen, r, m, key)
					s.Evaluations++
					s.Transitions++
					s.Traces++
					if kind != "" {
						rep.Fail(fmt.Sprintf("%s created-envelope %s %s %s key=%s", a.Gen, kind, resourceKind(r), mn, leafLabel(key.Dev)),
							fmt.Sprintf("%s.%s (context %d): %s", r.Name(), mn, wi, detail), idEnvReplay{a.Gen, "C03W", univName, r.Namespace, mn, key.Dev})
						s.Class("fail:" + kind)
					} else {
						s.Class("ok:" + mn)
					}
				}
			}
		}
	}
	s.Bounds = fmt.Sprintf("%d keyed collections (root and sub-resources) x {create, batch_create} x the full key alphabet (reduced below parents) x {no context path, /ctx/}: X-RestLi-Id / element id = the key in ROR2 header form, Location / element location = request path + \"/\" + the key escaped for a URL path, element status 201", nres)
	// batch and error envelopes
	se := rep.S("batch-and-error-envelopes")
	nb := 0
	for _, r := range u.Resources {
		last := r.Segments[len(r.Segments)-1]
		for _, m := range r.Methods {
			item++
			if !a.Mine(item) {
				continue
			}
			se.States++
			run := func(what string, kind, detail string) {
				se.Evaluations++
				se.Transitions++
				se.Traces++
				if kind != "" {
					rep.Fail(fmt.Sprintf("%s response-envelope %s %s %s %s", a.Gen, kind, resourceKind(r), ClientMethod(m), what), fmt.Sprintf("%s.%s %s: %s", r.Name(), ClientMethod(m), what, detail), nil)
					se.Class("fail:" + kind)
				} else {
					se.Class("ok:" + what)
				}
			}
			kind, detail := checkErrorEnvelope(w, a.Gen, r, m)
			run("error-response", kind, detail)
			if last.KeyName == "" || len(r.ReadOnly)+len(r.CreateOnly) > 0 || len(r.Segments) > 1 {
				continue
			}
			switch m.Name {
			case "batch_get", "batch_update", "batch_partial_update", "batch_delete":
			default:
				continue
			}
			nb++
			ka := keyAlphabet(last.KeyType, true)
			var keys []*schema.V
			for _, k := range ka {
				if k.Fields != nil && k.Fields["$params"] != nil {
					continue
				}
				if len(keys) < 2 {
					keys = append(keys, k)
				}
			}
			for _, kinds := range [][]string{{"result", "result"}, {"error", "error"}, {"result", "error"}, {"error", "result"}} {
				if len(keys) < 2 {
					break
				}
				kind, detail := checkBatchEnvelope(w, a.Gen, r, m, keys, kinds)
				run("batch:"+strings.Join(kinds, "+"), kind, detail)
			}
		}
	}
	se.Bounds = fmt.Sprintf("every method of every resource answering an ErrorResponse(404): status, error header, protocol version header, JSON body {status, message}; %d batch methods of keyed root collections x {both keys succeed, both fail, one of each in either order}: the body has the results member (even when empty), every member is an object keyed by the keys in ROR2 header form, protocol version header", nb)

}
