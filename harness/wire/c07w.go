package main

import (
	"fmt"
	"net/http"
	"strings"

	"verif/mc/hcli"
	"verif/mc/ref/refjson"
	"verif/mc/report"
	"verif/mc/schema"
	"verif/mc/wire"
)

type exclWireReplay struct {
	Gen  string `json:"gen"`
	Part string `json:"part"`
	Univ string `json:"universe"`
	Case string `json:"case"`
}

func specPaths(ds []string) [][]string {
	var out [][]string
	for _, d := range ds {
		out = append(out, strings.Split(d, "/"))
	}
	return out
}

func refMatchesW(spec [][]string, path []string) bool {
	for _, sp := range spec {
		if len(sp) > len(path) {
			continue
		}
		ok := true
		for i, seg := range sp {
			if seg != "*" && seg != path[i] {
				ok = false
				break
			}
		}
		if ok {
			return true
		}
	}
	return false
}

func pruneW(v *schema.V, spec [][]string, path []string) *schema.V {
	if v == nil {
		return nil
	}
	c := v.Clone()
	switch v.T.Base().Kind {
	case schema.Record:
		for name, fv := range v.Fields {
			p := append(append([]string{}, path...), name)
			if refMatchesW(spec, p) {
				delete(c.Fields, name)
			} else {
				c.Fields[name] = pruneW(fv, spec, p)
			}
		}
	case schema.Array:
		for i, it := range v.Items {
			c.Items[i] = pruneW(it, spec, append(append([]string{}, path...), "*"))
		}
	case schema.Map:
		c.Keys = nil
		c.Ent = map[string]*schema.V{}
		for _, k := range v.Keys {
			p := append(append([]string{}, path...), k)
			if refMatchesW(spec, p) {
				continue
			}
			c.Keys = append(c.Keys, k)
			c.Ent[k] = pruneW(v.Ent[k], spec, p)
		}
	}
	return c
}

type exclCase struct {
	name string
	run  func(w *World) (kind, detail string)
}

// annotatedCases: the cases of every resource that declares read-only and / or create-only fields.
func annotatedCases(gen string, u *schema.Universe) []exclCase {
	var out []exclCase
	for _, x := range u.Resources {
		if len(x.ReadOnly) > 0 || len(x.CreateOnly) > 0 {
			for _, c := range annotatedCasesFor(gen, u, x) {
				c.name = x.Name() + ":" + c.name
				out = append(out, c)
			}
		}
	}
	if len(out) == 0 {
		report.Internal("no annotated resource in the universe")
	}
	return out
}

func annotatedCasesFor(gen string, u *schema.Universe, r *schema.Resource) []exclCase {
	ro := specPaths(r.ReadOnly)
	roco := specPaths(append(append([]string{}, r.ReadOnly...), r.CreateOnly...))
	ann := r.Schema
	full := schema.Rich(ann)
	key := schema.VI(ownKeyType(r), 7)
	var cases []exclCase

	// the entity the resource must see = the caller's entity minus the excluded sub-trees; the wire body likewise
	entityCase := func(method string, spec [][]string, batch bool) exclCase {
		return exclCase{method + "-strips-excluded", func(w *World) (string, string) {
			w.reset()
			m := r.Method(method)
			call := &Call{Res: r, M: m}
			reply := &Reply{}
			switch method {
			case "create":
				call.Entity = full
				reply.Created = &CreatedV{Id: key}
			case "update":
				call.Keys = []*schema.V{key}
				call.Entity = full
			case "batch_create":
				call.Entities = []*schema.V{full, schema.Base(ann)}
				reply.CreatedList = []*CreatedV{{Id: key, Status: 201}, {Id: schema.VI(ownKeyType(r), 8), Status: 201}}
			case "batch_update":
				// several entities: what is stripped from one must not disturb the next
				// (flat: required fields plus the last field the marshaler writes, which the richer specs exclude)
				flat := schema.Base(ann).With("zStamp", schema.VI(ann.Field("zStamp").Type, 5))
				for i, v := range []*schema.V{full, flat, schema.Base(ann), flat, full} {
					k := schema.VI(ownKeyType(r), int64(7+i))
					call.Keyed = append(call.Keyed, KV{K: k, V: v})
					reply.Batch = append(reply.Batch, &BatchEntry{K: k, Has: map[string]bool{"results": true}, Status: 204})
				}
			}
			if m.ReturnEntity {
				if reply.Created != nil {
					reply.Created.Entity = full
				}
				for _, c := range reply.CreatedList {
					c.Entity = full
				}
			}
			outs, pan := w.Do(call, reply)
			if pan != nil {
				return "client-panic", fmt.Sprint(pan)
			}
			if ev := outs[len(outs)-1]; !ev.IsNil() {
				return "client-error", fmt.Sprintf("%v%s", ev.Interface(), w.wireSummary())
			}
			last := w.transport.Last()
			// 1. the body on the wire carries no excluded value and everything else
			body, err := bodyOf(last)
			if err != nil {
				return "wire-body", err.Error()
			}
			doc, err := refjson.ParseStrict(body)
			if err != nil {
				return "wire-body", fmt.Sprintf("body %q: %v", body, err)
			}
			var sent []*schema.V
			sentByKey := map[string]*schema.V{}
			switch method {
			case "create", "update":
				v, err := looseDecode(ann, doc)
				if err != nil {
					return "wire-body", err.Error()
				}
				sent = []*schema.V{v}
			case "batch_create":
				o := doc.(*refjson.Obj)
				for _, e := range o.Vals["elements"].([]interface{}) {
					v, err := looseDecode(ann, e)
					if err != nil {
						return "wire-body", err.Error()
					}
					sent = append(sent, v)
				}
			case "batch_update":
				o := doc.(*refjson.Obj).Vals["entities"].(*refjson.Obj)
				for _, k := range o.Keys {
					v, err := looseDecode(ann, o.Vals[k])
					if err != nil {
						return "wire-body", err.Error()
					}
					sentByKey[k] = v
				}
				// every entity given to the client, each minus its excluded values, and nothing else
				if len(sentByKey) != len(call.Keyed) {
					return "wire-body-not-exact", fmt.Sprintf("body %q carries %d entities, %d were given to the client", body, len(sentByKey), len(call.Keyed))
				}
				for _, kv := range call.Keyed {
					got := sentByKey[fmt.Sprint(kv.K.I)]
					if want := pruneW(kv.V, spec, nil); got == nil || !schema.Equal(got, want) {
						return "wire-body-not-exact", fmt.Sprintf("body %q: the entity under key %d is %s, want exactly %s", body, kv.K.I, got, want)
					}
				}
				sent = []*schema.V{sentByKey["7"]}
			}
			wantFirst := pruneW(full, spec, nil)
			if len(sent) == 0 || !schema.Equal(sent[0], wantFirst) {
				return "wire-body-not-exact", fmt.Sprintf("body %q carries %v, want exactly %s", body, sent, wantFirst)
			}
			// 2. the resource got exactly that
			if len(w.calls) != 1 {
				return "not-delivered", fmt.Sprintf("%d resource invocations%s", len(w.calls), w.wireSummary())
			}
			return "", ""
		}}
	}
	cases = append(cases, entityCase("create", ro, false), entityCase("batch_create", ro, true), entityCase("update", roco, false), entityCase("batch_update", roco, true))

	// partial updates: a patch touching an excluded field must fail in the client before anything is
	// sent; every other patch must arrive unchanged. What is excluded is the resource's own spec.
	f := func(n string) *schema.Field { return ann.Field(n) }
	ent := f("inner").Type
	type probe struct {
		name string
		p    *Patch
		path []string
	}
	probes := []probe{
		{"set-id", &Patch{T: ann, Set: map[string]*schema.V{"id": schema.VI(f("id").Type, 1)}}, []string{"id"}},
		{"set-created", &Patch{T: ann, Set: map[string]*schema.V{"created": schema.VI(f("created").Type, 1)}}, []string{"created"}},
		{"delete-created", &Patch{T: ann, Delete: []string{"created"}}, []string{"created"}},
		{"nested-set-inner-o", &Patch{T: ann, Nested: map[string]*Patch{"inner": {T: ent, Set: map[string]*schema.V{"o": schema.VS(ent.Field("o").Type, "x")}}}}, []string{"inner", "o"}},
		{"nested-set-inner-a", &Patch{T: ann, Nested: map[string]*Patch{"inner": {T: ent, Set: map[string]*schema.V{"a": schema.VI(ent.Field("a").Type, 1)}}}}, []string{"inner", "a"}},
		{"nested-delete-inner-o", &Patch{T: ann, Nested: map[string]*Patch{"inner": {T: ent, Delete: []string{"o"}}}}, []string{"inner", "o"}},
		{"set-name", &Patch{T: ann, Set: map[string]*schema.V{"name": schema.VS(f("name").Type, "n")}}, []string{"name"}},
		{"nested-set-inner-s", &Patch{T: ann, Nested: map[string]*Patch{"inner": {T: ent, Set: map[string]*schema.V{"s": schema.VS(ent.Field("s").Type, "x")}}}}, []string{"inner", "s"}},
		{"delete-items", &Patch{T: ann, Delete: []string{"items"}}, []string{"items"}},
		{"nested-delete-inner-m", &Patch{T: ann, Nested: map[string]*Patch{"inner": {T: ent, Delete: []string{"m"}}}}, []string{"inner", "m"}},
		{"set-innerUrn", &Patch{T: ann, Set: map[string]*schema.V{"innerUrn": schema.VS(f("innerUrn").Type, "urn:x")}}, []string{"innerUrn"}},
		{"delete-innerUrn", &Patch{T: ann, Delete: []string{"innerUrn"}}, []string{"innerUrn"}},
	}
	for _, method := range []string{"partial_update", "batch_partial_update"} {
		for _, pr := range probes {
			method, name, p := method, pr.name, pr.p
			if refMatchesW(roco, pr.path) {
				cases = append(cases, exclCase{method + "-refused:" + name, func(w *World) (string, string) {
					w.reset()
					m := r.Method(method)
					call := &Call{Res: r, M: m}
					reply := &Reply{}
					if method == "partial_update" {
						call.Keys = []*schema.V{key}
						call.Patch = p
						if m.ReturnEntity {
							reply.Entity = full
						}
					} else {
						call.Keyed = []KV{{K: key, P: p}}
						reply.Batch = []*BatchEntry{{K: key, Has: map[string]bool{"results": true}, Status: 204}}
					}
					outs, pan := w.Do(call, reply)
					if pan != nil {
						return "client-panic", fmt.Sprint(pan)
					}
					if outs[len(outs)-1].IsNil() {
						return "excluded-patch-accepted", fmt.Sprintf("%s was sent and succeeded%s", p, w.wireSummary())
					}
					if n := len(w.transport.Exchanges); n != 0 {
						return "excluded-patch-sent", fmt.Sprintf("%s failed (%v) but %d request(s) reached the wire%s", p, outs[len(outs)-1].Interface(), n, w.wireSummary())
					}
					return "", ""
				}})
				continue
			}
			cases = append(cases, exclCase{method + "-allowed:" + name, func(w *World) (string, string) {
				w.reset()
				m := r.Method(method)
				call := &Call{Res: r, M: m}
				reply := &Reply{}
				if method == "partial_update" {
					call.Keys = []*schema.V{key}
					call.Patch = p
					if m.ReturnEntity {
						reply.Entity = full
					}
				} else {
					call.Keyed = []KV{{K: key, P: p}}
					reply.Batch = []*BatchEntry{{K: key, Has: map[string]bool{"results": true}, Status: 204}}
				}
				outs, pan := w.Do(call, reply)
				if pan != nil {
					return "client-panic", fmt.Sprint(pan)
				}
				if ev := outs[len(outs)-1]; !ev.IsNil() {
					return "clean-patch-refused", fmt.Sprintf("%s: %v%s", p, ev.Interface(), w.wireSummary())
				}
				if len(w.calls) != 1 {
					return "not-delivered", fmt.Sprintf("%d resource invocations", len(w.calls))
				}
				var got *Patch
				if method == "partial_update" {
					got = patchFromGo(w.calls[0].args[1], ann)
				} else {
					it := w.calls[0].args[0].MapRange()
					for it.Next() {
						got = patchFromGo(it.Value(), ann)
					}
				}
				if !patchEqual(got, p) {
					return "patch-altered", fmt.Sprintf("patch arrived as %s, sent %s", got, p)
				}
				return "", ""
			}})
		}
	}

	// server side: a raw body that carries a value at an excluded path must be answered 400 without
	// invoking the resource; the same body on a resource that does not exclude that path must reach it
	rawCase := func(name, method, restli, target, body string, spec [][]string, paths ...[]string) exclCase {
		refuse := false
		for _, pth := range paths {
			if refMatchesW(spec, pth) {
				refuse = true
			}
		}
		if !refuse {
			return exclCase{"server-accepts:" + name, func(w *World) (string, string) {
				w.reset()
				raw := fmt.Sprintf("%s %s HTTP/1.1\r\nHost: h\r\nX-RestLi-Method: %s\r\nX-RestLi-Protocol-Version: 2.0.0\r\nContent-Type: application/json\r\nContent-Length: %d\r\n\r\n%s", method, target, restli, len(body), body)
				x, err := wire.DoRaw(w.transport.Handler, []byte(raw))
				if x != nil && x.Panic != nil {
					return "server-panic", fmt.Sprint(x.Panic)
				}
				if err != nil || x.Response == nil {
					return "no-response", fmt.Sprint(err)
				}
				if len(w.calls) != 1 {
					return "allowed-body-refused", fmt.Sprintf("status %d and %d resource invocations for a body without excluded fields: %s; response %.200q", x.Response.StatusCode, len(w.calls), body, x.Body)
				}
				return "", ""
			}}
		}
		return exclCase{"server-refuses:" + name, func(w *World) (string, string) {
			w.reset()
			raw := fmt.Sprintf("%s %s HTTP/1.1\r\nHost: h\r\nX-RestLi-Method: %s\r\nX-RestLi-Protocol-Version: 2.0.0\r\nContent-Type: application/json\r\nContent-Length: %d\r\n\r\n%s", method, target, restli, len(body), body)
			x, err := wire.DoRaw(w.transport.Handler, []byte(raw))
			if x != nil && x.Panic != nil {
				return "server-panic", fmt.Sprint(x.Panic)
			}
			if err != nil || x.Response == nil {
				return "no-response", fmt.Sprint(err)
			}
			if len(w.calls) != 0 {
				return "excluded-field-reached-resource", fmt.Sprintf("status %d; the resource was invoked with a body carrying an excluded field: %s", x.Response.StatusCode, body)
			}
			if x.Response.StatusCode != http.StatusBadRequest {
				return "wrong-status", fmt.Sprintf("status %d, want 400; body %.200q", x.Response.StatusCode, x.Body)
			}
			return "", ""
		}}
	}
	ej := func(v *schema.V) string { return refjson.Encode(v, nil) }
	base := schema.Base(ann)
	// bodies: the base value (required id and name) stripped of what the method's spec excludes, plus one probe field
	bodyWith := func(spec [][]string, keep string, add func(v *schema.V) *schema.V) *schema.V {
		var sp [][]string
		for _, d := range spec {
			if strings.Join(d, "/") != keep {
				sp = append(sp, d)
			}
		}
		v := pruneW(base, sp, nil)
		if add != nil {
			v = add(v)
		}
		return v
	}
	root := "/" + r.Name()
	pID, pCreated, pInnerO, pInnerA := []string{"id"}, []string{"created"}, []string{"inner", "o"}, []string{"inner", "a"}
	pItemsO, pByKeyO := []string{"items", "0", "o"}, []string{"byKey", "k", "o"}
	withCreated := func(v *schema.V) *schema.V { return v.With("created", schema.VI(f("created").Type, 5)) }
	withInner := func(v *schema.V) *schema.V { return v.With("inner", schema.Rich(ent)) }
	withItems := func(v *schema.V) *schema.V { return v.With("items", schema.VArr(f("items").Type, schema.Rich(ent))) }
	withByKey := func(v *schema.V) *schema.V {
		return v.With("byKey", schema.VMap(f("byKey").Type, "k", schema.Rich(ent)))
	}
	cases = append(cases,
		rawCase("create-with-id", "POST", "create", root, ej(bodyWith(ro, "id", nil)), ro, pID),
		rawCase("create-with-inner", "POST", "create", root, ej(bodyWith(ro, "", withInner)), ro, pInnerO),
		rawCase("create-with-items", "POST", "create", root, ej(bodyWith(ro, "", withItems)), ro, pItemsO),
		rawCase("create-with-byKey", "POST", "create", root, ej(bodyWith(ro, "", withByKey)), ro, pByKeyO),
		rawCase("create-with-created", "POST", "create", root, ej(bodyWith(ro, "", withCreated)), ro, pCreated),
		rawCase("update-with-created", "PUT", "update", root+"/7", ej(bodyWith(roco, "", withCreated)), roco, pCreated),
		rawCase("update-with-id", "PUT", "update", root+"/7", ej(bodyWith(roco, "id", nil)), roco, pID),
		rawCase("update-with-inner", "PUT", "update", root+"/7", ej(bodyWith(roco, "", withInner)), roco, pInnerO, pInnerA),
		rawCase("batch_create-with-id", "POST", "batch_create", root, `{"elements":[`+ej(bodyWith(ro, "id", nil))+`]}`, ro, pID),
		rawCase("batch_update-with-created", "PUT", "batch_update", root+"?ids=List(7)", `{"entities":{"7":`+ej(bodyWith(roco, "", withCreated))+`}}`, roco, pCreated),
		rawCase("partial_update-set-id", "POST", "partial_update", root+"/7", `{"patch":{"$set":{"id":1}}}`, roco, pID),
		rawCase("partial_update-delete-created", "POST", "partial_update", root+"/7", `{"patch":{"$delete":["created"]}}`, roco, pCreated),
		rawCase("partial_update-nested-set-inner-o", "POST", "partial_update", root+"/7", `{"patch":{"inner":{"$set":{"o":"x"}}}}`, roco, pInnerO),
		// the whole record set in one go: the excluded field travels inside the $set value
		rawCase("partial_update-set-whole-inner", "POST", "partial_update", root+"/7", `{"patch":{"$set":{"inner":`+ej(schema.Rich(ent))+`}}}`, roco, pInnerO, pInnerA),
		rawCase("batch_partial_update-set-whole-inner", "POST", "batch_partial_update", root+"?ids=List(7)", `{"entities":{"7":{"patch":{"$set":{"inner":`+ej(schema.Rich(ent))+`}}}}}`, roco, pInnerO, pInnerA),
		rawCase("batch_partial_update-set-id", "POST", "batch_partial_update", root+"?ids=List(7)", `{"entities":{"7":{"patch":{"$set":{"id":1}}}}}`, roco, pID),
		rawCase("batch_partial_update-nested-set-inner-a", "POST", "batch_partial_update", root+"?ids=List(7)", `{"entities":{"7":{"patch":{"inner":{"$set":{"a":1}}}}}}`, roco, pInnerA),
	)
	return cases
}

func bodyOf(x *wire.Exchange) ([]byte, error) {
	if x == nil {
		return nil, fmt.Errorf("nothing was sent")
	}
	i := strings.Index(string(x.RawRequest), "\r\n\r\n")
	if i < 0 {
		return nil, fmt.Errorf("no body")
	}
	return x.RawRequest[i+4:], nil
}

// looseDecode decodes a document whose required fields may be absent (they were excluded).
func looseDecode(t *schema.Type, d interface{}) (*schema.V, error) {
	switch t.Base().Kind {
	case schema.Record:
		o, ok := d.(*refjson.Obj)
		if !ok {
			return nil, fmt.Errorf("%s: not an object", t)
		}
		v := &schema.V{T: t, Fields: map[string]*schema.V{}}
		for _, k := range o.Keys {
			f := t.Field(k)
			if f == nil {
				return nil, fmt.Errorf("%s: unknown field %q", t, k)
			}
			fv, err := looseDecode(f.Type, o.Vals[k])
			if err != nil {
				return nil, err
			}
			v.Fields[k] = fv
		}
		return v, nil
	case schema.Array:
		a, ok := d.([]interface{})
		if !ok {
			return nil, fmt.Errorf("%s: not an array", t)
		}
		v := &schema.V{T: t, Items: []*schema.V{}}
		for _, it := range a {
			iv, err := looseDecode(t.Elem, it)
			if err != nil {
				return nil, err
			}
			v.Items = append(v.Items, iv)
		}
		return v, nil
	case schema.Map:
		o, ok := d.(*refjson.Obj)
		if !ok {
			return nil, fmt.Errorf("%s: not an object", t)
		}
		v := &schema.V{T: t, Ent: map[string]*schema.V{}}
		for _, k := range o.Keys {
			ev, err := looseDecode(t.Elem, o.Vals[k])
			if err != nil {
				return nil, err
			}
			v.Keys = append(v.Keys, k)
			v.Ent[k] = ev
		}
		return v, nil
	}
	return refjson.Decode(t, d, true)
}

func partC07W(a *hcli.Args, rep *report.Report, univName string, u *schema.Universe) {
	s := rep.S("annotated-resource")
	cases := annotatedCases(a.Gen, u)
	s.Bounds = fmt.Sprintf("%d cases on the annotated resource (readOnly id, inner/o, items/*/o, byKey/*/o; createOnly created, inner/a): bodies of create / batch_create / update / batch_update, 6 touching and 4 clean patches through partial_update / batch_partial_update, 13 raw offending bodies", len(cases))
	w := NewWorld(u, DefaultConfig)
	for _, c := range cases {
		kind, detail := c.run(w)
		s.Evaluations++
		s.Transitions++
		s.Traces++
		s.States++
		if kind != "" {
			rep.Fail(fmt.Sprintf("%s exclwire %s %s", a.Gen, c.name, kind), detail, exclWireReplay{a.Gen, "C07W", univName, c.name})
			s.Class("fail:" + kind)
		} else {
			s.Class("ok:" + strings.SplitN(c.name, ":", 2)[0])
		}
	}
	rep.Sample(map[string]interface{}{"case": "create-strips-excluded", "entity": schema.Rich(u.ByName["Ann"]).String()})
}
