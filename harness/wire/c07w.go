package main

import (
	"fmt"
	"net/http"
	"strings"

	"verif/mc/hcli"
	"verif/mc/ref/refjson"
	"verif/mc/report"
	"verif/mc/schema"
	"verif/mc/wire"
)

type exclWireReplay struct {
	Gen  string `json:"gen"`
	Part string `json:"part"`
	Univ string `json:"universe"`
	Case string `json:"case"`
}

func specPaths(ds []string) [][]string {
	var out [][]string
	for _, d := range ds {
		out = append(out, strings.Split(d, "/"))
	}
	return out
}

func refMatchesW(spec [][]string, path []string) bool {
	for _, sp := range spec {
		if len(sp) > len(path) {
			continue
		}
		ok := true
		for i, seg := range sp {
			if seg != "*" && seg != path[i] {
				ok = false
				break
			}
		}
		if ok {
			return true
		}
	}
	return false
}

func pruneW(v *schema.V, spec [][]string, path []string) *schema.V {
	if v == nil {
		return nil
	}
	c := v.Clone()
	switch v.T.Base().Kind {
	case schema.Record:
		for name, fv := range v.Fields {
			p := append(append([]string{}, path...), name)
			if refMatchesW(spec, p) {
				delete(c.Fields, name)
			} else {
				c.Fields[name] = pruneW(fv, spec, p)
			}
		}
	case schema.Array:
		for i, it := range v.Items {
			c.Items[i] = pruneW(it, spec, append(append([]string{}, path...), "*"))
		}
	case schema.Map:
		c.Keys = nil
		c.Ent = map[string]*schema.V{}
		for _, k := range v.Keys {
			p := append(append([]string{}, path...), k)
			if refMatchesW(spec, p) {
				continue
			}
			c.Keys = append(c.Keys, k)
			c.Ent[k] = pruneW(v.Ent[k], spec, p)
		}
	}
	return c
}

type exclCase struct {
	name string
	run  func(w *World) (kind, detail string)
}

func annotatedCases(gen string, u *schema.Universe) []exclCase {
	var r *schema.Resource
	for _, x := range u.Resources {
		if len(x.ReadOnly) > 0 {
			r = x
		}
	}
	if r == nil {
		report.Internal("no annotated resource in the universe")
	}
	ro := specPaths(r.ReadOnly)
	roco := specPaths(append(append([]string{}, r.ReadOnly...), r.CreateOnly...))
	ann := r.Schema
	full := schema.Rich(ann)
	key := schema.VI(ownKeyType(r), 7)
	var cases []exclCase

	// the entity the resource must see = the caller's entity minus the excluded sub-trees; the wire body likewise
	entityCase := func(method string, spec [][]string, batch bool) exclCase {
		return exclCase{method + "-strips-excluded", func(w *World) (string, string) {
			w.reset()
			m := r.Method(method)
			call := &Call{Res: r, M: m}
			reply := &Reply{}
			switch method {
			case "create":
				call.Entity = full
				reply.Created = &CreatedV{Id: key}
			case "update":
				call.Keys = []*schema.V{key}
				call.Entity = full
			case "batch_create":
				call.Entities = []*schema.V{full, schema.Base(ann)}
				reply.CreatedList = []*CreatedV{{Id: key, Status: 201}, {Id: schema.VI(ownKeyType(r), 8), Status: 201}}
			case "batch_update":
				call.Keyed = []KV{{K: key, V: full}}
				reply.Batch = []*BatchEntry{{K: key, Has: map[string]bool{"results": true}, Status: 204}}
			}
			outs, pan := w.Do(call, reply)
			if pan != nil {
				return "client-panic", fmt.Sprint(pan)
			}
			if ev := outs[len(outs)-1]; !ev.IsNil() {
				return "client-error", fmt.Sprintf("%v%s", ev.Interface(), w.wireSummary())
			}
			last := w.transport.Last()
			// 1. the body on the wire carries no excluded value and everything else
			body, err := bodyOf(last)
			if err != nil {
				return "wire-body", err.Error()
			}
			doc, err := refjson.ParseStrict(body)
			if err != nil {
				return "wire-body", fmt.Sprintf("body %q: %v", body, err)
			}
			var sent []*schema.V
			switch method {
			case "create", "update":
				v, err := looseDecode(ann, doc)
				if err != nil {
					return "wire-body", err.Error()
				}
				sent = []*schema.V{v}
			case "batch_create":
				o := doc.(*refjson.Obj)
				for _, e := range o.Vals["elements"].([]interface{}) {
					v, err := looseDecode(ann, e)
					if err != nil {
						return "wire-body", err.Error()
					}
					sent = append(sent, v)
				}
			case "batch_update":
				o := doc.(*refjson.Obj).Vals["entities"].(*refjson.Obj)
				for _, k := range o.Keys {
					v, err := looseDecode(ann, o.Vals[k])
					if err != nil {
						return "wire-body", err.Error()
					}
					sent = append(sent, v)
				}
			}
			wantFirst := pruneW(full, spec, nil)
			if len(sent) == 0 || !schema.Equal(sent[0], wantFirst) {
				return "wire-body-not-exact", fmt.Sprintf("body %q carries %v, want exactly %s", body, sent, wantFirst)
			}
			// 2. the resource got exactly that
			if len(w.calls) != 1 {
				return "not-delivered", fmt.Sprintf("%d resource invocations%s", len(w.calls), w.wireSummary())
			}
			return "", ""
		}}
	}
	cases = append(cases, entityCase("create", ro, false), entityCase("batch_create", ro, true), entityCase("update", roco, false), entityCase("batch_update", roco, true))

	// partial updates: touching an excluded field must fail in the client before anything is sent
	f := func(n string) *schema.Field { return ann.Field(n) }
	ent := f("inner").Type
	touching := map[string]*Patch{
		"set-read-only-top":      {T: ann, Set: map[string]*schema.V{"id": schema.VI(f("id").Type, 1)}},
		"set-create-only-top":    {T: ann, Set: map[string]*schema.V{"created": schema.VI(f("created").Type, 1)}},
		"delete-create-only-top": {T: ann, Delete: []string{"created"}},
		"nested-set-read-only":   {T: ann, Nested: map[string]*Patch{"inner": {T: ent, Set: map[string]*schema.V{"o": schema.VS(ent.Field("o").Type, "x")}}}},
		"nested-set-create-only": {T: ann, Nested: map[string]*Patch{"inner": {T: ent, Set: map[string]*schema.V{"a": schema.VI(ent.Field("a").Type, 1)}}}},
		"nested-delete-read-only": {T: ann, Nested: map[string]*Patch{"inner": {T: ent, Delete: []string{"o"}}}},
	}
	clean := map[string]*Patch{
		"set-name":        {T: ann, Set: map[string]*schema.V{"name": schema.VS(f("name").Type, "n")}},
		"nested-set-s":    {T: ann, Nested: map[string]*Patch{"inner": {T: ent, Set: map[string]*schema.V{"s": schema.VS(ent.Field("s").Type, "x")}}}},
		"delete-items":    {T: ann, Delete: []string{"items"}},
		"nested-delete-m": {T: ann, Nested: map[string]*Patch{"inner": {T: ent, Delete: []string{"m"}}}},
	}
	for _, method := range []string{"partial_update", "batch_partial_update"} {
		for name, p := range touching {
			method, name, p := method, name, p
			cases = append(cases, exclCase{method + "-refused:" + name, func(w *World) (string, string) {
				w.reset()
				m := r.Method(method)
				call := &Call{Res: r, M: m}
				reply := &Reply{}
				if method == "partial_update" {
					call.Keys = []*schema.V{key}
					call.Patch = p
				} else {
					call.Keyed = []KV{{K: key, P: p}}
					reply.Batch = []*BatchEntry{{K: key, Has: map[string]bool{"results": true}, Status: 204}}
				}
				outs, pan := w.Do(call, reply)
				if pan != nil {
					return "client-panic", fmt.Sprint(pan)
				}
				if outs[len(outs)-1].IsNil() {
					return "excluded-patch-accepted", fmt.Sprintf("%s was sent and succeeded%s", p, w.wireSummary())
				}
				if n := len(w.transport.Exchanges); n != 0 {
					return "excluded-patch-sent", fmt.Sprintf("%s failed (%v) but %d request(s) reached the wire%s", p, outs[len(outs)-1].Interface(), n, w.wireSummary())
				}
				return "", ""
			}})
		}
		for name, p := range clean {
			method, name, p := method, name, p
			cases = append(cases, exclCase{method + "-allowed:" + name, func(w *World) (string, string) {
				w.reset()
				m := r.Method(method)
				call := &Call{Res: r, M: m}
				reply := &Reply{}
				if method == "partial_update" {
					call.Keys = []*schema.V{key}
					call.Patch = p
				} else {
					call.Keyed = []KV{{K: key, P: p}}
					reply.Batch = []*BatchEntry{{K: key, Has: map[string]bool{"results": true}, Status: 204}}
				}
				outs, pan := w.Do(call, reply)
				if pan != nil {
					return "client-panic", fmt.Sprint(pan)
				}
				if ev := outs[len(outs)-1]; !ev.IsNil() {
					return "clean-patch-refused", fmt.Sprintf("%s: %v%s", p, ev.Interface(), w.wireSummary())
				}
				if len(w.calls) != 1 {
					return "not-delivered", fmt.Sprintf("%d resource invocations", len(w.calls))
				}
				var got *Patch
				if method == "partial_update" {
					got = patchFromGo(w.calls[0].args[1], ann)
				} else {
					it := w.calls[0].args[0].MapRange()
					for it.Next() {
						got = patchFromGo(it.Value(), ann)
					}
				}
				if !patchEqual(got, p) {
					return "patch-altered", fmt.Sprintf("patch arrived as %s, sent %s", got, p)
				}
				return "", ""
			}})
		}
	}

	// server side: raw bodies that do carry excluded fields must be answered 400 without invoking the resource
	rawCase := func(name, method, restli, target, body string) exclCase {
		return exclCase{"server-refuses:" + name, func(w *World) (string, string) {
			w.reset()
			raw := fmt.Sprintf("%s %s HTTP/1.1\r\nHost: h\r\nX-RestLi-Method: %s\r\nX-RestLi-Protocol-Version: 2.0.0\r\nContent-Type: application/json\r\nContent-Length: %d\r\n\r\n%s", method, target, restli, len(body), body)
			x, err := wire.DoRaw(w.transport.Handler, []byte(raw))
			if x != nil && x.Panic != nil {
				return "server-panic", fmt.Sprint(x.Panic)
			}
			if err != nil || x.Response == nil {
				return "no-response", fmt.Sprint(err)
			}
			if len(w.calls) != 0 {
				return "excluded-field-reached-resource", fmt.Sprintf("status %d; the resource was invoked with a body carrying an excluded field: %s", x.Response.StatusCode, body)
			}
			if x.Response.StatusCode != http.StatusBadRequest {
				return "wrong-status", fmt.Sprintf("status %d, want 400; body %.200q", x.Response.StatusCode, x.Body)
			}
			return "", ""
		}}
	}
	ej := func(v *schema.V) string { return refjson.Encode(v, nil) }
	base := schema.Base(ann)
	withID := base // id is required, hence present: a create body with the read-only id
	withCreated := pruneW(base, ro, nil).With("created", schema.VI(f("created").Type, 5))
	innerO := pruneW(base, ro, nil).With("inner", schema.Rich(ent))
	itemsO := pruneW(base, ro, nil).With("items", schema.VArr(f("items").Type, schema.Rich(ent)))
	byKeyO := pruneW(base, ro, nil).With("byKey", schema.VMap(f("byKey").Type, "k", schema.Rich(ent)))
	cases = append(cases,
		rawCase("create-with-read-only-id", "POST", "create", "/annotated", ej(withID)),
		rawCase("create-with-nested-read-only", "POST", "create", "/annotated", ej(innerO)),
		rawCase("create-with-read-only-under-array-wildcard", "POST", "create", "/annotated", ej(itemsO)),
		rawCase("create-with-read-only-under-map-wildcard", "POST", "create", "/annotated", ej(byKeyO)),
		rawCase("update-with-create-only", "PUT", "update", "/annotated/7", ej(withCreated)),
		rawCase("update-with-read-only-id", "PUT", "update", "/annotated/7", ej(withID)),
		rawCase("batch_create-with-read-only-id", "POST", "batch_create", "/annotated", `{"elements":[`+ej(pruneW(base, ro, nil))+`,`+ej(withID)+`]}`),
		rawCase("batch_update-with-create-only", "PUT", "batch_update", "/annotated?ids=List(7)", `{"entities":{"7":`+ej(withCreated)+`}}`),
		rawCase("partial_update-set-read-only", "POST", "partial_update", "/annotated/7", `{"patch":{"$set":{"id":1}}}`),
		rawCase("partial_update-delete-create-only", "POST", "partial_update", "/annotated/7", `{"patch":{"$delete":["created"]}}`),
		rawCase("partial_update-nested-set-read-only", "POST", "partial_update", "/annotated/7", `{"patch":{"inner":{"$set":{"o":"x"}}}}`),
		rawCase("batch_partial_update-set-read-only", "POST", "batch_partial_update", "/annotated?ids=List(7)", `{"entities":{"7":{"patch":{"$set":{"id":1}}}}}`),
		rawCase("batch_partial_update-nested-set-create-only", "POST", "batch_partial_update", "/annotated?ids=List(7)", `{"entities":{"7":{"patch":{"inner":{"$set":{"a":1}}}}}}`),
	)
	return cases
}

func bodyOf(x *wire.Exchange) ([]byte, error) {
	if x == nil {
		return nil, fmt.Errorf("nothing was sent")
	}
	i := strings.Index(string(x.RawRequest), "\r\n\r\n")
	if i < 0 {
		return nil, fmt.Errorf("no body")
	}
	return x.RawRequest[i+4:], nil
}

// looseDecode decodes a document whose required fields may be absent (they were excluded).
func looseDecode(t *schema.Type, d interface{}) (*schema.V, error) {
	switch t.Base().Kind {
	case schema.Record:
		o, ok := d.(*refjson.Obj)
		if !ok {
			return nil, fmt.Errorf("%s: not an object", t)
		}
		v := &schema.V{T: t, Fields: map[string]*schema.V{}}
		for _, k := range o.Keys {
			f := t.Field(k)
			if f == nil {
				return nil, fmt.Errorf("%s: unknown field %q", t, k)
			}
			fv, err := looseDecode(f.Type, o.Vals[k])
			if err != nil {
				return nil, err
			}
			v.Fields[k] = fv
		}
		return v, nil
	case schema.Array:
		a, ok := d.([]interface{})
		if !ok {
			return nil, fmt.Errorf("%s: not an array", t)
		}
		v := &schema.V{T: t, Items: []*schema.V{}}
		for _, it := range a {
			iv, err := looseDecode(t.Elem, it)
			if err != nil {
				return nil, err
			}
			v.Items = append(v.Items, iv)
		}
		return v, nil
	case schema.Map:
		o, ok := d.(*refjson.Obj)
		if !ok {
			return nil, fmt.Errorf("%s: not an object", t)
		}
		v := &schema.V{T: t, Ent: map[string]*schema.V{}}
		for _, k := range o.Keys {
			ev, err := looseDecode(t.Elem, o.Vals[k])
			if err != nil {
				return nil, err
			}
			v.Keys = append(v.Keys, k)
			v.Ent[k] = ev
		}
		return v, nil
	}
	return refjson.Decode(t, d, true)
}

func partC07W(a *hcli.Args, rep *report.Report, univName string, u *schema.Universe) {
	s := rep.S("annotated-resource")
	cases := annotatedCases(a.Gen, u)
	s.Bounds = fmt.Sprintf("%d cases on the annotated resource (readOnly id, inner/o, items/*/o, byKey/*/o; createOnly created, inner/a): bodies of create / batch_create / update / batch_update, 6 touching and 4 clean patches through partial_update / batch_partial_update, 13 raw offending bodies", len(cases))
	w := NewWorld(u, DefaultConfig)
	for _, c := range cases {
		kind, detail := c.run(w)
		s.Evaluations++
		s.Transitions++
		s.Traces++
		s.States++
		if kind != "" {
			rep.Fail(fmt.Sprintf("%s exclwire %s %s", a.Gen, c.name, kind), detail, exclWireReplay{a.Gen, "C07W", univName, c.name})
			s.Class("fail:" + kind)
		} else {
			s.Class("ok:" + strings.SplitN(c.name, ":", 2)[0])
		}
	}
	rep.Sample(map[string]interface{}{"case": "create-strips-excluded", "entity": schema.Rich(u.ByName["Ann"]).String()})
}
