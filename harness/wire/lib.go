package main

import (
	"fmt"
	"net/http"
	"net/url"
	"reflect"
	"strings"

	"github.com/PapaCharlie/go-restli/v2/restli"

	"verif/mc/bind"
	"verif/mc/report"
	"verif/mc/schema"
	"verif/mc/wire"
)

// Reg / Ctor are filled by the emitted type registry, Bindings by the emitted resource registry.
var Reg = map[string]reflect.Type{}
var Ctor = map[string]func() interface{}{}

type Binding struct {
	NewClient func(c *restli.Client) interface{}
	NewMock   func() interface{}
	Register  func(s restli.Server, m interface{})
}

var Bindings = map[string]*Binding{}

// ---------------------------------------------------------------- configuration

type Config struct {
	Threshold int    `json:"threshold"` // query tunnelling threshold
	Strict    bool   `json:"strict"`
	Base      string `json:"base"`     // resolver base URL
	Mounting  string `json:"mounting"` // bare | mux | prefix
	// Root, if set, is a root resource name that ends the base URL's context path (the deployment
	// path is the context path without it); only resources below that root are called then.
	Root string `json:"root,omitempty"`
}

var DefaultConfig = Config{Threshold: 0, Strict: true, Base: "http://h", Mounting: "bare"}

func (c Config) String() string {
	if c.Root != "" {
		return fmt.Sprintf("threshold=%d strict=%v base=%s(ends in root resource %s) mounting=%s", c.Threshold, c.Strict, c.Base, c.Root, c.Mounting)
	}
	return fmt.Sprintf("threshold=%d strict=%v base=%s mounting=%s", c.Threshold, c.Strict, c.Base, c.Mounting)
}

const mountPrefix = "/api/v1"

// ---------------------------------------------------------------- world

type recorded struct {
	res    string
	method string
	args   []reflect.Value // without the leading context
	ctx    *restli.RequestContext
}

type responder func(w *World, args []reflect.Value, outs []reflect.Type) []reflect.Value

type World struct {
	u         *schema.Universe
	cfg       Config
	transport *wire.Transport
	client    *restli.Client
	mocks     map[string]reflect.Value
	clients   map[string]reflect.Value
	calls     []recorded
	script    map[string]responder // "<namespace>:<MockField>"
	filters   []restli.Filter
}

func errorType() reflect.Type { return reflect.TypeOf((*error)(nil)).Elem() }

// NewWorld registers a fresh mock of every resource of the universe on one server, mounted as
// configured, and builds one client talking to it over the in-memory wire.
func NewWorld(u *schema.Universe, cfg Config, filters ...restli.Filter) *World {
	w := &World{u: u, cfg: cfg, mocks: map[string]reflect.Value{}, clients: map[string]reflect.Value{}, script: map[string]responder{}, filters: filters}
	// the resolver's context path is where the server is deployed
	ctxPath := ""
	if bu, err := url.Parse(cfg.Base); err == nil {
		ctxPath = strings.TrimSuffix(bu.Path, "/")
		if cfg.Root != "" {
			if !strings.HasSuffix(ctxPath, "/"+cfg.Root) {
				report.Internal("base %q does not end in /%s", cfg.Base, cfg.Root)
			}
			ctxPath = strings.TrimSuffix(ctxPath, "/"+cfg.Root)
		}
	}
	var srv restli.Server
	switch {
	case cfg.Mounting == "prefix":
		srv = restli.NewPrefixedServer(ctxPath+mountPrefix, filters...)
	case ctxPath != "":
		srv = restli.NewPrefixedServer(ctxPath, filters...)
	default:
		srv = restli.NewServer(filters...)
	}
	for _, r := range u.Resources {
		b := Bindings[r.Namespace]
		if b == nil {
			report.Internal("no binding for resource %s", r.Namespace)
		}
		mock := reflect.ValueOf(b.NewMock())
		w.mocks[r.Namespace] = mock
		ns := r.Namespace
		st := mock.Elem()
		for i := 0; i < st.NumField(); i++ {
			f := st.Type().Field(i)
			if f.Type.Kind() != reflect.Func {
				continue
			}
			name := f.Name
			ft := f.Type
			st.Field(i).Set(reflect.MakeFunc(ft, func(args []reflect.Value) []reflect.Value {
				rc := recorded{res: ns, method: name, args: args[1:]}
				if c, ok := args[0].Interface().(*restli.RequestContext); ok {
					rc.ctx = c
				}
				w.calls = append(w.calls, rc)
				outs := make([]reflect.Type, ft.NumOut())
				for j := range outs {
					outs[j] = ft.Out(j)
				}
				if rs, ok := w.script[ns+":"+name]; ok {
					return rs(w, args[1:], outs)
				}
				res := make([]reflect.Value, len(outs))
				for j, o := range outs {
					res[j] = reflect.Zero(o)
				}
				res[len(res)-1] = reflect.ValueOf(fmt.Errorf("unscripted mock method %s:%s", ns, name)).Convert(errorType())
				return res
			}))
		}
		b.Register(srv, mock.Interface())
	}
	var h http.Handler
	if cfg.Mounting == "mux" {
		mux := http.NewServeMux()
		srv.AddToMux(mux)
		h = mux
	} else {
		h = srv.Handler()
	}
	w.transport = &wire.Transport{Handler: h}
	base := cfg.Base
	if cfg.Mounting == "prefix" {
		base = strings.TrimSuffix(base, "/") + mountPrefix
	}
	bu, err := url.Parse(base)
	if err != nil {
		report.Internal("bad base url %q", base)
	}
	w.client = &restli.Client{Client: &http.Client{Transport: w.transport}, HostnameResolver: &restli.SimpleHostnameResolver{Hostname: bu},
		StrictResponseDeserialization: cfg.Strict, QueryTunnellingThreshold: cfg.Threshold}
	for _, r := range u.Resources {
		w.clients[r.Namespace] = reflect.ValueOf(Bindings[r.Namespace].NewClient(w.client))
	}
	return w
}

func (w *World) reset() {
	w.calls = nil
	w.transport.Exchanges = nil
	w.script = map[string]responder{}
}

// ---------------------------------------------------------------- naming

func exported(name string) string { return bind.GoFieldName(name) }

// ClientMethod is the name of the generated client / resource method for m.
func ClientMethod(m *schema.Method) string {
	switch m.Kind {
	case "FINDER":
		return "FindBy" + exported(m.Name)
	case "ACTION":
		return exported(m.Name) + "Action"
	}
	parts := strings.Split(m.Name, "_")
	s := ""
	for _, p := range parts {
		s += exported(p)
	}
	return s
}

// ParamsType is the synthetic record type of a finder's / action's parameters.
func ParamsType(m *schema.Method, gen string) *schema.Type {
	t := &schema.Type{Kind: schema.Record, Name: ClientMethod(m) + "Params"}
	t.Fields = append(t.Fields, m.Params...)
	if m.Paging {
		t.Fields = append(t.Fields, schema.Opt("start", schema.P(schema.Int32)), schema.Opt("count", schema.P(schema.Int32)))
	}
	return t
}

// pathKeys lists the key types of a call on resource r (parents first; own key if onEntity).
func pathKeyTypes(r *schema.Resource, m *schema.Method) []*schema.Type {
	var ks []*schema.Type
	for i, s := range r.Segments {
		if s.KeyName == "" {
			continue
		}
		if i == len(r.Segments)-1 && !m.OnEntity {
			continue
		}
		ks = append(ks, s.KeyType)
	}
	return ks
}

func ownKeyType(r *schema.Resource) *schema.Type { return r.Segments[len(r.Segments)-1].KeyType }

// ---------------------------------------------------------------- value conversion helpers

func toGo(v *schema.V, rt reflect.Type) reflect.Value {
	var out reflect.Value
	if err := bind.Safely(func() { out = bind.ToGo(v, rt) }); err != nil {
		report.Internal("bridge cannot build %s as %s: %v", v, rt, err)
	}
	return out
}

func fromGo(rv reflect.Value, t *schema.Type) *schema.V {
	var out *schema.V
	if err := bind.Safely(func() { out = bind.FromGo(rv, t) }); err != nil {
		report.Internal("bridge cannot read %s as %s: %v", rv.Type(), t, err)
	}
	return out
}

// key conversion: complex keys are pointers to generated structs, everything else is a value
func keyToGo(k *schema.V, rt reflect.Type) reflect.Value { return toGo(k, rt) }

func errValue(err error) reflect.Value {
	if err == nil {
		return reflect.Zero(errorType())
	}
	return reflect.ValueOf(err).Convert(errorType())
}
