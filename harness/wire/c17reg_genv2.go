package main

// C17, custom-typeref registry (v2 only): registration of a type concurrent with its use through the codec. Run
// free-running under the race detector (the cooperative scheduler cannot interleave inside the registering call);
// besides races, a codec call has two legal outcomes: the "Unregistered custom typeref" panic or the right value.

import (
	"fmt"
	"strings"
	"sync"

	"github.com/PapaCharlie/go-restli/v2/fnv1a"
	"github.com/PapaCharlie/go-restli/v2/restlicodec"
)

type regT[N any] struct{ V string }

func regRound[N any]() (bad []string) {
	var mu sync.Mutex
	note := func(s string) { mu.Lock(); bad = append(bad, s); mu.Unlock() }
	var wg sync.WaitGroup
	start := make(chan struct{})
	wg.Add(1)
	go func() {
		defer wg.Done()
		<-start
		restlicodec.RegisterCustomTyperef(
			func(t regT[N]) (string, error) { return t.V, nil },
			func(s string) (regT[N], error) { return regT[N]{V: s}, nil },
			func(t regT[N]) fnv1a.Hash { return fnv1a.HashString(t.V) },
			func(a, b regT[N]) bool { return a.V == b.V },
		)
	}()
	for g := 0; g < 4; g++ {
		wg.Add(1)
		go func(g int) {
			defer wg.Done()
			<-start
			for i := 0; i < 50; i++ {
				func() {
					defer func() {
						if p := recover(); p != nil && !strings.Contains(fmt.Sprint(p), "Unregistered custom typeref") {
							note(fmt.Sprintf("codec call panicked: %v", p))
						}
					}()
					switch g % 4 {
					case 0:
						r, _ := restlicodec.NewRor2Reader("abc")
						v, err := restlicodec.CustomTyperefUnmarshaler[regT[N]]()(r)
						if err != nil || v.V != "abc" {
							note(fmt.Sprintf("unmarshal gave %+v, %v", v, err))
						}
					case 1:
						w := restlicodec.NewRor2HeaderWriter()
						if err := restlicodec.CustomTyperefMarshaler[regT[N]]()(regT[N]{V: "abc"}, w); err != nil || w.Finalize() != "abc" {
							note(fmt.Sprintf("marshal gave %q, %v", w.Finalize(), err))
						}
					case 2:
						if h := restlicodec.CustomTyperefHasher[regT[N]]()(regT[N]{V: "abc"}); !h.Equals(fnv1a.HashString("abc")) {
							note("hasher gave another hash")
						}
					case 3:
						if !restlicodec.CustomTyperefEquals[regT[N]]()(regT[N]{V: "a"}, regT[N]{V: "a"}) {
							note("equals gave false")
						}
					}
				}()
			}
		}(g)
	}
	close(start)
	wg.Wait()
	return bad
}

type regU[N any] struct{ V string }

func registerU[N any]() {
	restlicodec.RegisterCustomTyperef(
		func(t regU[N]) (string, error) { return t.V, nil },
		func(s string) (regU[N], error) { return regU[N]{V: s}, nil },
		func(t regU[N]) fnv1a.Hash { return fnv1a.HashString(t.V) },
		func(a, b regU[N]) bool { return a.V == b.V },
	)
}

func knownU[N any]() (ok bool) {
	defer func() {
		if p := recover(); p != nil {
			ok = false
		}
	}()
	w := restlicodec.NewRor2HeaderWriter()
	return restlicodec.CustomTyperefMarshaler[regU[N]]()(regU[N]{V: "abc"}, w) == nil && w.Finalize() == "abc"
}

// regAllAtOnce registers distinct types from as many goroutines at the same time: every registration that returned
// must be known to the codec afterwards (no serial execution loses one).
func regAllAtOnce() (lost int) {
	regs := []func(){registerU[[0]byte], registerU[[1]byte], registerU[[2]byte], registerU[[3]byte], registerU[[4]byte], registerU[[5]byte], registerU[[6]byte], registerU[[7]byte],
		registerU[[8]byte], registerU[[9]byte], registerU[[10]byte], registerU[[11]byte], registerU[[12]byte], registerU[[13]byte], registerU[[14]byte], registerU[[15]byte],
		registerU[[16]byte], registerU[[17]byte], registerU[[18]byte], registerU[[19]byte], registerU[[20]byte], registerU[[21]byte], registerU[[22]byte], registerU[[23]byte],
		registerU[[24]byte], registerU[[25]byte], registerU[[26]byte], registerU[[27]byte], registerU[[28]byte], registerU[[29]byte], registerU[[30]byte], registerU[[31]byte]}
	known := []func() bool{knownU[[0]byte], knownU[[1]byte], knownU[[2]byte], knownU[[3]byte], knownU[[4]byte], knownU[[5]byte], knownU[[6]byte], knownU[[7]byte],
		knownU[[8]byte], knownU[[9]byte], knownU[[10]byte], knownU[[11]byte], knownU[[12]byte], knownU[[13]byte], knownU[[14]byte], knownU[[15]byte],
		knownU[[16]byte], knownU[[17]byte], knownU[[18]byte], knownU[[19]byte], knownU[[20]byte], knownU[[21]byte], knownU[[22]byte], knownU[[23]byte],
		knownU[[24]byte], knownU[[25]byte], knownU[[26]byte], knownU[[27]byte], knownU[[28]byte], knownU[[29]byte], knownU[[30]byte], knownU[[31]byte]}
	var wg sync.WaitGroup
	start := make(chan struct{})
	for _, r := range regs {
		wg.Add(1)
		go func(r func()) {
			defer wg.Done()
			<-start
			r()
		}(r)
	}
	close(start)
	wg.Wait()
	for _, k := range known {
		if !k() {
			lost++
		}
	}
	return lost
}

// raceRegistry runs one round per fresh type (a type can be registered once per process).
func raceRegistry() {
	rounds := []func() []string{
		regRound[[0]byte], regRound[[1]byte], regRound[[2]byte], regRound[[3]byte], regRound[[4]byte], regRound[[5]byte], regRound[[6]byte], regRound[[7]byte],
		regRound[[8]byte], regRound[[9]byte], regRound[[10]byte], regRound[[11]byte], regRound[[12]byte], regRound[[13]byte], regRound[[14]byte], regRound[[15]byte],
		regRound[[16]byte], regRound[[17]byte], regRound[[18]byte], regRound[[19]byte], regRound[[20]byte], regRound[[21]byte], regRound[[22]byte], regRound[[23]byte],
		regRound[[24]byte], regRound[[25]byte], regRound[[26]byte], regRound[[27]byte], regRound[[28]byte], regRound[[29]byte], regRound[[30]byte], regRound[[31]byte],
	}
	n := 0
	for _, r := range rounds {
		for _, b := range r() {
			n++
			if n <= 3 {
				fmt.Println("REGISTRY-OUTCOME:", b)
			}
		}
	}
	if lost := regAllAtOnce(); lost > 0 {
		n++
		fmt.Printf("REGISTRY-OUTCOME: %d of 32 custom typerefs registered at the same time are unknown to the codec afterwards\n", lost)
	}
	fmt.Printf("registry race pass done: %d rounds, %d outcomes no serial execution produces\n", len(rounds), n)
}
