package main

// C17, custom-typeref registry (v2 only): registration of a type concurrent with its use through the codec. Run
// free-running under the race detector (the cooperative scheduler cannot interleave inside the registering call);
// besides races, a codec call has two legal outcomes: the "Unregistered custom typeref" panic or the right value.

import (
	"fmt"
	"strings"
	"sync"

	"github.com/PapaCharlie/go-restli/v2/fnv1a"
	"github.com/PapaCharlie/go-restli/v2/restlicodec"
)

type regT[N any] struct{ V string }

func regRound[N any]() (bad []string) {
	var mu sync.Mutex
	note := func(s string) { mu.Lock(); bad = append(bad, s); mu.Unlock() }
	var wg sync.WaitGroup
	start := make(chan struct{})
	wg.Add(1)
	go func() {
		defer wg.Done()
		<-start
		restlicodec.RegisterCustomTyperef(
			func(t regT[N]) (string, error) { return t.V, nil },
			func(s string) (regT[N], error) { return regT[N]{V: s}, nil },
			func(t regT[N]) fnv1a.Hash { return fnv1a.HashString(t.V) },
			func(a, b regT[N]) bool { return a.V == b.V },
		)
	}()
	for g := 0; g < 4; g++ {
		wg.Add(1)
		go func(g int) {
			defer wg.Done()
			<-start
			for i := 0; i < 50; i++ {
				func() {
					defer func() {
						if p := recover(); p != nil && !strings.Contains(fmt.Sprint(p), "Unregistered custom typeref") {
							note(fmt.Sprintf("codec call panicked: %v", p))
						}
					}()
					switch g % 4 {
					case 0:
						r, _ := restlicodec.NewRor2Reader("abc")
						v, err := restlicodec.CustomTyperefUnmarshaler[regT[N]]()(r)
						if err != nil || v.V != "abc" {
							note(fmt.Sprintf("unmarshal gave %+v, %v", v, err))
						}
					case 1:
						w := restlicodec.NewRor2HeaderWriter()
						if err := restlicodec.CustomTyperefMarshaler[regT[N]]()(regT[N]{V: "abc"}, w); err != nil || w.Finalize() != "abc" {
							note(fmt.Sprintf("marshal gave %q, %v", w.Finalize(), err))
						}
					case 2:
						if h := restlicodec.CustomTyperefHasher[regT[N]]()(regT[N]{V: "abc"}); !h.Equals(fnv1a.HashString("abc")) {
							note("hasher gave another hash")
						}
					case 3:
						if !restlicodec.CustomTyperefEquals[regT[N]]()(regT[N]{V: "a"}, regT[N]{V: "a"}) {
							note("equals gave false")
						}
					}
				}()
			}
		}(g)
	}
	close(start)
	wg.Wait()
	return bad
}

// raceRegistry runs one round per fresh type (a type can be registered once per process).
func raceRegistry() {
	rounds := []func() []string{
		regRound[[0]byte], regRound[[1]byte], regRound[[2]byte], regRound[[3]byte], regRound[[4]byte], regRound[[5]byte], regRound[[6]byte], regRound[[7]byte],
		regRound[[8]byte], regRound[[9]byte], regRound[[10]byte], regRound[[11]byte], regRound[[12]byte], regRound[[13]byte], regRound[[14]byte], regRound[[15]byte],
		regRound[[16]byte], regRound[[17]byte], regRound[[18]byte], regRound[[19]byte], regRound[[20]byte], regRound[[21]byte], regRound[[22]byte], regRound[[23]byte],
		regRound[[24]byte], regRound[[25]byte], regRound[[26]byte], regRound[[27]byte], regRound[[28]byte], regRound[[29]byte], regRound[[30]byte], regRound[[31]byte],
	}
	n := 0
	for _, r := range rounds {
		for _, b := range r() {
			n++
			if n <= 3 {
				fmt.Println("REGISTRY-OUTCOME:", b)
			}
		}
	}
	fmt.Printf("registry race pass done: %d rounds, %d outcomes no serial execution produces\n", len(rounds), n)
}
