package main

// C04 at HTTP level: peer-controlled bytes in a request (query, path key, body, headers) never
// produce a 5xx / recovered panic / stack trace, and requests a reference parser rejects are
// answered 4xx without reaching resource code; peer-controlled bytes in a response (body, id /
// location / error headers, status) never make the client call panic.

import (
	"bytes"
	"encoding/json"
	"fmt"
	"io"
	"net/http"
	"reflect"
	"strconv"
	"strings"

	"verif/mc/hcli"
	"verif/mc/ref/refjson"
	"verif/mc/ref/refror2"
	"verif/mc/report"
	"verif/mc/schema"
	"verif/mc/wire"
)

type httpReplay struct {
	Gen    string `json:"gen"`
	Part   string `json:"part"`
	Univ   string `json:"universe"`
	Side   string `json:"side"`
	Res    string `json:"resource"`
	Method string `json:"method"`
	Raw    string `json:"raw"`
}

func splitRaw(raw []byte) (line string, headers []string, body []byte) {
	i := bytes.Index(raw, []byte("\r\n\r\n"))
	head := string(raw)
	if i >= 0 {
		head, body = string(raw[:i]), raw[i+4:]
	}
	lines := strings.Split(head, "\r\n")
	return lines[0], lines[1:], body
}

func joinRaw(line string, headers []string, body []byte) []byte {
	var hs []string
	for _, h := range headers {
		if strings.HasPrefix(strings.ToLower(h), "content-length:") {
			continue
		}
		hs = append(hs, h)
	}
	if len(body) > 0 || strings.HasPrefix(line, "POST") || strings.HasPrefix(line, "PUT") {
		hs = append(hs, fmt.Sprintf("Content-Length: %d", len(body)))
	}
	return append([]byte(line+"\r\n"+strings.Join(hs, "\r\n")+"\r\n\r\n"), body...)
}

func shortStrings(alpha []string, maxLen int) []string {
	var out []string
	var rec func(cur string, n int)
	rec = func(cur string, n int) {
		if n > 0 {
			out = append(out, cur)
		}
		if n == maxLen {
			return
		}
		for _, x := range alpha {
			rec(cur+x, n+1)
		}
	}
	rec("", 0)
	return out
}

// declaredParams: the query parameters the server decodes for method m.
func declaredParams(m *schema.Method) map[string]bool {
	d := map[string]bool{}
	switch {
	case m.Kind == "FINDER":
		d["q"] = true
	case m.Kind == "ACTION":
		d["action"] = true
	case strings.HasPrefix(m.Name, "batch_") && m.Name != "batch_create":
		d["ids"] = true
	}
	if m.Kind != "ACTION" {
		for _, f := range ParamsType(m, "").Fields {
			d[f.Name] = true
		}
	}
	return d
}

// queryMalformed: a parameter the method declares carries a value the reference ROR2 parser rejects
// because its parentheses do not balance (the unambiguous kind of malformedness; looser spellings that
// the library tolerates, and parameters the method never decodes, are not judged).
func queryMalformed(q string, declared map[string]bool) bool {
	for _, kv := range strings.Split(q, "&") {
		i := strings.Index(kv, "=")
		if i <= 0 || !declared[kv[:i]] {
			continue
		}
		v := kv[i+1:]
		if strings.Count(v, "(") == strings.Count(v, ")") {
			continue
		}
		if _, err := refror2.Parse(v, refror2.Query); err != nil {
			return true
		}
	}
	return false
}

func renderArgs(args []reflect.Value) string {
	var parts []string
	for _, a := range args {
		parts = append(parts, canonGo(a))
	}
	return strings.Join(parts, ", ")
}

func partC04H(a *hcli.Args, rep *report.Report, univName string, u *schema.Universe) {
	sq := rep.S("http-requests")
	sr := rep.S("http-responses")
	sigma := []string{"(", ")", ",", ":", "'", "%", "a", "List("}
	L := 3
	if a.Thorough() {
		L = 4
	}
	strs := shortStrings(sigma, L)
	subst := []byte{'(', ')', ',', ':', '"', '{', '}', '[', ']', '\\', 0x00, 0xff, '%', '&', '=', ' '}
	sq.Bounds = fmt.Sprintf("every method of every resource: the valid request sent by the generated client with (a0) an undeclared query parameter under three names (sorting first, last, in between) x 7 well-formed values: the request must reach the same method with the same arguments; (a) an extra query parameter whose value is each of the %d strings of <=%d symbols over %v, the whole query replaced by each of them, every truncation / single-byte edit of the valid query; (b) the entity key segment replaced by each of the strings, the entity key dropped from / added to the path, every key position of the path replaced on its own and every pair of key positions replaced together by all pairs of strings of <=2 symbols; (c0) unknown fields of 4 shapes added to the JSON body (top level, every entities value, every elements item): same method, same arguments; (c1) the body sent chunked, also with a bad chunk size, a truncated chunk and a missing last chunk; (c) every truncation and single-byte deletion / substitution (%d bytes) of the JSON body; (d) method / content-type / protocol-version header variants; (e) tunnelled envelopes (both parts, one part missing, none, foreign part, doubled, unterminated, truncated every 7 bytes, form-encoded, no boundary); oracle: no panic escapes, status < 500, no stack trace; when a declared parameter loses its parenthesis balance, or the body is a non-empty strict prefix that is not JSON: 4xx and no resource invocation", len(strs), L, sigma, len(subst))
	sr.Bounds = "every method of every resource: the valid response with every truncation / single-byte edit of its body, X-RestLi-Id and Location replaced by each short ROR2 string, error-header / status / content-type variants; oracle: the generated client call returns (value or error) and never panics"
	w := NewWorld(u, DefaultConfig)
	failq := func(kind string, r *schema.Resource, m *schema.Method, what, detail string, raw []byte) {
		rep.Fail(fmt.Sprintf("%s http request %s %s %s %s", a.Gen, kind, resourceKind(r), ClientMethod(m), what), detail+"\n request: "+fmt.Sprintf("%.600q", raw),
			httpReplay{a.Gen, "C04H", univName, "request", r.Namespace, m.Name, string(raw)})
		sq.Class("fail:" + kind)
	}
	item := 0
	for _, r := range u.Resources {
		if len(r.ReadOnly)+len(r.CreateOnly) > 0 {
			continue
		}
		for _, m := range r.Methods {
			item++
			if !a.Mine(item) {
				continue
			}
			if a.Expired() {
				sq.Exhaustive, sr.Exhaustive = false, false
				rep.Cap("http: internal deadline")
				return
			}
			w.reset()
			call, reply := buildCall(a.Gen, r, m, "none", nil)
			outs, pan := w.Do(call, reply)
			if pan != nil || len(w.calls) != 1 || !outs[len(outs)-1].IsNil() {
				continue // the unmutated call itself is judged by C02
			}
			valid := w.transport.Last()
			raw := append([]byte{}, valid.RawRequest...)
			line, headers, body := splitRaw(raw)
			parts := strings.SplitN(line, " ", 3)
			verb, target, proto := parts[0], parts[1], parts[2]
			path, query := target, ""
			if i := strings.Index(target, "?"); i >= 0 {
				path, query = target[:i], target[i+1:]
			}
			declared := declaredParams(m)
			// an action without parameters never reads its body
			readsBody := !(m.Kind == "ACTION" && len(m.Params) == 0)
			sq.States++
			sr.States++
			send := func(what string, mraw []byte, mustRefuse bool) {
				w.calls = nil
				x, err := wire.DoRaw(w.transport.Handler, mraw)
				sq.Evaluations++
				sq.Transitions++
				sq.Traces++
				if x != nil && x.Panic != nil {
					failq("panic-escaped", r, m, what, fmt.Sprintf("panic escaped ServeHTTP: %v", x.Panic), mraw)
					return
				}
				if err != nil || x == nil || x.Response == nil {
					sq.Class("not-an-http-request")
					return
				}
				st := x.Response.StatusCode
				switch {
				case mustRefuse && len(w.calls) > 0:
					failq("malformed-reached-resource", r, m, what, fmt.Sprintf("status %d; resource code ran for a request the reference parser rejects", st), mraw)
				case st >= 500 && bytes.Contains(x.Body, []byte("unscripted mock method")):
					sq.Class("ok:routed-to-another-method") // the mutated request names another registered method: its stub has no scripted answer
				case st >= 500:
					failq("5xx", r, m, what, fmt.Sprintf("status %d, body %.300q", st, x.Body), mraw)
				case bytes.Contains(x.Body, []byte("goroutine ")) || bytes.Contains(x.Body, []byte("stackTrace")):
					failq("stack-trace", r, m, what, fmt.Sprintf("status %d, body %.300q", st, x.Body), mraw)
				case mustRefuse && len(w.calls) > 0:
					failq("malformed-reached-resource", r, m, what, fmt.Sprintf("status %d; resource code ran for a request the reference parser rejects", st), mraw)
				case mustRefuse && (st < 400 || st > 499):
					failq("malformed-not-4xx", r, m, what, fmt.Sprintf("status %d for a request the reference parser rejects", st), mraw)
				default:
					sq.Class(fmt.Sprintf("ok:%s:%dxx", what, st/100))
				}
			}
			mkTarget := func(p, q string) string {
				if q == "" {
					return p
				}
				return p + "?" + q
			}
			// (a0) a well-formed parameter the method does not declare (as newer clients send: projections, metadata
			// switches) is skipped: the request reaches the same method with the same arguments
			{
				validCall := w.calls
				w.reset()
				// the valid request once more, raw, for the reference invocation
				if x, err := wire.DoRaw(w.transport.Handler, raw); err == nil && x != nil && len(w.calls) == 1 {
					ref := w.calls[0]
					for _, uv := range []string{"1", "abc", "''", "(a:1)", "List(a,b)", "(a:List((b:c),(d:'')))", "a%20b%2Cc"} {
						for _, name := range []string{"zzUnknown", "fields0", "aaUnknown"} {
							q1 := name + "=" + uv
							if query != "" {
								if name == "aaUnknown" {
									q1 = q1 + "&" + query
								} else {
									q1 = query + "&" + q1
								}
							}
							mraw := joinRaw(verb+" "+mkTarget(path, q1)+" "+proto, headers, body)
							w.calls = nil
							x2, err := wire.DoRaw(w.transport.Handler, mraw)
							sq.Evaluations++
							sq.Transitions++
							sq.Traces++
							switch {
							case err != nil || x2 == nil || x2.Response == nil:
								sq.Class("not-an-http-request")
							case x2.Panic != nil:
								failq("panic-escaped", r, m, "unknown-param", fmt.Sprintf("panic escaped ServeHTTP: %v", x2.Panic), mraw)
							case len(w.calls) != 1 || w.calls[0].method != ref.method:
								failq("unknown-param-not-skipped", r, m, "unknown-param", fmt.Sprintf("status %d body %.200q: the request with the undeclared parameter %s did not reach %s (invocations: %d)", x2.Response.StatusCode, x2.Body, q1, ref.method, len(w.calls)), mraw)
							case renderArgs(w.calls[0].args) != renderArgs(ref.args):
								failq("unknown-param-disturbs", r, m, "unknown-param", fmt.Sprintf("with the undeclared parameter %s the resource received %s instead of %s", q1, renderArgs(w.calls[0].args), renderArgs(ref.args)), mraw)
							default:
								sq.Class("ok:unknown-param-skipped")
							}
						}
					}
				}
				_ = validCall
			}
			// (c0) unknown fields in the request body (top level, every value of "entities", every item of "elements"):
			// skipped, the request reaches the same method with the same arguments
			if len(body) > 0 {
				w.reset()
				if x, err := wire.DoRaw(w.transport.Handler, raw); err == nil && x != nil && len(w.calls) == 1 {
					ref := w.calls[0]
					var doc interface{}
					dec := json.NewDecoder(bytes.NewReader(body))
					dec.UseNumber()
					if dec.Decode(&doc) == nil {
						var sites [][]string
						if top, ok := doc.(map[string]interface{}); ok {
							sites = append(sites, []string{})
							if ents, ok := top["entities"].(map[string]interface{}); ok && m.Name == "batch_update" {
								for k := range ents {
									sites = append(sites, []string{"entities", k})
								}
							}
							if els, ok := top["elements"].([]interface{}); ok {
								for i := range els {
									sites = append(sites, []string{"elements", "[" + strconv.Itoa(i) + "]"})
								}
							}
						}
						for _, site := range sites {
							for _, shape := range []string{`7`, `null`, `{"a":{"b":[1,{"c":null}]}}`, `[1,[2],{"k":"v"}]`} {
								var d2 interface{}
								dd := json.NewDecoder(bytes.NewReader(body))
								dd.UseNumber()
								_ = dd.Decode(&d2)
								o := jsonObjectAt(d2, site)
								if o == nil {
									continue
								}
								var extra interface{}
								_ = json.Unmarshal([]byte(shape), &extra)
								o["zzUnknown"], o["$aaUnknown"] = extra, extra
								nb, _ := json.Marshal(d2)
								var hs []string
								for _, h := range headers {
									if !strings.HasPrefix(strings.ToLower(h), "content-length:") {
										hs = append(hs, h)
									}
								}
								hs = append(hs, fmt.Sprintf("Content-Length: %d", len(nb)))
								mraw := joinRaw(line, hs, nb)
								w.calls = nil
								x2, err := wire.DoRaw(w.transport.Handler, mraw)
								sq.Evaluations++
								sq.Transitions++
								sq.Traces++
								switch {
								case err != nil || x2 == nil || x2.Response == nil:
									sq.Class("not-an-http-request")
								case x2.Panic != nil:
									failq("panic-escaped", r, m, "unknown-body-field", fmt.Sprintf("panic escaped ServeHTTP: %v", x2.Panic), mraw)
								case len(w.calls) != 1 || w.calls[0].method != ref.method:
									failq("unknown-body-field-not-skipped", r, m, "unknown-body-field", fmt.Sprintf("status %d body %.200q: the request with unknown fields at %q did not reach %s (invocations: %d)", x2.Response.StatusCode, x2.Body, strings.Join(site, "/"), ref.method, len(w.calls)), mraw)
								case renderArgs(w.calls[0].args) != renderArgs(ref.args):
									failq("unknown-body-field-disturbs", r, m, "unknown-body-field", fmt.Sprintf("with unknown fields at %q the resource received %s instead of %s", strings.Join(site, "/"), renderArgs(w.calls[0].args), renderArgs(ref.args)), mraw)
								default:
									sq.Class("ok:unknown-body-field-skipped")
								}
							}
						}
					}
				}
			}
			// (a) query
			for _, sx := range strs {
				q1 := "x=" + sx
				if query != "" {
					q1 = query + "&" + q1
				}
				send("query+param", joinRaw(verb+" "+mkTarget(path, q1)+" "+proto, headers, body), false)
				send("query-replaced", joinRaw(verb+" "+mkTarget(path, sx)+" "+proto, headers, body), false)
			}
			for i := 0; i < len(query); i++ {
				send("query-truncated", joinRaw(verb+" "+mkTarget(path, query[:i])+" "+proto, headers, body), false)
				send("query-byte-deleted", joinRaw(verb+" "+mkTarget(path, query[:i]+query[i+1:])+" "+proto, headers, body), queryMalformed(query[:i]+query[i+1:], declared))
				for _, b := range []byte{'(', ')', ',', ':', '\'', '%', '&', '='} {
					q2 := query[:i] + string([]byte{b}) + query[i+1:]
					send("query-byte-substituted", joinRaw(verb+" "+mkTarget(path, q2)+" "+proto, headers, body), queryMalformed(q2, declared))
				}
			}
			// (b) the last path segment (an entity key if the method has one)
			if j := strings.LastIndex(path, "/"); j > 0 && m.OnEntity {
				for _, sx := range strs {
					send("key-replaced", joinRaw(verb+" "+mkTarget(path[:j+1]+sx, query)+" "+proto, headers, body), false)
				}
			}
			// (b') every key position of the path on its own, and every pair of key positions together (strings of
			// <=2 symbols): keys that are only malformed one by one, or only well-formed when read together
			{
				segs := strings.Split(strings.TrimPrefix(path, "/"), "/")
				var keyPos []int
				// path = name [key] name [key] ...: walk it along the resource's segments
				pos := 0
				for _, sg := range r.Segments {
					pos++ // the resource name
					if sg.KeyName != "" && pos < len(segs) {
						keyPos = append(keyPos, pos)
						pos++
					}
				}
				build := func(repl map[int]string) string {
					out := append([]string{}, segs...)
					for i, v := range repl {
						out[i] = v
					}
					return "/" + strings.Join(out, "/")
				}
				// the entity key missing where the method needs one / present where it must not be: refused, never routed
				if last := r.Segments[len(r.Segments)-1]; last.KeyName != "" {
					if m.OnEntity && len(keyPos) > 0 && keyPos[len(keyPos)-1] == len(segs)-1 {
						send("path-entity-key-dropped", joinRaw(verb+" "+mkTarget("/"+strings.Join(segs[:len(segs)-1], "/"), query)+" "+proto, headers, body), true)
					}
					if !m.OnEntity {
						send("path-entity-key-added", joinRaw(verb+" "+mkTarget(path+"/surplus1", query)+" "+proto, headers, body), true)
					}
				}
				short := shortStrings(sigma, 2)
				for _, kp := range keyPos {
					for _, sx := range strs {
						send("path-key-replaced", joinRaw(verb+" "+mkTarget(build(map[int]string{kp: sx}), query)+" "+proto, headers, body), false)
					}
				}
				for x := 0; x < len(keyPos); x++ {
					for y := x + 1; y < len(keyPos); y++ {
						for _, s1 := range short {
							for _, s2 := range short {
								send("path-key-pair-replaced", joinRaw(verb+" "+mkTarget(build(map[int]string{keyPos[x]: s1, keyPos[y]: s2}), query)+" "+proto, headers, body), false)
							}
						}
					}
				}
			}
			// (b") text after a complete compound value - a complex key in a key position, a list or record in a
			// declared parameter - is not a ROR2 value any more (the reference parser refuses it): refused, never routed
			{
				trailers := []string{"x", "()", ",(k:1)", "%20", "''"}
				segs := strings.Split(strings.TrimPrefix(path, "/"), "/")
				for i, sg := range segs {
					if !strings.HasPrefix(sg, "(") {
						continue
					}
					for _, tr := range trailers {
						out := append([]string{}, segs...)
						out[i] = sg + tr
						send("path-key-trailing-text", joinRaw(verb+" "+mkTarget("/"+strings.Join(out, "/"), query)+" "+proto, headers, body), true)
					}
				}
				if query != "" {
					kvs := strings.Split(query, "&")
					for i, kv := range kvs {
						j := strings.Index(kv, "=")
						if j <= 0 || !declared[kv[:j]] || !(strings.HasPrefix(kv[j+1:], "(") || strings.HasPrefix(kv[j+1:], "List(")) {
							continue
						}
						for _, tr := range trailers {
							out := append([]string{}, kvs...)
							out[i] = kv + tr
							send("query-value-trailing-text", joinRaw(verb+" "+mkTarget(path, strings.Join(out, "&"))+" "+proto, headers, body), true)
						}
					}
				}
			}
			// (c1) the body sent in chunks: well-formed (same request), and with a malformed or truncated chunk stream
			if len(body) > 0 {
				var hs []string
				for _, h := range headers {
					if !strings.HasPrefix(strings.ToLower(h), "content-length:") {
						hs = append(hs, h)
					}
				}
				hs = append(hs, "Transfer-Encoding: chunked")
				good := fmt.Sprintf("%x\r\n%s\r\n0\r\n\r\n", len(body), body)
				send("body-chunked", joinRaw(line, hs, []byte(good)), false)
				for name, chunks := range map[string]string{
					"body-chunked-bad-size":  "ZZ\r\n" + string(body) + "\r\n0\r\n\r\n",
					"body-chunked-truncated": fmt.Sprintf("%x\r\n%s", len(body)+10, body),
					"body-chunked-no-end":    fmt.Sprintf("%x\r\n%s\r\n", len(body), body),
				} {
					send(name, joinRaw(line, hs, []byte(chunks)), false)
				}
			}
			// (c) body
			if len(body) > 0 {
				for i := 0; i <= len(body); i++ {
					mb := append([]byte{}, body[:i]...)
					_, perr := refjson.ParseStrict(mb)
					// a strict prefix (the empty one included: a method that reads its body needs a document) that is not
					// a JSON document is unambiguously malformed; other
					// deviations from the JSON grammar that the library's parser tolerates are not judged
					send("body-truncated", joinRaw(line, headers, mb), perr != nil && i < len(body) && readsBody)
					if i < len(body) {
						del := append(append([]byte{}, body[:i]...), body[i+1:]...)
						send("body-byte-deleted", joinRaw(line, headers, del), false)
						for _, b := range subst {
							sub := append(append(append([]byte{}, body[:i]...), b), body[i+1:]...)
							send("body-byte-substituted", joinRaw(line, headers, sub), false)
						}
					}
				}
			}
			// (d) headers
			for _, hv := range []string{"X-RestLi-Method: bogus", "X-RestLi-Method: ", "X-RestLi-Method: GET", "X-RestLi-Method: batch_get", "X-RestLi-Method: action", "Content-Type: text/plain",
				"Content-Type: multipart/mixed", "Content-Type: application/json; charset=", "X-RestLi-Protocol-Version: 1.0.0", "X-RestLi-Protocol-Version: x", "X-HTTP-Method-Override: GET", "X-HTTP-Method-Override: BOGUS"} {
				name := strings.ToLower(hv[:strings.Index(hv, ":")+1])
				var hs []string
				for _, h := range headers {
					if !strings.HasPrefix(strings.ToLower(h), name) {
						hs = append(hs, h)
					}
				}
				send("header-replaced", joinRaw(line, append(hs, hv), body), false)
				send("header-removed", joinRaw(line, hs, body), false)
			}

			// (e) tunnelled envelopes: well-formed, with a part missing, empty, with foreign parts, truncated
			{
				var hs []string
				for _, h := range headers {
					lh := strings.ToLower(h)
					if !strings.HasPrefix(lh, "content-type:") && !strings.HasPrefix(lh, "content-length:") {
						hs = append(hs, h)
					}
				}
				hs = append(hs, "X-HTTP-Method-Override: "+verb)
				q := query
				if q == "" {
					q = "zz=1"
				}
				jsonBody := string(body)
				if jsonBody == "" {
					jsonBody = "{}"
				}
				form := "--B\r\nContent-Type: application/x-www-form-urlencoded\r\n\r\n" + q + "\r\n"
				jpart := "--B\r\nContent-Type: application/json\r\n\r\n" + jsonBody + "\r\n"
				other := "--B\r\nContent-Type: text/plain\r\n\r\nhello\r\n"
				envs := map[string]string{
					"tunnel-both-parts": form + jpart + "--B--\r\n", "tunnel-only-query-part": form + "--B--\r\n", "tunnel-only-json-part": jpart + "--B--\r\n",
					"tunnel-no-parts": "--B--\r\n", "tunnel-foreign-part": form + other + jpart + "--B--\r\n", "tunnel-empty-body": "", "tunnel-garbage": "not a multipart body",
					"tunnel-two-query-parts": form + form + jpart + "--B--\r\n", "tunnel-unterminated": form + jpart,
				}
				for name, env := range envs {
					send(name, joinRaw("POST "+path+" "+proto, append(append([]string{}, hs...), "Content-Type: multipart/mixed; boundary=B"), []byte(env)), false)
				}
				whole := form + jpart + "--B--\r\n"
				for i := 0; i < len(whole); i += 7 {
					send("tunnel-truncated", joinRaw("POST "+path+" "+proto, append(append([]string{}, hs...), "Content-Type: multipart/mixed; boundary=B"), []byte(whole[:i])), false)
				}
				send("tunnel-form", joinRaw("POST "+path+" "+proto, append(append([]string{}, hs...), "Content-Type: application/x-www-form-urlencoded"), []byte(q)), false)
				send("tunnel-form-empty", joinRaw("POST "+path+" "+proto, append(append([]string{}, hs...), "Content-Type: application/x-www-form-urlencoded"), nil), false)
				send("tunnel-no-boundary", joinRaw("POST "+path+" "+proto, append(append([]string{}, hs...), "Content-Type: multipart/mixed"), []byte(whole)), false)
			}

			// ---- responses
			vres := valid.Response
			vbody := valid.Body
			respond := func(what string, status int, hdr http.Header, rb []byte) {
				w.reset()
				w.transport.Respond = func(x *wire.Exchange) *http.Response {
					res := &http.Response{StatusCode: status, Status: fmt.Sprintf("%d x", status), Proto: "HTTP/1.1", ProtoMajor: 1, ProtoMinor: 1,
						Header: hdr.Clone(), Body: io.NopCloser(bytes.NewReader(rb)), ContentLength: int64(len(rb))}
					return res
				}
				call, reply := buildCall(a.Gen, r, m, "none", nil)
				_, pan := w.Do(call, reply)
				w.transport.Respond = nil
				sr.Evaluations++
				sr.Transitions++
				sr.Traces++
				if pan != nil {
					rep.Fail(fmt.Sprintf("%s http response client-panic %s %s %s", a.Gen, resourceKind(r), ClientMethod(m), what),
						fmt.Sprintf("%s.%s: response status %d headers %v body %.300q made the client call panic: %v", r.Name(), ClientMethod(m), status, hdr, rb, pan),
						httpReplay{a.Gen, "C04H", univName, "response", r.Namespace, m.Name, fmt.Sprintf("%d\n%v\n%s", status, hdr, rb)})
					sr.Class("fail:client-panic")
					return
				}
				sr.Class("ok:" + what)
			}
			for i := 0; i <= len(vbody); i++ {
				respond("body-truncated", vres.StatusCode, vres.Header, vbody[:i])
				if i < len(vbody) {
					respond("body-byte-deleted", vres.StatusCode, vres.Header, append(append([]byte{}, vbody[:i]...), vbody[i+1:]...))
					for _, b := range subst {
						respond("body-byte-substituted", vres.StatusCode, vres.Header, append(append(append([]byte{}, vbody[:i]...), b), vbody[i+1:]...))
					}
				}
			}
			for _, hn := range []string{"X-Restli-Id", "Location"} {
				for _, sx := range strs {
					h := vres.Header.Clone()
					h.Set(hn, sx)
					respond("header-"+strings.ToLower(hn), vres.StatusCode, h, vbody)
				}
				h := vres.Header.Clone()
				h.Del(hn)
				respond("header-removed", vres.StatusCode, h, vbody)
			}
			for _, st := range []int{200, 201, 204, 301, 400, 404, 500} {
				respond("status", st, vres.Header, vbody)
				h := vres.Header.Clone()
				h.Set("X-Restli-Error-Response", "true")
				respond("error-header-on-any-body", st, h, vbody)
				respond("error-header-empty-body", st, h, nil)
				respond("error-header-garbage-body", st, h, []byte(`{"status":"x","message":7,"errorDetails":[]}`))
				h2 := vres.Header.Clone()
				h2.Set("Content-Type", "text/html")
				respond("content-type", st, h2, []byte("<html>"))
			}
		}
	}
}
