package main

import (
	"bytes"
	"encoding/json"
	"fmt"
	"io"
	"net/http"
	"reflect"
	"sort"
	"strings"

	"github.com/PapaCharlie/go-restli/v2/fnv1a"

	"verif/mc/hcli"
	"verif/mc/ref/refror2"
	"verif/mc/report"
	"verif/mc/schema"
	"verif/mc/wire"
)

type batchReplay struct {
	Gen     string   `json:"gen"`
	Part    string   `json:"part"`
	Univ    string   `json:"universe"`
	Res     string   `json:"resource"`
	Method  string   `json:"method"`
	Keys    []string `json:"keys"` // labels into the key pool
	Assign  []int    `json:"assign"`
	Foreign string   `json:"foreign,omitempty"`
}

// collidingStrings finds two distinct strings with the same library hash (32-bit FNV-1a).
func collidingStrings() (string, string) {
	seen := map[fnv1a.HashMapKey]string{}
	for i := 0; ; i++ {
		s := fmt.Sprintf("c%d", i)
		h := fnv1a.NewHash()
		h.AddString(s)
		k := h.MapKey()
		if o, ok := seen[k]; ok {
			return o, s
		}
		seen[k] = s
	}
}

type poolKey struct {
	label string
	v     *schema.V
}

// keyPool: adversarial keys of a key type.
func keyPool(t *schema.Type, thorough bool) []poolKey {
	var pool []poolKey
	add := func(label string, v *schema.V) { pool = append(pool, poolKey{label, v}) }
	switch {
	case t.ComplexKey != nil:
		ck := t.ComplexKey
		mk := func(k1 string, k2 int64, params bool) *schema.V {
			v := &schema.V{T: t, Fields: map[string]*schema.V{"k1": schema.VS(ck.Key.Field("k1").Type, k1), "k2": schema.VI(ck.Key.Field("k2").Type, k2)}}
			if params {
				v.Fields["$params"] = schema.Rich(ck.Params)
			}
			return v
		}
		c1, c2 := collidingStrings()
		add("a/0", mk("a", 0, false))
		add("a/0+params", mk("a", 0, true)) // equal to a/0 as a key
		add("a/1", mk("a", 1, false))
		// keys that differ only in a field inherited through an include of the key record (when it has one)
		if f := ck.Key.Field("kb"); f != nil {
			for _, kb := range []string{"x", "y"} {
				v := mk("a", 0, false)
				v.Fields["kb"] = schema.VS(f.Type, kb)
				add("a/0/kb="+kb, v)
			}
		}
		add("a:b/0", mk("a:b", 0, false))
		add("a%3Ab/0", mk("a%3Ab", 0, false))
		add("empty/0", mk("", 0, false))
		add("(/0", mk("(", 0, false))
		add(c1+"/0", mk(c1, 0, false))
		add(c2+"/0", mk(c2, 0, false))
		if thorough {
			add("b/0+params", mk("b", 0, true))
			add(",/-1", mk(",", -1, false))
		}
	case t.Base().Kind == schema.String:
		c1, c2 := collidingStrings()
		for _, s := range []string{"a", "", "a:b", "a%3Ab", "(", "''", c1, c2, "a b", "a+b", ",", "é"} {
			add(fmt.Sprintf("%q", s), schema.VS(t, s))
		}
		if thorough {
			for _, s := range []string{"a%20b", ")", "List(a)", "%", "\x00", "A"} {
				add(fmt.Sprintf("%q", s), schema.VS(t, s))
			}
		}
	default:
		for _, v := range schema.Alphabet(t, true) {
			if v.HasNaN() {
				continue // NaN never equals itself: not a key value
			}
			add(v.Dev, v)
			if len(pool) >= 6 && !thorough {
				break
			}
		}
		if t.Base().Kind == schema.Enum {
			// a constant outside the declared symbols cannot be encoded: a call holding it must fail before anything is sent
			add("illegal-constant", schema.VEOrd(t, int32(len(t.Symbols)+5)))
		}
	}
	return pool
}

func multisets(n, maxSize int, visit func(idx []int)) {
	var rec func(start int, cur []int)
	rec = func(start int, cur []int) {
		if len(cur) > 0 {
			visit(append([]int{}, cur...))
		}
		if len(cur) == maxSize {
			return
		}
		for i := start; i < n; i++ {
			rec(i, append(cur, i))
		}
	}
	rec(0, nil)
}

// sameKey: identity for pointer keys, equality otherwise.
func sameKey(got interface{}, sent reflect.Value) bool {
	gv := reflect.ValueOf(got)
	if sent.Kind() == reflect.Ptr {
		return gv.Kind() == reflect.Ptr && gv.Pointer() == sent.Pointer()
	}
	return reflect.DeepEqual(got, sent.Interface())
}

func idsOnWire(w *World) ([]string, error) {
	l := w.transport.Last()
	if l == nil || l.ServerReq == nil {
		return nil, fmt.Errorf("nothing sent")
	}
	raw := l.ServerReq.URL.RawQuery
	for _, part := range strings.Split(raw, "&") {
		if strings.HasPrefix(part, "ids=") {
			n, err := refror2.Parse(strings.TrimPrefix(part, "ids="), refror2.Query)
			if err != nil {
				return nil, fmt.Errorf("ids parameter %q does not parse: %v", part, err)
			}
			if n.Kind != refror2.ListK {
				return nil, fmt.Errorf("ids parameter %q is not a list", part)
			}
			// the raw (still encoded) items, in wire order
			inner := strings.TrimSuffix(strings.TrimPrefix(strings.TrimPrefix(part, "ids="), "List("), ")")
			return splitTop(inner), nil
		}
	}
	return nil, fmt.Errorf("no ids parameter in %q", raw)
}

func splitTop(s string) []string {
	if s == "" {
		return nil
	}
	var out []string
	depth, start := 0, 0
	for i := 0; i < len(s); i++ {
		switch s[i] {
		case '(':
			depth++
		case ')':
			depth--
		case ',':
			if depth == 0 {
				out = append(out, s[start:i])
				start = i + 1
			}
		}
	}
	return append(out, s[start:])
}

var assignKinds = [][]string{{"results"}, {"statuses"}, {"errors"}, {"results", "statuses"}, {"results", "errors"}, {"statuses", "errors"}, {"results", "statuses", "errors"}, {}}

var lenientWorlds = map[*schema.Universe]*World{}

// truncateKey drops the last field of a complex key's wire form: (k1:a,k2:0) -> (k1:a).
func truncateKey(k string) (string, bool) {
	if !strings.HasPrefix(k, "(") || !strings.HasSuffix(k, ")") {
		return "", false
	}
	depth, cut := 0, -1
	for i := 0; i < len(k); i++ {
		switch k[i] {
		case '(':
			depth++
		case ')':
			depth--
		case ',':
			if depth == 1 {
				cut = i
			}
		}
	}
	if cut < 0 {
		return "", false
	}
	return k[:cut] + ")", true
}

// checkBatch: foreign is "" or [lenient:][incomplete:]<map>, <map> in results / statuses / errors: the
// response mentions a never-requested key in that map - a foreign key value, or (incomplete) one of the
// requested complex keys with its last field cut off - and the client is strict or lenient.
func checkBatch(w *World, gen string, r *schema.Resource, m *schema.Method, keys []poolKey, assign []int, foreign string) (kind, detail string) {
	lenient, incomplete := false, false
	if strings.HasPrefix(foreign, "lenient:") {
		lenient, foreign = true, strings.TrimPrefix(foreign, "lenient:")
	}
	if strings.HasPrefix(foreign, "incomplete:") {
		incomplete, foreign = true, strings.TrimPrefix(foreign, "incomplete:")
	}
	if lenient {
		lw := lenientWorlds[w.u]
		if lw == nil {
			c := DefaultConfig
			c.Strict = false
			lw = NewWorld(w.u, c)
			lenientWorlds[w.u] = lw
		}
		w = lw
	}
	w.reset()
	ownKey := ownKeyType(r)
	call := &Call{Res: r, M: m}
	for _, kt := range pathKeyTypes(r, m) {
		call.Keys = append(call.Keys, keyAlphabet(kt, true)[0])
	}
	dup := false
	for i := range keys {
		for j := i + 1; j < len(keys); j++ {
			if keyPartEqual(keys[i].v, keys[j].v) {
				dup = true
			}
		}
	}
	mapBased := m.Name == "batch_update" || m.Name == "batch_partial_update"
	if dup && mapBased && ownKey.ComplexKey == nil {
		return "skip", "" // a Go map cannot hold equal non-pointer keys twice
	}
	reply := &Reply{}
	for i, k := range keys {
		if mapBased {
			kv := KV{K: k.v}
			if m.Name == "batch_update" {
				kv.V = schema.Base(r.Schema)
			} else {
				f := r.Schema.AllFields()[1]
				kv.P = &Patch{T: r.Schema, Set: map[string]*schema.V{f.Name: schema.Base(f.Type)}}
			}
			call.Keyed = append(call.Keyed, kv)
		} else {
			call.BatchKeys = append(call.BatchKeys, k.v)
		}
		e := &BatchEntry{K: k.v, Has: map[string]bool{}, Status: 200 + i}
		for _, mp := range assignKinds[assign[i]%len(assignKinds)] {
			e.Has[mp] = true
		}
		if m.Name == "batch_get" {
			e.Result = replyEntity(r.Schema, fmt.Sprint(i))
		}
		st, msg := int32(400+i), fmt.Sprintf("err %d", i)
		e.Err = &ErrV{Status: &st, Message: &msg}
		reply.Batch = append(reply.Batch, e)
	}
	if incomplete {
		if ownKey.ComplexKey == nil {
			return "skip", ""
		}
		mapName := foreign
		w.transport.Respond = func(x *wire.Exchange) *http.Response {
			var body map[string]map[string]json.RawMessage
			if err := json.Unmarshal(x.Body, &body); err != nil {
				report.Internal("batch response is not a JSON object of objects: %s", x.Body)
			}
			var ks []string
			for k := range body[mapName] {
				ks = append(ks, k)
			}
			sort.Strings(ks)
			if len(ks) == 0 {
				report.Internal("no entry in %s of %s", mapName, x.Body)
			}
			tk, ok := truncateKey(ks[0])
			if !ok {
				report.Internal("cannot truncate key %q", ks[0])
			}
			body[mapName][tk] = body[mapName][ks[0]]
			delete(body[mapName], ks[0])
			nb, _ := json.Marshal(body)
			return &http.Response{StatusCode: x.Response.StatusCode, Status: x.Response.Status, Proto: "HTTP/1.1", ProtoMajor: 1, ProtoMinor: 1,
				Header: x.Response.Header.Clone(), Body: io.NopCloser(bytes.NewReader(nb)), ContentLength: int64(len(nb))}
		}
		defer func() { w.transport.Respond = nil }()
	} else if foreign != "" {
		fk := otherKeyNotIn(ownKey, keys)
		if fk == nil {
			return "skip", "" // every value of the key type was requested: no foreign key exists
		}
		e := &BatchEntry{K: fk, Has: map[string]bool{foreign: true}, Status: 299}
		if m.Name == "batch_get" {
			e.Result = replyEntity(r.Schema, "foreign")
		}
		st, msg := int32(499), "foreign"
		e.Err = &ErrV{Status: &st, Message: &msg}
		reply.Batch = append(reply.Batch, e)
	}
	outs, pan := w.Do(call, reply)
	if pan != nil {
		return "client-panic", fmt.Sprint(pan)
	}
	var callErr error
	if ev := outs[len(outs)-1]; !ev.IsNil() {
		callErr = ev.Interface().(error)
	}
	for _, k := range keys {
		if k.v.T.Base().Kind == schema.Enum && k.v.Sym == "" {
			// the key cannot be put on the wire at all
			if callErr == nil {
				return "unencodable-key-accepted", fmt.Sprintf("the key set holds a key that cannot be encoded (%s) and the call succeeded%s", k.label, w.wireSummary())
			}
			if len(w.transport.Exchanges) != 0 {
				return "unencodable-key-sent", fmt.Sprintf("a request was sent although the key %s cannot be encoded: %s", k.label, requestLine(w))
			}
			return "", ""
		}
	}
	if dup {
		if callErr == nil {
			return "duplicate-accepted", "duplicate keys (under key equality) were not rejected"
		}
		if len(w.transport.Exchanges) != 0 {
			return "duplicate-sent", fmt.Sprintf("a request was sent although the keys contain a duplicate: %s", requestLine(w))
		}
		return "", ""
	}
	if last := w.transport.Last(); last != nil && last.Panic != nil {
		return "server-panic", fmt.Sprint(last.Panic)
	}
	if len(w.transport.Exchanges) != 1 {
		return "request-count", fmt.Sprintf("%d requests on the wire (client error: %v)", len(w.transport.Exchanges), callErr)
	}
	// ids on the wire: each encoded key exactly once, ascending
	ids, err := idsOnWire(w)
	if err != nil {
		return "ids-malformed", err.Error()
	}
	// every requested key exactly once (compared as values: the ids are decoded by the reference parser)
	used := make([]bool, len(keys))
	for _, id := range ids {
		v, err := refror2.DecodeText(ownKey, id, refror2.Query)
		if err != nil {
			return "ids-malformed", fmt.Sprintf("id %q on the wire does not denote a key: %v", id, err)
		}
		matched := false
		for i, k := range keys {
			if !used[i] && schema.Equal(v, k.v) {
				used[i], matched = true, true
				break
			}
		}
		if !matched {
			return "ids-wrong", fmt.Sprintf("ids on the wire %q: %q is not one of the requested keys, or is listed twice", ids, id)
		}
	}
	for i, k := range keys {
		if !used[i] {
			return "ids-wrong", fmt.Sprintf("ids on the wire %q lack the requested key %s", ids, k.v)
		}
	}
	if !sort.StringsAreSorted(ids) {
		return "ids-unsorted", fmt.Sprintf("ids on the wire %q are not in ascending encoded order", ids)
	}
	if foreign != "" {
		if callErr == nil {
			return "foreign-key-accepted", fmt.Sprintf("the response mentions a never-requested key in %s and the call succeeded", foreign)
		}
		return "", ""
	}
	if callErr != nil {
		return "client-error", fmt.Sprintf("%v%s", callErr, w.wireSummary())
	}
	results, statuses, errs := readBatch(outs[0])
	maps := map[string]map[interface{}]reflect.Value{"results": results, "statuses": statuses, "errors": errs}
	for name, mp := range maps {
		expected := 0
		for i, e := range reply.Batch {
			if !e.Has[name] {
				continue
			}
			expected++
			found := false
			for gk, gv := range mp {
				if !sameKey(gk, call.SentKeys[i]) {
					continue
				}
				found = true
				switch name {
				case "statuses":
					if int(gv.Int()) != e.Status {
						return "entry-altered", fmt.Sprintf("statuses[%s] = %d, want %d", e.K, gv.Int(), e.Status)
					}
				case "errors":
					ge := readErrResp(gv)
					if ge == nil || ge.Status == nil || *ge.Status != *e.Err.Status || ge.Message == nil || *ge.Message != *e.Err.Message {
						return "entry-altered", fmt.Sprintf("errors[%s] differs from what the resource returned", e.K)
					}
				case "results":
					if e.Result != nil {
						if g := fromGo(gv, r.Schema); !schema.Equal(g, e.Result) {
							return "entry-altered", fmt.Sprintf("results[%s] = %s, want %s", e.K, g, e.Result)
						}
					} else if st := int(gv.Elem().FieldByName("Status").Int()); st != e.Status {
						return "entry-altered", fmt.Sprintf("results[%s].status = %d, want %d", e.K, st, e.Status)
					}
				}
			}
			if !found {
				how := "an equal key"
				if call.SentKeys[i].Kind() == reflect.Ptr {
					how = "the caller's own key object (pointer identity)"
				}
				return "entry-not-under-original-key", fmt.Sprintf("%s has no entry filed under %s for %s (map holds %d entries)%s", name, how, e.K, len(mp), w.wireSummary())
			}
		}
		if len(mp) != expected {
			return "entry-count", fmt.Sprintf("%s holds %d entries, the resource returned %d", name, len(mp), expected)
		}
	}
	return "", ""
}

func otherKeyNotIn(t *schema.Type, keys []poolKey) *schema.V {
	var avoid []*schema.V
	for _, k := range keys {
		avoid = append(avoid, k.v)
	}
	for _, k := range keyPool(t, true) {
		ok := true
		for _, a := range avoid {
			if keyPartEqual(k.v, a) {
				ok = false
			}
		}
		if ok {
			return k.v
		}
	}
	for _, k := range keyAlphabet(t, true) {
		ok := true
		for _, a := range avoid {
			if keyPartEqual(k, a) {
				ok = false
			}
		}
		if ok {
			return k
		}
	}
	return nil
}

func partC16(a *hcli.Args, rep *report.Report, univName string, u *schema.Universe) {
	s := rep.S("batch-correlation")
	maxSize := 3
	if a.Thorough() {
		maxSize = 4
	}
	s.Bounds = fmt.Sprintf("every keyed root collection x {batch_get, batch_update, batch_partial_update, batch_delete} x every key multiset of size<=%d over an adversarial key pool (hash-colliding keys, keys equal up to params, keys differing only in escaping-relevant characters, empty, reserved characters) with a rotating reply assignment; for the base key set all 8^n assignments of keys to subsets of {results, statuses, errors} and a never-requested key in each map", maxSize)
	w := NewWorld(u, DefaultConfig)
	item := 0
	for _, r := range u.Resources {
		last := r.Segments[len(r.Segments)-1]
		if last.KeyName == "" || len(r.Segments) > 1 || len(r.ReadOnly) > 0 {
			continue
		}
		pool := keyPool(last.KeyType, a.Thorough())
		for _, mn := range []string{"batch_get", "batch_update", "batch_partial_update", "batch_delete"} {
			m := r.Method(mn)
			if m == nil {
				continue
			}
			s.States++
			run := func(keys []poolKey, assign []int, foreign string) {
				item++
				if !a.Mine(item) {
					return
				}
				kind, detail := checkBatch(w, a.Gen, r, m, keys, assign, foreign)
				if kind == "skip" {
					return
				}
				s.Evaluations++
				s.Transitions++
				s.Traces++
				if kind != "" {
					var labels []string
					for _, k := range keys {
						labels = append(labels, k.label)
					}
					rep.Fail(fmt.Sprintf("%s batch %s %s %s keys=[%s] foreign=%s", a.Gen, kind, resourceKind(r), mn, strings.Join(labels, " "), foreign),
						fmt.Sprintf("%s.%s keys %v assignment %v: %s", r.Name(), mn, labels, assign, detail),
						batchReplay{a.Gen, "C16", univName, r.Namespace, mn, labels, assign, foreign})
					s.Class("fail:" + kind)
				} else {
					dup := false
					for i := range keys {
						for j := i + 1; j < len(keys); j++ {
							if keyPartEqual(keys[i].v, keys[j].v) {
								dup = true
							}
						}
					}
					switch {
					case dup:
						s.Class("ok:duplicate-rejected-before-send")
					case foreign != "":
						s.Class("ok:foreign-key-rejected:" + foreign)
					default:
						s.Class(fmt.Sprintf("ok:%s:%d-keys", mn, len(keys)))
					}
				}
			}
			multisets(len(pool), maxSize, func(idx []int) {
				keys := make([]poolKey, len(idx))
				assign := make([]int, len(idx))
				for i, j := range idx {
					keys[i] = pool[j]
					assign[i] = (i + j) % 7
				}
				run(keys, assign, "")
			})
			// base key set: all assignments, and foreign keys
			var base []poolKey
			for _, i := range []int{0, 2, len(pool) - 1} {
				// (key types with fewer than three values, e.g. bool, give a smaller base set)
				if i >= 0 && i < len(pool) && (len(base) == 0 || !keyPartEqual(base[len(base)-1].v, pool[i].v)) && (len(base) < 2 || !keyPartEqual(base[0].v, pool[i].v)) {
					base = append(base, pool[i])
				}
			}
			var rec func(assign []int)
			rec = func(assign []int) {
				if len(assign) == len(base) {
					run(base, append([]int{}, assign...), "")
					return
				}
				for x := 0; x < 8; x++ {
					rec(append(assign, x))
				}
			}
			rec(nil)
			for _, f := range []string{"results", "statuses", "errors"} {
				for _, mode := range []string{"", "lenient:", "incomplete:", "lenient:incomplete:"} {
					// (assignment 6 files every key under all three maps, so the map named has an entry to work on)
					run(base, []int{6, 6, 6}[:len(base)], mode+f)
					run(base[:1], []int{6}, mode+f)
					if mode == "" || mode == "lenient:" {
						run(base[:1], []int{7}, mode+f)
					}
					if mode == "" || mode == "lenient:" {
						run(base, []int{0, 1, 2}[:len(base)], mode+f)
					}
				}
			}
		}
	}
	c1, c2 := collidingStrings()
	rep.Sample(map[string]interface{}{"hash_colliding_strings": []string{c1, c2}, "example": "cComplex.BatchGet(keys a/0, a:b/0, " + c1 + "/0) with results{0}, statuses{1}, errors{2}"})
}
