// Generator entry point for the root module generation.
package main

import (
	"log"
	"os"

	"github.com/PapaCharlie/go-restli/v2/cmd"
	"github.com/PapaCharlie/go-restli/v2/codegen/utils"
)

func main() {
	// usage: genbin <spec.json> <outdir> <package prefix>
	b, err := os.ReadFile(os.Args[1])
	if err != nil {
		log.Fatal(err)
	}
	utils.PackagePrefix = os.Args[3]
	if err := cmd.GenerateCode(b, os.Args[2]); err != nil {
		log.Fatal(err)
	}
}
