// Generator entry point: runs the code generator of /repo's working tree on a manifest.
// One generation per process (the generator keeps process-global registries).
package main

import (
	"log"
	"os"

	"github.com/PapaCharlie/go-restli/v2/cmd"
)

func main() {
	// usage: genbin <manifest.json> <outdir> [dependency-manifest.json ...]
	var manifests []*cmd.GoRestliManifest
	for _, dep := range os.Args[3:] {
		b, err := os.ReadFile(dep)
		if err != nil {
			log.Fatal(err)
		}
		m, err := cmd.ReadManifest(b)
		if err != nil {
			log.Fatal(err)
		}
		manifests = append(manifests, m)
	}
	b, err := os.ReadFile(os.Args[1])
	if err != nil {
		log.Fatal(err)
	}
	m, err := cmd.ReadManifest(b)
	if err != nil {
		log.Fatal(err)
	}
	manifests = append(manifests, m)
	// VERIF_GEN_WITH_PKGROOT=1: the --generate-with-package-root layout (<outdir>/<packageRoot>/...)
	if err := cmd.GenerateCode(os.Args[2], manifests, os.Getenv("VERIF_GEN_WITH_PKGROOT") == "1"); err != nil {
		log.Fatal(err)
	}
}
