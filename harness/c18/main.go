// C18: the real lazymap.go (sync import rewritten to verifsync by overlay) explored over all
// interleavings of small thread programs against a linearizability monitor.
package main

import (
	"fmt"
	"os"
	"sort"
	"strings"

	"github.com/PapaCharlie/go-restli/v2/d2/lazymap"
	vs "github.com/PapaCharlie/go-restli/v2/verifsync"

	"verif/mc/hcli"
	"verif/mc/report"
	"verif/mc/sched"
)

const (
	kLOS = iota
	kLoad
	kStore
)

type Op struct {
	Kind int `json:"kind"`
	Key  int `json:"key"`
}

func (o Op) String() string {
	return fmt.Sprintf("%s(k%d)", [...]string{"LoadOrStore", "Load", "Store"}[o.Kind], o.Key)
}

type Prog []Op

func (p Prog) String() string {
	s := make([]string, len(p))
	for i, o := range p {
		s[i] = o.String()
	}
	return strings.Join(s, ";")
}

// ---- linearizability monitor (Appendix C of DESIGN.md) ----

const maxT = 3

type cfg struct {
	m  [3]int // m[k] = value, 0 absent (k = 1,2)
	st [maxT]int8
	rv [maxT]int
	rf [maxT]bool
}

type pendingOp struct {
	op  Op
	val int
}

type monitor struct {
	cfgs    map[cfg]struct{}
	pend    [maxT]*pendingOp
	history []string
}

func newMonitor() *monitor {
	return &monitor{cfgs: map[cfg]struct{}{{}: {}}}
}

func apply(c cfg, t int, p *pendingOp) cfg {
	k := p.op.Key
	switch p.op.Kind {
	case kLOS:
		if c.m[k] != 0 {
			c.rv[t], c.rf[t] = c.m[k], false
		} else {
			c.m[k] = p.val
			c.rv[t], c.rf[t] = p.val, true
		}
	case kLoad:
		c.rv[t], c.rf[t] = c.m[k], c.m[k] != 0
	case kStore:
		c.m[k] = p.val
		c.rv[t], c.rf[t] = 0, false
	}
	c.st[t] = 2
	return c
}

func (m *monitor) closure() {
	work := make([]cfg, 0, len(m.cfgs))
	for c := range m.cfgs {
		work = append(work, c)
	}
	for len(work) > 0 {
		c := work[len(work)-1]
		work = work[:len(work)-1]
		for t := 0; t < maxT; t++ {
			if c.st[t] == 1 {
				n := apply(c, t, m.pend[t])
				if _, ok := m.cfgs[n]; !ok {
					m.cfgs[n] = struct{}{}
					work = append(work, n)
				}
			}
		}
	}
}

func (m *monitor) call(t int, op Op, val int) {
	m.history = append(m.history, fmt.Sprintf("T%d call %s v=%d", t, op, val))
	m.pend[t] = &pendingOp{op, val}
	n := make(map[cfg]struct{}, len(m.cfgs)*2)
	for c := range m.cfgs {
		c.st[t] = 1
		n[c] = struct{}{}
	}
	m.cfgs = n
	m.closure()
}

func (m *monitor) ret(t int, rv int, rf bool) {
	m.history = append(m.history, fmt.Sprintf("T%d ret %s -> (%d,%v)", t, m.pend[t].op, rv, rf))
	n := make(map[cfg]struct{}, len(m.cfgs))
	for c := range m.cfgs {
		if c.st[t] == 2 && c.rv[t] == rv && c.rf[t] == rf {
			c.st[t], c.rv[t], c.rf[t] = 0, 0, false
			n[c] = struct{}{}
		}
	}
	m.cfgs = n
	m.pend[t] = nil
}

func (m *monitor) key() string {
	ks := make([]string, 0, len(m.cfgs))
	for c := range m.cfgs {
		ks = append(ks, fmt.Sprint(c))
	}
	sort.Strings(ks)
	return strings.Join(ks, "")
}

// ---- harness ----

type world struct {
	m        *lazymap.LazySyncMap
	mon      *monitor
	needCall [maxT]*pendingOp
	retd     [maxT]int // number of ops returned per thread
	err      error
	progs    []Prog
	outcome  []string
}

var w *world

func valOf(t, i int) int { return (t+1)*10 + i + 1 }

// valueMode: how the abstract values are represented in the map. "int": themselves; "err": a type implementing
// error (what d2 stores for a failed lookup); "nil": the first value of thread 0 is the untyped nil (a value like any
// other for a map), the others are themselves.
var valueMode = "int"

type valErr int

func (e valErr) Error() string { return fmt.Sprintf("value %d", int(e)) }

func enc(val int) interface{} {
	switch valueMode {
	case "err":
		return valErr(val)
	case "nil":
		if val == valOf(0, 0) {
			return nil
		}
	}
	return val
}

func dec(r interface{}) (int, bool) {
	switch x := r.(type) {
	case int:
		return x, valueMode != "err"
	case valErr:
		return int(x), valueMode == "err"
	case nil:
		return valOf(0, 0), valueMode == "nil"
	}
	return 0, false
}

func fireCall() {
	t := sched.CurID()
	if t >= 0 && w != nil && w.needCall[t] != nil {
		p := w.needCall[t]
		w.needCall[t] = nil
		w.mon.call(t, p.op, p.val)
	}
}

func installHooks() {
	vs.PointHook = func(l string) { sched.Point(l); fireCall() }
	vs.BlockHook = func(l string, p func() bool) { sched.Block(l, p); fireCall() }
	vs.ObserveHook = sched.Observe
	vs.CurHook = sched.CurID
}

func setFail(format string, a ...interface{}) {
	if w.err == nil {
		w.err = fmt.Errorf(format, a...)
	}
}

func threadBody(t int, prog Prog) func() {
	return func() {
		for i, op := range prog {
			val := valOf(t, i)
			w.needCall[t] = &pendingOp{op, val}
			var rv int
			var rf bool
			switch op.Kind {
			case kLOS:
				ran := false
				r := w.m.LoadOrStore(op.Key, func() interface{} {
					sched.Point("f")
					fireCall()
					ran = true
					return enc(val)
				})
				iv, ok := dec(r)
				if !ok {
					setFail("T%d %s returned a non-value %T (%+v)", t, op, r, r)
				}
				rv, rf = iv, ran
			case kLoad:
				r, ok := w.m.Load(op.Key)
				if ok {
					iv, isInt := dec(r)
					if !isInt {
						setFail("T%d %s returned an in-flight placeholder %T (%+v)", t, op, r, r)
					}
					rv = iv
				} else if r != nil {
					setFail("T%d %s returned (%v,false)", t, op, r)
				}
				rf = ok
			case kStore:
				w.m.Store(op.Key, enc(val))
			}
			if w.needCall[t] != nil {
				// the operation returned without any shared action: invocation = return
				fireCall()
			}
			w.mon.ret(t, rv, rf)
			w.retd[t]++
			sched.Observe(fmt.Sprintf("r:%d:%v", rv, rf))
			if len(w.mon.cfgs) == 0 {
				setFail("history is not linearizable after T%d %s -> (%d,%v)", t, op, rv, rf)
			}
		}
	}
}

// wgOwnerReturned: for a wait group named wg.T<t>#<seq>, has the operation of thread t that
// created it (its seq-th LoadOrStore/Store) already returned?
func wgOwnerReturned(label string) (bool, bool) {
	i := strings.Index(label, "wg.T")
	if i < 0 {
		return false, false
	}
	var t, seq int
	if _, err := fmt.Sscanf(label[i:], "wg.T%d#%d", &t, &seq); err != nil {
		return false, false
	}
	if t < 0 || t >= len(w.progs) {
		return false, false
	}
	n := 0
	for idx, op := range w.progs[t] {
		if op.Kind == kLOS || op.Kind == kStore {
			if n == seq {
				return w.retd[t] > idx, true
			}
			n++
		}
	}
	return false, false
}

func mkHarness(progs []Prog) sched.Harness {
	return sched.Harness{
		Setup: func(e *sched.Exec) {
			vs.ResetIDs()
			w = &world{m: new(lazymap.LazySyncMap), mon: newMonitor(), progs: progs}
			for t, p := range progs {
				e.Go(fmt.Sprintf("T%d", t), threadBody(t, p))
			}
		},
		StateKey: func(e *sched.Exec) string {
			return (*vs.Map)(w.m).Snapshot() + "||" + w.mon.key()
		},
		OnState: func(e *sched.Exec) error {
			if w.err != nil {
				return w.err
			}
			for _, th := range e.Threads() {
				if th.Blocked() && strings.HasPrefix(th.Label(), "WaitGroup.Wait") {
					if ret, ok := wgOwnerReturned(th.Label()); ok && ret {
						return fmt.Errorf("T%d is blocked on %s although the computing call has returned", th.ID, th.Label())
					}
				}
			}
			return nil
		},
		OnEnd: func(e *sched.Exec) error {
			if w.err != nil {
				return w.err
			}
			if len(w.mon.cfgs) == 0 {
				return fmt.Errorf("history not linearizable")
			}
			// quiescent check: real final value must be a final value of some linearization;
			// when all agree it must be exactly that one.
			for k := 1; k <= 2; k++ {
				finals := map[int]bool{}
				for c := range w.mon.cfgs {
					finals[c.m[k]] = true
				}
				r, ok := (*vs.Map)(w.m).Peek(k)
				got := 0
				if ok {
					iv, isInt := dec(r)
					if !isInt {
						return fmt.Errorf("after quiescence key k%d still holds a placeholder %+v", k, r)
					}
					got = iv
				}
				if !finals[got] {
					return fmt.Errorf("after quiescence k%d=%d but linearizations allow only %v", k, got, keysOf(finals))
				}
			}
			return nil
		},
	}
}

func keysOf(m map[int]bool) []int {
	var ks []int
	for k := range m {
		ks = append(ks, k)
	}
	sort.Ints(ks)
	return ks
}

// ---- program enumeration ----

func allProgs(maxOps int, keys []int) []Prog {
	var ops []Op
	for _, k := range keys {
		for kind := 0; kind < 3; kind++ {
			ops = append(ops, Op{kind, k})
		}
	}
	// simplest first: by length, then kind order LOS, Load, Store, key
	sort.SliceStable(ops, func(i, j int) bool {
		if ops[i].Key != ops[j].Key {
			return ops[i].Key < ops[j].Key
		}
		return ops[i].Kind < ops[j].Kind
	})
	var out []Prog
	var rec func(cur Prog, n int)
	rec = func(cur Prog, n int) {
		if len(cur) == n {
			out = append(out, append(Prog(nil), cur...))
			return
		}
		for _, o := range ops {
			rec(append(cur, o), n)
		}
	}
	for n := 1; n <= maxOps; n++ {
		rec(nil, n)
	}
	return out
}

func swapKeys(p Prog) Prog {
	q := make(Prog, len(p))
	for i, o := range p {
		q[i] = Op{o.Kind, 3 - o.Key}
	}
	return q
}

func tupleKey(ps []Prog) string {
	s := make([]string, len(ps))
	for i, p := range ps {
		s[i] = p.String()
	}
	sort.Strings(s) // thread symmetry
	return strings.Join(s, " | ")
}

// canonicalTuples enumerates multisets of n programs, reduced by thread and key symmetry.
// Both are automorphisms of the harness: thread ids only name values, the two keys are
// interchangeable, and the oracle is invariant under both renamings.
func canonicalTuples(progs []Prog, n int) (tuples [][]Prog, raw int) {
	seen := map[string]bool{}
	idx := make([]int, n)
	var rec func(pos, from int)
	rec = func(pos, from int) {
		if pos == n {
			raw++
			t := make([]Prog, n)
			sw := make([]Prog, n)
			for i, j := range idx {
				t[i] = progs[j]
				sw[i] = swapKeys(progs[j])
			}
			k1, k2 := tupleKey(t), tupleKey(sw)
			if k2 < k1 {
				k1 = k2
			}
			if seen[k1] {
				return
			}
			seen[k1] = true
			tuples = append(tuples, t)
			return
		}
		for j := from; j < len(progs); j++ {
			idx[pos] = j
			rec(pos+1, j)
		}
	}
	rec(0, 0)
	return
}

type replayPayload struct {
	Gen      string `json:"gen"`
	Progs    []Prog `json:"progs"`
	Schedule []int  `json:"schedule"`
	Mode     string `json:"mode,omitempty"`
}

type family struct {
	name   string
	tuples [][]Prog
	bound  int
	prune  bool
	mode   string
}

// orderedTuples: every ordered n-tuple (the "nil" representation singles out thread 0, so thread symmetry is gone).
func orderedTuples(progs []Prog, n int) (out [][]Prog) {
	var rec func(cur []Prog)
	rec = func(cur []Prog) {
		if len(cur) == n {
			out = append(out, append([]Prog{}, cur...))
			return
		}
		for _, p := range progs {
			rec(append(cur, p))
		}
	}
	rec(nil)
	return out
}

func main() {
	a := hcli.Parse()
	installHooks()
	rep := report.New(a.Gen)

	if a.Replay != "" {
		var rp replayPayload
		a.LoadReplay(&rp)
		if rp.Mode != "" {
			valueMode = rp.Mode
		}
		h := mkHarness(rp.Progs)
		f1, tr1 := sched.Replay(h, rp.Schedule)
		f2, tr2 := sched.Replay(h, rp.Schedule)
		if sched.FormatTrace(tr1) != sched.FormatTrace(tr2) || (f1 == nil) != (f2 == nil) {
			report.Internal("replay is not deterministic")
		}
		fmt.Println("programs:", tupleKey(rp.Progs))
		fmt.Println("trace:", sched.FormatTrace(tr1))
		if f1 != nil {
			fmt.Println("FAIL:", f1.Kind, f1.Msg)
			fmt.Println("history:", strings.Join(w.mon.history, "; "))
			os.Exit(1)
		}
		fmt.Println("no violation on this schedule")
		return
	}

	one := allProgs(1, []int{1, 2})
	two := allProgs(2, []int{1, 2})
	twoSame := allProgs(2, []int{1})
	var fams []family
	t21, _ := canonicalTuples(two, 2)
	t31, _ := canonicalTuples(one, 3)
	fams = append(fams, family{"2x2-all-unbounded", t21, -1, true, "int"})
	fams = append(fams, family{"3x1-all-unbounded", t31, -1, true, "int"})
	if a.Thorough() {
		t32, _ := canonicalTuples(two, 3)
		fams = append(fams, family{"3x2-all-unbounded", t32, -1, true, "int"})
	} else {
		t32s, _ := canonicalTuples(twoSame, 3)
		fams = append(fams, family{"3x2-samekey-pb2", t32s, 2, true, "int"})
	}
	// the values as error objects (what d2 stores for a failed lookup) and with an untyped nil among them
	fams = append(fams, family{"2x2-all-unbounded-values=err", t21, -1, true, "err"})
	fams = append(fams, family{"3x1-all-unbounded-values=err", t31, -1, true, "err"})
	fams = append(fams, family{"2x2-ordered-unbounded-values=nil", orderedTuples(two, 2), -1, true, "nil"})
	fams = append(fams, family{"3x1-ordered-unbounded-values=nil", orderedTuples(one, 3), -1, true, "nil"})
	if a.Thorough() {
		fams = append(fams, family{"3x2-samekey-unbounded-values=err", func() [][]Prog { t, _ := canonicalTuples(twoSame, 3); return t }(), -1, true, "err"})
		fams = append(fams, family{"3x2-samekey-ordered-pb2-values=nil", orderedTuples(twoSame, 3), 2, true, "nil"})
	}

	item := 0
	histories := map[string]bool{}
	for _, fam := range fams {
		s := rep.S(fam.name)
		valueMode = fam.mode
		s.Bounds = fmt.Sprintf("tuples=%d preemption_bound=%d prune=%v", len(fam.tuples), fam.bound, fam.prune)
		for _, tup := range fam.tuples {
			item++
			if !a.Mine(item) {
				continue
			}
			if a.Expired() {
				s.Exhaustive = false
				rep.Cap(fam.name + ": internal deadline")
				break
			}
			h := mkHarness(tup)
			// record distinct complete histories (bounded memory)
			inner := h.OnEnd
			h.OnEnd = func(e *sched.Exec) error {
				if len(histories) < 200000 {
					histories[strings.Join(w.mon.history, ";")] = true
				}
				return inner(e)
			}
			res := sched.Explore(h, sched.Options{Bound: fam.bound, Prune: fam.prune, Deadline: a.Deadline})
			s.Evaluations++
			s.Traces += res.Execs
			s.Transitions += res.Transitions
			s.States += res.States
			if res.Capped {
				s.Exhaustive = false
				rep.Cap(fam.name + ": internal deadline during " + tupleKey(tup))
			}
			s.Class(fmt.Sprintf("maxpreempt=%d", res.MaxPreempt))
			if len(rep.Samples) < 6 && len(res.SampleTraces) > 0 {
				rep.Sample(map[string]interface{}{"family": fam.name, "programs": tupleKey(tup),
					"schedule": sched.FormatTrace(res.SampleTraces[len(res.SampleTraces)-1]),
					"executions": res.Execs, "states": res.States})
			}
			for _, f := range res.Failures {
				// determinism obligation: the failing schedule must fail again, identically
				f2, _ := sched.Replay(h, f.Schedule)
				if f2 == nil || f2.Kind != f.Kind {
					report.Internal("failure does not replay: %s / %s", tupleKey(tup), f.Msg)
				}
				msg := f.Msg
				if i := strings.Index(msg, "\n"); i > 0 {
					msg = msg[:i]
				}
				modeTag := ""
				if fam.mode != "int" {
					modeTag = " values=" + fam.mode
				}
				rep.Fail(fmt.Sprintf("%s lazymap %s programs=[%s]%s", a.Gen, f.Kind, tupleKey(tup), modeTag),
					fmt.Sprintf("%s\nschedule: %s", f.Msg, sched.FormatTrace(f.Trace)),
					replayPayload{a.Gen, tup, f.Schedule, fam.mode})
			}
		}
	}
	rep.Extra["distinct_histories"] = len(histories)
	rep.Write(a.Out)
}
