//go:build tcrig

package main

// C19, part T: treecache.go - the component that turns ZooKeeper watches into the TreeCacheEvents
// the rest of D2 folds. Explicit-state exploration of (fake ZooKeeper, TreeCache) over every
// sequence of ZooKeeper writes up to a depth, every order in which the watch events they trigger
// reach the cache, both fates of events whose node was already told to stop, a lost session, one
// injected connection error at any of the next connection calls, and the retry timer firing
// before or after later writes. Oracle: whenever nothing is in flight and the cache is not in
// failure mode - and at the end, once the retry timer has fired - the fold of the emitted
// TreeCacheEvents (last event per path wins, nil data removes) equals the content of ZooKeeper.
//
// The cache runs without goroutines or timers: see overlay/d2/verif_treecache.go.tmpl for how the
// rig is derived from the current treecache.go.

import (
	"fmt"
	"sort"
	"strings"

	"github.com/PapaCharlie/go-restli/v2/d2"

	"verif/mc/hcli"
	"verif/mc/report"
)

const tcPrefix = "/d2/uris/C"

type tcChoice struct {
	Kind string `json:"kind"` // create set delete lost fault deliver drop retry
	Path string `json:"path,omitempty"`
	Data string `json:"data,omitempty"`
	N    int    `json:"n,omitempty"` // fault: which next call fails; deliver / drop: index into the pending list
}

func (c tcChoice) String() string {
	switch c.Kind {
	case "create", "set":
		return fmt.Sprintf("%s(%s,%s)", c.Kind, strings.TrimPrefix(c.Path, tcPrefix), c.Data)
	case "delete":
		return fmt.Sprintf("delete(%s)", strings.TrimPrefix(c.Path, tcPrefix))
	case "fault":
		return fmt.Sprintf("fault@call+%d", c.N)
	case "deliver", "drop":
		return fmt.Sprintf("%s#%d", c.Kind, c.N)
	}
	return c.Kind
}

type tcReplay struct {
	Initial string     `json:"initial"`
	Choices []tcChoice `json:"choices"`
}

var tcInitials = map[string]map[string]string{
	"empty-root":   {tcPrefix: ""},
	"one-child":    {tcPrefix: "", tcPrefix + "/c1": "A"},
	"two-children": {tcPrefix: "", tcPrefix + "/c1": "A", tcPrefix + "/c2": "A"},
	"no-root":      {},
}

func tcWrites(deep bool) []tcChoice {
	ws := []tcChoice{
		{Kind: "create", Path: tcPrefix + "/c1", Data: "A"}, {Kind: "create", Path: tcPrefix + "/c2", Data: "B"},
		{Kind: "set", Path: tcPrefix + "/c1", Data: "B"}, {Kind: "set", Path: tcPrefix + "/c1", Data: "A"}, {Kind: "set", Path: tcPrefix + "/c2", Data: "A"},
		{Kind: "delete", Path: tcPrefix + "/c1"}, {Kind: "delete", Path: tcPrefix + "/c2"},
		{Kind: "set", Path: tcPrefix, Data: "R"}, {Kind: "delete", Path: tcPrefix}, {Kind: "create", Path: tcPrefix, Data: ""},
		{Kind: "lost"},
	}
	if deep {
		ws = append(ws, tcChoice{Kind: "create", Path: tcPrefix + "/c1/g", Data: "G"}, tcChoice{Kind: "set", Path: tcPrefix + "/c1/g", Data: "H"}, tcChoice{Kind: "delete", Path: tcPrefix + "/c1/g"})
	}
	return ws
}

func sameMap(a, b map[string]string) bool {
	if len(a) != len(b) {
		return false
	}
	for k, v := range a {
		if w, ok := b[k]; !ok || w != v {
			return false
		}
	}
	return true
}

func renderMap(m map[string]string) string {
	var ks []string
	for k := range m {
		ks = append(ks, k)
	}
	sort.Strings(ks)
	var parts []string
	for _, k := range ks {
		parts = append(parts, fmt.Sprintf("%s=%q", strings.TrimPrefix(k, tcPrefix)+"/", m[k]))
	}
	return "{" + strings.Join(parts, " ") + "}"
}

// tcState is one execution in progress.
type tcState struct {
	rig     *d2.VerifTCRig
	writes  int
	faults  int
	choices []tcChoice
	// what the history contains (for the failure signature)
	rootGoneInFailure bool // the root was deleted while the cache was in failure mode
	resyncFailed      bool // a connection error hit a resync attempt
	faultFired        bool
}

func (s *tcState) cause() string {
	var c []string
	if s.resyncFailed {
		c = append(c, "connection-error-during-resync")
	} else if s.faultFired {
		c = append(c, "connection-error")
	}
	if s.rootGoneInFailure {
		c = append(c, "root-deleted-in-failure-mode")
	}
	if len(c) == 0 {
		return "none"
	}
	return strings.Join(c, "+")
}

// settle drops the events nobody can relay any more and checks the invariant at quiescent points.
func (s *tcState) settle() error {
	for {
		dropped := false
		for _, p := range s.rig.Pending() {
			if s.rig.Fate(p) == "drop" {
				s.rig.Drop(p.ID)
				dropped = true
				break
			}
		}
		if !dropped {
			break
		}
	}
	if len(s.rig.Pending()) == 0 && !s.rig.FailureMode() {
		if f, t := s.rig.Fold(), s.rig.Tree(); !sameMap(f, t) {
			return fmt.Errorf("nothing is in flight and the cache is not in failure mode, yet the fold of its events is %s while ZooKeeper holds %s", renderMap(f), renderMap(t))
		}
	}
	return nil
}

func (s *tcState) apply(c tcChoice) (err error) {
	defer func() {
		if p := recover(); p != nil {
			err = fmt.Errorf("panic: %v", p)
		}
	}()
	s.choices = append(s.choices, c)
	armed := s.rig.FaultArmed()
	defer func() {
		if armed && !s.rig.FaultArmed() {
			s.faultFired = true
			if c.Kind == "retry" {
				s.resyncFailed = true
			}
		}
	}()
	if c.Kind == "delete" && c.Path == tcPrefix && s.rig.FailureMode() {
		s.rootGoneInFailure = true
	}
	switch c.Kind {
	case "create":
		if !s.rig.Create(c.Path, c.Data) {
			return fmt.Errorf("INTERNAL: create %s refused", c.Path)
		}
		s.writes++
	case "set":
		if !s.rig.Set(c.Path, c.Data) {
			return fmt.Errorf("INTERNAL: set %s refused", c.Path)
		}
		s.writes++
	case "delete":
		if !s.rig.Delete(c.Path) {
			return fmt.Errorf("INTERNAL: delete %s refused", c.Path)
		}
		s.writes++
	case "lost":
		s.rig.SessionLost()
		s.writes++
	case "fault":
		s.rig.FailIn(c.N)
		s.faults++
	case "deliver":
		s.rig.Deliver(s.rig.Pending()[c.N].ID)
	case "drop":
		s.rig.Drop(s.rig.Pending()[c.N].ID)
	case "retry":
		s.rig.Retry()
	}
	return s.settle()
}

// enabled lists the choices of the environment in the current state.
func (s *tcState) enabled(maxWrites, maxFaults int, deep bool) []tcChoice {
	var out []tcChoice
	if ps := s.rig.Pending(); len(ps) > 0 {
		for i, p := range ps {
			out = append(out, tcChoice{Kind: "deliver", N: i})
			if s.rig.Fate(p) == "either" {
				out = append(out, tcChoice{Kind: "drop", N: i})
			}
		}
		return out
	}
	if s.rig.RetriesPending() > 0 && (len(s.choices) == 0 || s.choices[len(s.choices)-1].Kind != "retry") {
		// (a second firing of the timer with nothing in between sees the same ZooKeeper content)
		out = append(out, tcChoice{Kind: "retry"})
	}
	if s.writes < maxWrites {
		tree := s.rig.Tree()
		for _, w := range tcWrites(deep) {
			_, exists := tree[w.Path]
			switch w.Kind {
			case "create":
				_, parent := tree[w.Path[:strings.LastIndex(w.Path, "/")]]
				if exists || (w.Path != tcPrefix && !parent) {
					continue
				}
			case "set":
				if !exists || tree[w.Path] == w.Data {
					continue
				}
			case "delete":
				if !exists {
					continue
				}
				kids := false
				for p := range tree {
					if strings.HasPrefix(p, w.Path+"/") {
						kids = true
					}
				}
				if kids {
					continue
				}
			}
			out = append(out, w)
		}
		if s.faults < maxFaults && !s.rig.FaultArmed() {
			for n := 1; n <= 4; n++ {
				out = append(out, tcChoice{Kind: "fault", N: n})
			}
		}
	}
	return out
}

// finish: the environment goes quiet; the retry timer fires until the cache is out of failure mode or
// ZooKeeper has no root for it to read.
func (s *tcState) finish() error {
	s.rig.FailIn(0)
	for i := 0; s.rig.RetriesPending() > 0 && i < 3; i++ {
		if err := s.apply(tcChoice{Kind: "retry"}); err != nil {
			return err
		}
	}
	if f, t := s.rig.Fold(), s.rig.Tree(); !sameMap(f, t) {
		return fmt.Errorf("after the last write, all deliveries and the retry timer: the fold of the cache's events is %s while ZooKeeper holds %s (failure mode %v)", renderMap(f), renderMap(t), s.rig.FailureMode())
	}
	s.rig.Stop()
	return nil
}

func tcReplayRun(initial string, choices []tcChoice) (*tcState, error) {
	s := &tcState{rig: d2.VerifNewTCRig(tcPrefix, tcInitials[initial])}
	if err := s.settle(); err != nil {
		return s, fmt.Errorf("after the initial read: %v", err)
	}
	for _, c := range choices {
		if err := s.apply(c); err != nil {
			return s, err
		}
	}
	return s, nil
}

func choicesString(cs []tcChoice) string {
	var p []string
	for _, c := range cs {
		p = append(p, c.String())
	}
	return strings.Join(p, " ")
}

func partTreeCache(a *hcli.Args, rep *report.Report) {
	s := rep.S("treecache")
	maxWrites, maxFaults := 3, 1
	if a.Thorough() {
		maxWrites = 4
	}
	deep := a.Thorough()
	s.Bounds = fmt.Sprintf("4 initial ZooKeeper contents x every sequence of <=%d writes over a root and 2 children%s (create / set / delete, session lost) x every delivery order of the watch events each write triggers x both fates of events of stopped nodes x <=%d connection error at any of the next 4 connection calls x the retry timer before or after later writes; the three blocks of TreeCache.loop and everything below run on the real code, without goroutines", maxWrites, map[bool]string{true: " and a grandchild", false: ""}[deep], maxFaults)
	var inits []string
	for k := range tcInitials {
		inits = append(inits, k)
	}
	sort.Strings(inits)
	item := 0
	var dfs func(initial string, prefix []tcChoice)
	fails := map[string]bool{}
	dfs = func(initial string, prefix []tcChoice) {
		if a.Expired() {
			s.Exhaustive = false
			return
		}
		st, err := tcReplayRun(initial, prefix)
		s.Transitions += int64(len(prefix)) + 1
		report1 := func(err error, cs []tcChoice) {
			cause := st.cause()
			kind := "fold-differs"
			if strings.HasPrefix(err.Error(), "panic") {
				kind = "panic"
			}
			if strings.HasPrefix(err.Error(), "INTERNAL") {
				report.Internal("%v in %s", err, choicesString(cs))
			}
			last := "initial"
			for _, c := range cs {
				if c.Kind != "deliver" && c.Kind != "drop" {
					last = c.Kind
				}
			}
			sig := fmt.Sprintf("%s treecache %s cause=%s initial=%s after=%s", a.Gen, kind, cause, initial, last)
			if !fails[sig] {
				fails[sig] = true
				rep.Fail(sig, fmt.Sprintf("initial ZooKeeper content %s, environment: %s\n%v", initial, choicesString(cs), err),
					replayPayload{Gen: a.Gen, Part: "T", TC: &tcReplay{initial, cs}})
			}
			s.Class("fail:" + kind)
		}
		if err != nil {
			report1(err, prefix)
			return
		}
		en := st.enabled(maxWrites, maxFaults, deep)
		if len(en) == 0 {
			s.Traces++
			s.Evaluations++
			if err := st.finish(); err != nil {
				report1(err, st.choices)
				return
			}
			s.Class(fmt.Sprintf("ok:writes=%d:faults=%d:failure-mode-at-end=%v", st.writes, st.faults, st.rig.FailureMode()))
			return
		}
		st.rig.Stop()
		s.States++
		for _, c := range en {
			if len(prefix) == 0 {
				item++
				if !a.Mine(item) {
					continue
				}
			}
			dfs(initial, append(append([]tcChoice{}, prefix...), c))
		}
	}
	for _, in := range inits {
		dfs(in, nil)
	}
	if !s.Exhaustive {
		rep.Cap("treecache: internal deadline")
	}
	rep.Sample(map[string]interface{}{"family": "treecache", "initial": "one-child", "environment": "delete(/c1) deliver#2 deliver#0 create(/c1,A) deliver#0", "oracle": "fold of TreeCacheEvents == ZooKeeper content at every quiescent point"})
}

func replayTreeCache(rp *tcReplay) error {
	st, err := tcReplayRun(rp.Initial, rp.Choices)
	fmt.Println("initial:", rp.Initial, "environment:", choicesString(rp.Choices))
	if err != nil {
		return err
	}
	if len(st.enabled(0, 0, false)) == 0 {
		return st.finish()
	}
	return nil
}
