//go:build !tcrig

package main

import (
	"errors"

	"verif/mc/hcli"
	"verif/mc/report"
)

type tcReplay struct{}

// Without the rig (the current treecache.go no longer has the shape the textual derivation of the rig relies
// on) the part is reported as not explored.
func partTreeCache(a *hcli.Args, rep *report.Report) {
	s := rep.S("treecache")
	s.Bounds = "not explored: treecache.go could not be bound to the explorer (loop / forwarder shape changed)"
	s.Exhaustive = false
	rep.Cap("treecache: the rig could not be derived from the current treecache.go")
}

func replayTreeCache(rp *tcReplay) error {
	return errors.New("the treecache rig is not available for this tree")
}
