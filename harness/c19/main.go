// C19: D2 announcement tracking (every event history through the real handlers) and host
// selection (every announcement set x priority list x scripted RNG answer).
package main

import (
	"fmt"
	"math"
	"net/url"
	"os"
	"sort"
	"strings"

	"github.com/PapaCharlie/go-restli/v2/d2"

	"verif/mc/hcli"
	"verif/mc/report"
)

const cluster = "C"
const service = "svc"

var zkPath = d2.UrisPath(cluster)

// ---------- events ----------

type Event struct {
	Kind string `json:"kind"` // addA addB addZ del malformed weightless emptyweights badurl badurlmixed jsonnull emptydata root svc1 svc2 svcbad svcnil svcwrongpath
	Node int    `json:"node"` // 1..3 for node events
}

func (e Event) String() string {
	if e.Node > 0 {
		return fmt.Sprintf("%s(n%d)", e.Kind, e.Node)
	}
	return e.Kind
}

func payloadA(n int) map[string]float64 {
	return map[string]float64{fmt.Sprintf("http://h%da:80", n): 1}
}
func payloadB(n int) map[string]float64 {
	return map[string]float64{fmt.Sprintf("https://h%db:443", n): 3, fmt.Sprintf("http://h%db:80", n): 1}
}

func weightsJSON(w map[string]float64) string {
	ks := make([]string, 0, len(w))
	for k := range w {
		ks = append(ks, k)
	}
	sort.Strings(ks)
	parts := make([]string, len(ks))
	for i, k := range ks {
		parts[i] = fmt.Sprintf("%q:%v", k, w[k])
	}
	return `{"weights":{` + strings.Join(parts, ",") + `},"clusterName":"C","uriSpecificProperties":{},"partitionDesc":{}}`
}

// payloadZ: a host that announces itself with weight 0 on every URL (drained), a well-formed announcement
func payloadZ(n int) map[string]float64 {
	return map[string]float64{fmt.Sprintf("https://h%dz:443", n): 0, fmt.Sprintf("http://h%dz:80", n): 0}
}

func (e Event) tree() d2.TreeCacheEvent {
	p := fmt.Sprintf("%s/n%d", zkPath, e.Node)
	data := func(s string) *[]byte { b := []byte(s); return &b }
	switch e.Kind {
	case "addA":
		return d2.TreeCacheEvent{Path: p, Data: data(weightsJSON(payloadA(e.Node)))}
	case "addB":
		return d2.TreeCacheEvent{Path: p, Data: data(weightsJSON(payloadB(e.Node)))}
	case "addZ":
		return d2.TreeCacheEvent{Path: p, Data: data(weightsJSON(payloadZ(e.Node)))}
	case "del":
		return d2.TreeCacheEvent{Path: p, Data: nil}
	case "malformed":
		return d2.TreeCacheEvent{Path: p, Data: data(`{"weights":{"http://x:80":`)}
	case "weightless":
		return d2.TreeCacheEvent{Path: p, Data: data(fmt.Sprintf(`{"clusterName":"C","partitionDesc":{"http://h%dp:80":{"0":{"weight":1}}}}`, e.Node))}
	case "emptyweights":
		return d2.TreeCacheEvent{Path: p, Data: data(`{"weights":{}}`)}
	case "badurl":
		return d2.TreeCacheEvent{Path: p, Data: data(`{"weights":{"http://[::1":1}}`)}
	case "badurlmixed":
		// one host that parses next to one that does not: the announcement is malformed as a whole
		return d2.TreeCacheEvent{Path: p, Data: data(fmt.Sprintf(`{"weights":{"http://h%dm:80":1,"http://bad:80abc":1,"https://h%dm:443":2}}`, e.Node, e.Node))}
	case "jsonnull":
		return d2.TreeCacheEvent{Path: p, Data: data(`null`)}
	case "emptydata":
		return d2.TreeCacheEvent{Path: p, Data: data(``)}
	case "wrongtype":
		return d2.TreeCacheEvent{Path: p, Data: data(`{"weights":[1,2]}`)}
	case "root":
		return d2.TreeCacheEvent{Path: zkPath, Data: data(``)}
	case "svc1":
		return d2.TreeCacheEvent{Path: d2.ServicesPath(service), Data: data(`{"serviceName":"svc","clusterName":"C","prioritizedSchemes":["https","http"]}`)}
	case "svc2":
		return d2.TreeCacheEvent{Path: d2.ServicesPath(service), Data: data(`{"serviceName":"svc","clusterName":"C","prioritizedSchemes":["http"]}`)}
	case "svcbad":
		return d2.TreeCacheEvent{Path: d2.ServicesPath(service), Data: data(`{"serviceName":"svc","clusterName":`)}
	case "svcnil":
		return d2.TreeCacheEvent{Path: d2.ServicesPath(service), Data: nil}
	case "svcwrongpath":
		return d2.TreeCacheEvent{Path: d2.ServicesPath(service) + "/child", Data: data(`{"serviceName":"other","clusterName":"X","prioritizedSchemes":["ftp"]}`)}
	}
	panic("unknown event " + e.Kind)
}

// ---------- reference fold ----------

type model struct {
	nodes map[string]map[string]float64 // "/n1" -> host -> weight
	prio  []string
}

func newModel() *model {
	return &model{nodes: map[string]map[string]float64{}, prio: []string{"https", "http"}}
}

func (m *model) apply(e Event) {
	k := fmt.Sprintf("/n%d", e.Node)
	switch e.Kind {
	case "addA":
		m.nodes[k] = payloadA(e.Node)
	case "addB":
		m.nodes[k] = payloadB(e.Node)
	case "addZ":
		m.nodes[k] = payloadZ(e.Node)
	case "del":
		delete(m.nodes, k)
	case "svc1":
		m.prio = []string{"https", "http"}
	case "svc2":
		m.prio = []string{"http"}
	}
	// everything else is ignored
}

func (m *model) canon() string {
	ks := make([]string, 0, len(m.nodes))
	for k := range m.nodes {
		ks = append(ks, k)
	}
	sort.Strings(ks)
	var sb strings.Builder
	for _, k := range ks {
		sb.WriteString(k + "{")
		hs := make([]string, 0)
		for h, w := range m.nodes[k] {
			hs = append(hs, fmt.Sprintf("%s=%v", h, w))
		}
		sort.Strings(hs)
		sb.WriteString(strings.Join(hs, ",") + "}")
	}
	return sb.String()
}

// canonical rendering of a real snapshot: weights only for the fold comparison, everything
// for the immutability comparison.
func canonReal(s *d2.VerifServiceUris, full bool) string {
	if s == nil {
		return "<nil>"
	}
	u := s.VerifUris()
	ks := make([]string, 0, len(u))
	for k := range u {
		ks = append(ks, k)
	}
	sort.Strings(ks)
	var sb strings.Builder
	if full {
		sb.WriteString(s.VerifZkPath() + "::")
	}
	for _, k := range ks {
		sb.WriteString(k + "{")
		if u[k] == nil {
			sb.WriteString("<nil>}")
			continue
		}
		hs := make([]string, 0)
		for h, w := range u[k].Weights {
			hs = append(hs, fmt.Sprintf("%s=%v", h.String(), w))
		}
		sort.Strings(hs)
		sb.WriteString(strings.Join(hs, ",") + "}")
		if full {
			ps := make([]string, 0)
			for h, p := range u[k].Properties {
				ps = append(ps, fmt.Sprintf("%s=%+v", h.String(), p))
			}
			sort.Strings(ps)
			ds := make([]string, 0)
			for h, p := range u[k].PartitionDesc {
				ds = append(ds, fmt.Sprintf("%s=%v", h.String(), p))
			}
			sort.Strings(ds)
			sb.WriteString("P[" + strings.Join(ps, ",") + "]D[" + strings.Join(ds, ",") + "]")
		}
	}
	return sb.String()
}

// ---------- part A: function-level histories ----------

type replayPayload struct {
	Gen     string    `json:"gen"`
	Part    string    `json:"part"`
	History []Event   `json:"history,omitempty"`
	Sel     *selCase  `json:"sel,omitempty"`
	TC      *tcReplay `json:"treecache,omitempty"`
}

func histString(h []Event) string {
	s := make([]string, len(h))
	for i, e := range h {
		s[i] = e.String()
	}
	return strings.Join(s, " ")
}

// runHistoryA replays a history on a fresh snapshot chain through the real handleUriUpdate.
func runHistoryA(h []Event) (canonFinal string, err error) {
	defer func() {
		if r := recover(); r != nil {
			err = fmt.Errorf("panic: %v", r)
		}
	}()
	c := new(d2.Client)
	m := newModel()
	cur := d2.VerifNewServiceUris(zkPath)
	snaps := []*d2.VerifServiceUris{cur}
	copies := []string{canonReal(cur, true)}
	for i, e := range h {
		next := c.VerifHandleUriUpdate(cur, e.tree())
		m.apply(e)
		if next == nil {
			return "", fmt.Errorf("step %d %s: handler returned nil snapshot", i, e)
		}
		if got, want := canonReal(next, false), m.canon(); got != want {
			return "", fmt.Errorf("step %d %s: snapshot %q != fold %q", i, e, got, want)
		}
		for j, s := range snaps {
			if got := canonReal(s, true); got != copies[j] {
				return "", fmt.Errorf("step %d %s: snapshot handed out after step %d was modified: %q -> %q", i, e, j-1+1, copies[j], got)
			}
		}
		snaps = append(snaps, next)
		copies = append(copies, canonReal(next, true))
		cur = next
	}
	return m.canon(), nil
}

func enumerate(events []Event, maxLen int, a *hcli.Args, visit func(h []Event) bool) (capped bool) {
	h := make([]Event, 0, maxLen)
	idx := 0
	var rec func() bool
	rec = func() bool {
		if len(h) > 0 {
			if !visit(h) {
				return false
			}
		}
		if len(h) == maxLen {
			return true
		}
		for _, e := range events {
			h = append(h, e)
			ok := true
			// shard on the first two events
			if len(h) == 2 || (maxLen == 1 && len(h) == 1) {
				idx++
				if !a.Mine(idx) {
					ok = false
				}
			}
			if ok {
				if !rec() {
					return false
				}
			}
			h = h[:len(h)-1]
		}
		return true
	}
	return !rec()
}

func nodeEvents(kinds []string) []Event {
	var ev []Event
	for _, k := range kinds {
		for n := 1; n <= 3; n++ {
			ev = append(ev, Event{k, n})
		}
	}
	return ev
}

func partA(a *hcli.Args, rep *report.Report) {
	type fam struct {
		name   string
		events []Event
		maxLen int
	}
	core := append(nodeEvents([]string{"addA", "addB", "del", "malformed", "weightless"}), Event{"root", 0})
	wide := append(nodeEvents([]string{"addA", "addB", "addZ", "del", "malformed", "weightless", "emptyweights", "badurl", "badurlmixed", "jsonnull", "emptydata", "wrongtype"}), Event{"root", 0})
	fams := []fam{{"uri-histories-core16", core, 4}, {"uri-histories-wide31", wide, 3}}
	if a.Thorough() {
		fams = []fam{{"uri-histories-core16", core, 6}, {"uri-histories-wide31", wide, 4}}
	}
	for _, f := range fams {
		s := rep.S(f.name)
		s.Bounds = fmt.Sprintf("events=%d max_length=%d", len(f.events), f.maxLen)
		distinct := map[string]bool{}
		count := 0
		capped := enumerate(f.events, f.maxLen, a, func(h []Event) bool {
			// length-1 histories are visited by every shard; count them once
			if len(h) == 1 && a.Shard != 0 {
				return true
			}
			count++
			if count%4096 == 0 && a.Expired() {
				return false
			}
			fin, err := runHistoryA(h)
			s.Evaluations++
			s.Traces++
			s.Transitions += int64(len(h))
			if err != nil {
				rep.Fail(fmt.Sprintf("%s uri-history event=%s :: %s", a.Gen, failingEvent(err), classify(err)),
					fmt.Sprintf("history: %s\n%v", histString(h), err), replayPayload{Gen: a.Gen, Part: "A", History: append([]Event(nil), h...)})
				s.Class("fail")
				return true
			}
			distinct[fin] = true
			s.Class("len=" + fmt.Sprint(len(h)))
			if len(h) == f.maxLen && len(rep.Samples) < 3 {
				rep.Sample(map[string]interface{}{"family": f.name, "history": histString(h), "fold": fin})
			}
			return true
		})
		s.States = int64(len(distinct))
		if capped {
			s.Exhaustive = false
			rep.Cap(f.name + ": internal deadline")
		}
	}
}

// failingEvent extracts the kind of the event at which the oracle failed ("step 3 addA(n1): ...").
func failingEvent(err error) string {
	var i int
	var ev string
	if _, e := fmt.Sscanf(err.Error(), "step %d %s", &i, &ev); e == nil {
		if j := strings.IndexAny(ev, "(:"); j > 0 {
			ev = ev[:j]
		}
		return ev
	}
	return "?"
}

func classify(err error) string {
	m := err.Error()
	switch {
	case strings.Contains(m, "was modified"):
		return "earlier snapshot modified"
	case strings.Contains(m, "!= fold"):
		return "snapshot differs from fold"
	case strings.Contains(m, "panic"):
		return "panic"
	case strings.Contains(m, "service definition"):
		return "service definition differs from fold"
	case strings.Contains(m, "resolution"):
		return "resolution differs from fold"
	}
	return "other"
}

// ---------- part B: client-level histories (wait loops + resolution) ----------

type constSrc struct{ v int64 }

func (c *constSrc) Int63() int64 { return c.v }
func (c *constSrc) Seed(int64)   {}

func setR(r float64) {
	v := int64(r * (1 << 63))
	if r >= 1 {
		v = math.MaxInt64
	}
	src.v = v
}

var src = &constSrc{}

// runHistoryBStreams delivers the same history as streams: consecutive uri events travel on one channel through
// one run of waitForUriUpdates (cut additionally before position split); the snapshot is compared with the fold
// after every stream.
func runHistoryBStreams(h []Event, split int) (err error) {
	defer func() {
		if r := recover(); r != nil {
			err = fmt.Errorf("panic: %v", r)
		}
	}()
	c := new(d2.Client)
	m := newModel()
	c.VerifSeedService(service, &d2.Service{ServiceName: service, ClusterName: cluster, PrioritizedSchemes: []string{"https", "http"}})
	c.VerifSeedUris(cluster, d2.VerifNewServiceUris(zkPath))
	var pending []Event
	flush := func(at int) error {
		if len(pending) == 0 {
			return nil
		}
		var es []d2.TreeCacheEvent
		for _, e := range pending {
			es = append(es, e.tree())
			m.apply(e)
		}
		c.VerifDeliverUriEvents(cluster, es)
		last := pending[len(pending)-1]
		n := len(pending)
		pending = nil
		if got, want := canonReal(c.VerifCurrentUris(cluster), false), m.canon(); got != want {
			return fmt.Errorf("step %d %s: after a stream of %d events on one channel: snapshot %q != fold %q", at, last, n, got, want)
		}
		return nil
	}
	for i, e := range h {
		if i == split {
			if err := flush(i - 1); err != nil {
				return err
			}
		}
		if strings.HasPrefix(e.Kind, "svc") {
			if err := flush(i - 1); err != nil {
				return err
			}
			c.VerifDeliverServiceEvent(service, e.tree())
			m.apply(e)
			continue
		}
		pending = append(pending, e)
	}
	return flush(len(h) - 1)
}

func runHistoryB(h []Event) (err error) {
	defer func() {
		if r := recover(); r != nil {
			err = fmt.Errorf("panic: %v", r)
		}
	}()
	c := new(d2.Client)
	m := newModel()
	c.VerifSeedService(service, &d2.Service{ServiceName: service, ClusterName: cluster, PrioritizedSchemes: []string{"https", "http"}})
	c.VerifSeedUris(cluster, d2.VerifNewServiceUris(zkPath))
	for i, e := range h {
		if strings.HasPrefix(e.Kind, "svc") {
			c.VerifDeliverServiceEvent(service, e.tree())
		} else {
			c.VerifDeliverUriEvent(cluster, e.tree())
		}
		m.apply(e)
		if got, want := canonReal(c.VerifCurrentUris(cluster), false), m.canon(); got != want {
			return fmt.Errorf("step %d %s: snapshot %q != fold %q", i, e, got, want)
		}
		sv := c.VerifCurrentService(service)
		if sv == nil || sv.ClusterName != cluster || strings.Join(sv.PrioritizedSchemes, ",") != strings.Join(m.prio, ",") {
			return fmt.Errorf("step %d %s: service definition %+v differs from fold (cluster %s, schemes %v)", i, e, sv, cluster, m.prio)
		}
		// resolution: the set of hosts returned over an RNG grid equals the eligible set of the fold
		elig := map[string]float64{}
		for _, sch := range m.prio {
			for _, hw := range m.nodes {
				for hst, w := range hw {
					if strings.HasPrefix(hst, sch+"://") {
						elig[hst] = w
					}
				}
			}
			if len(elig) > 0 {
				break
			}
		}
		got := map[string]bool{}
		var rerr error
		for g := 0; g < 16; g++ {
			setR((float64(g) + 0.5) / 16)
			u, err := c.ResolveHostnameAndContextForQuery(service, nil)
			if err != nil {
				rerr = err
			} else {
				got[u.String()] = true
			}
		}
		if len(elig) == 0 {
			if rerr == nil || len(got) != 0 {
				return fmt.Errorf("step %d %s: resolution returned %v although the fold has no eligible host", i, e, keys(got))
			}
		} else {
			if rerr != nil {
				return fmt.Errorf("step %d %s: resolution error %v although the fold has eligible hosts %v", i, e, rerr, elig)
			}
			for hst := range got {
				if _, ok := elig[hst]; !ok {
					return fmt.Errorf("step %d %s: resolution returned %s, not an eligible host of the fold %v", i, e, hst, elig)
				}
			}
			for hst, w := range elig {
				if w > 0 && !got[hst] {
					return fmt.Errorf("step %d %s: resolution never returned eligible host %s of the fold over the grid (got %v)", i, e, hst, keys(got))
				}
			}
		}
	}
	return nil
}

func keys(m map[string]bool) []string {
	var ks []string
	for k := range m {
		ks = append(ks, k)
	}
	sort.Strings(ks)
	return ks
}

func partB(a *hcli.Args, rep *report.Report) {
	events := append(nodeEvents([]string{"addA", "addB", "addZ", "del", "malformed", "weightless"}),
		Event{"root", 0}, Event{"svc1", 0}, Event{"svc2", 0}, Event{"svcbad", 0}, Event{"svcnil", 0}, Event{"svcwrongpath", 0})
	maxLen := 3
	if a.Thorough() {
		maxLen = 4
	}
	s := rep.S("client-histories")
	s.Bounds = fmt.Sprintf("events=%d max_length=%d (delivered through waitForUriUpdates / waitForServiceUpdates one event per channel and as streams of consecutive events on one channel with every cut point, observed through ResolveHostnameAndContextForQuery)", len(events), maxLen)
	count := 0
	capped := enumerate(events, maxLen, a, func(h []Event) bool {
		if len(h) == 1 && a.Shard != 0 {
			return true
		}
		count++
		if count%1024 == 0 && a.Expired() {
			return false
		}
		err := runHistoryB(h)
		s.Evaluations++
		s.Traces++
		s.Transitions += int64(len(h))
		s.States++
		// the same history as streams of several events per channel (every cut point)
		for split := 0; err == nil && split < len(h); split++ {
			err = runHistoryBStreams(h, split)
			s.Evaluations++
			s.Traces++
			s.Transitions += int64(len(h))
		}
		if err != nil {
			rep.Fail(fmt.Sprintf("%s client-history event=%s :: %s", a.Gen, failingEvent(err), classify(err)),
				fmt.Sprintf("history: %s\n%v", histString(h), err), replayPayload{Gen: a.Gen, Part: "B", History: append([]Event(nil), h...)})
			s.Class("fail")
			return true
		}
		s.Class("len=" + fmt.Sprint(len(h)))
		return true
	})
	if capped {
		s.Exhaustive = false
		rep.Cap("client-histories: internal deadline")
	}
}

// ---------- part C: host selection ----------

type hostSpec struct {
	Scheme string  `json:"scheme"`
	Weight float64 `json:"weight"`
	Znode  int     `json:"znode"`
}

type selCase struct {
	Hosts []hostSpec `json:"hosts"`
	Prio  []string   `json:"prio"`
	R     float64    `json:"r"`
}

func (h hostSpec) url(i int) url.URL {
	port := "80"
	if h.Scheme == "https" {
		port = "443"
	}
	u, _ := url.Parse(fmt.Sprintf("%s://host%d:%s", h.Scheme, i, port))
	return *u
}

func buildUris(hosts []hostSpec) *d2.VerifServiceUris {
	s := d2.VerifNewServiceUris(zkPath)
	for i, h := range hosts {
		k := fmt.Sprintf("/z%d", h.Znode)
		if s.VerifUris()[k] == nil {
			s.VerifUris()[k] = &d2.Uri{Weights: map[url.URL]float64{}}
		}
		s.VerifUris()[k].Weights[h.url(i)] = h.Weight
	}
	return s
}

// permutations of ints
func perms(n int) [][]int {
	if n == 0 {
		return [][]int{{}}
	}
	var out [][]int
	p := make([]int, n)
	for i := range p {
		p[i] = i
	}
	var rec func(k int)
	rec = func(k int) {
		if k == n {
			out = append(out, append([]int(nil), p...))
			return
		}
		for i := k; i < n; i++ {
			p[k], p[i] = p[i], p[k]
			rec(k + 1)
			p[k], p[i] = p[i], p[k]
		}
	}
	rec(0)
	return out
}

// allOrders: every flattened iteration order of the eligible hosts consistent with the
// two-level map walk (znodes in any order, hosts inside a znode in any order).
func allOrders(hosts []hostSpec, elig []int) [][]int {
	groups := map[int][]int{}
	var zs []int
	for _, i := range elig {
		z := hosts[i].Znode
		if _, ok := groups[z]; !ok {
			zs = append(zs, z)
		}
		groups[z] = append(groups[z], i)
	}
	var out [][]int
	for _, zp := range perms(len(zs)) {
		partial := [][]int{{}}
		for _, zi := range zp {
			g := groups[zs[zi]]
			var next [][]int
			for _, pre := range partial {
				for _, gp := range perms(len(g)) {
					o := append([]int(nil), pre...)
					for _, j := range gp {
						o = append(o, g[j])
					}
					next = append(next, o)
				}
			}
			partial = next
		}
		out = append(out, partial...)
	}
	return out
}

// refChoices: the hosts a weight-proportional walk may return for draw r under some order.
func refChoices(hosts []hostSpec, orders [][]int, W, r float64) map[int]bool {
	res := map[int]bool{}
	x := r * W
	for _, o := range orders {
		acc := 0.0
		for _, i := range o {
			w := hosts[i].Weight
			if w <= 0 {
				continue // a zero-weight host owns an empty interval
			}
			acc += w
			if x < acc || (x == acc) {
				res[i] = true
				break
			}
		}
	}
	return res
}

func checkSelection(hosts []hostSpec, prio []string, r float64, uris *d2.VerifServiceUris) (class string, err error) {
	defer func() {
		if rc := recover(); rc != nil {
			err = fmt.Errorf("panic: %v", rc)
		}
	}()
	// eligible set per the statement
	var elig []int
	if len(prio) == 0 {
		for i := range hosts {
			elig = append(elig, i)
		}
	} else {
		for _, sch := range prio {
			for i, h := range hosts {
				if h.Scheme == sch {
					elig = append(elig, i)
				}
			}
			if len(elig) > 0 {
				break
			}
		}
	}
	W := 0.0
	for _, i := range elig {
		W += hosts[i].Weight
	}
	setR(r)
	got := uris.VerifChooseHost(prio)
	if len(elig) == 0 {
		if got != nil {
			return "", fmt.Errorf("returned %s although no host is eligible", got)
		}
		return "none-eligible", nil
	}
	gi := -1
	if got != nil {
		for i, h := range hosts {
			u := h.url(i)
			if u == *got {
				gi = i
			}
		}
		if gi < 0 {
			return "", fmt.Errorf("returned %s which was never announced", got)
		}
		in := false
		for _, i := range elig {
			if i == gi {
				in = true
			}
		}
		if !in {
			return "", fmt.Errorf("returned %s whose scheme is not the highest-priority scheme present", got)
		}
	}
	if W == 0 {
		// all eligible hosts have zero weight: host or error, both accepted
		return "all-zero", nil
	}
	if got == nil {
		return "", fmt.Errorf("returned no host although eligible hosts with positive weight exist")
	}
	if hosts[gi].Weight <= 0 {
		return "", fmt.Errorf("returned zero-weight host %s while an eligible host with positive weight exists", got)
	}
	ref := refChoices(hosts, allOrders(hosts, elig), W, r)
	if !ref[gi] {
		return "", fmt.Errorf("returned %s for draw r=%v, which no weight-proportional walk selects (allowed: %v)", got, r, ref)
	}
	if len(ref) == 1 {
		return "forced", nil
	}
	return "order-dependent", nil
}

func enumHosts(n int, visit func([]hostSpec)) {
	schemes := []string{"http", "https"}
	weights := []float64{1, 0, 3, 0.5}
	hs := make([]hostSpec, n)
	var rec func(i, maxZ int)
	rec = func(i, maxZ int) {
		if i == n {
			visit(append([]hostSpec(nil), hs...))
			return
		}
		for _, s := range schemes {
			for _, w := range weights {
				for z := 0; z <= maxZ+1 && z < 3; z++ { // restricted growth: znode labels are symmetric
					hs[i] = hostSpec{s, w, z}
					nm := maxZ
					if z > maxZ {
						nm = z
					}
					rec(i+1, nm)
				}
			}
		}
	}
	rec(0, -1)
}

func selSig(gen string, err error) string {
	m := err.Error()
	switch {
	case strings.Contains(m, "zero-weight host"):
		return gen + " selection zero-weight host returned"
	case strings.Contains(m, "no weight-proportional"):
		return gen + " selection not proportional"
	case strings.Contains(m, "highest-priority"):
		return gen + " selection wrong scheme"
	case strings.Contains(m, "no host is eligible"):
		return gen + " selection host without eligibility"
	case strings.Contains(m, "returned no host"):
		return gen + " selection nil despite eligible"
	}
	return gen + " selection other"
}

func partC(a *hcli.Args, rep *report.Report) {
	maxHosts := 3
	if a.Thorough() {
		maxHosts = 4
	}
	prios := [][]string{{}, {"https"}, {"http"}, {"https", "http"}, {"http", "https"}, {"ftp"}}
	s := rep.S("selection")
	s.Bounds = fmt.Sprintf("hosts<=%d x scheme{http,https} x weight{0,0.5,1,3} x znode grouping<=3 x %d priority lists x RNG grid K=64*W plus r=0 and r=1-2^-53", maxHosts, len(prios))
	// self-check of the RNG seam
	d2.VerifSetRngSource(src)
	setR(0.3)
	if math.Abs(d2.VerifRngFloat64()-0.3) > 1e-12 {
		report.Internal("scripted RNG source does not control rng.Float64")
	}
	item := 0
	counts := map[string]int64{}
	for n := 0; n <= maxHosts; n++ {
		enumHosts(n, func(hosts []hostSpec) {
			item++
			if !a.Mine(item) || a.Expired() {
				return
			}
			s.States++
			for _, prio := range prios {
				W := 0.0
				for _, h := range hosts {
					W += h.Weight
				}
				K := int(64 * W)
				if K == 0 {
					K = 8
				}
				draws := make([]float64, 0, K+2)
				draws = append(draws, 1-math.Pow(2, -53))
				for i := 0; i < K; i++ {
					draws = append(draws, (float64(i)+0.5)/float64(K))
				}
				// r = 0: the outcome depends on Go's map iteration order (the first host iterated
				// wins whatever its weight), so that draw is repeated on freshly built maps.
				for rep0 := 0; rep0 < 24; rep0++ {
					draws = append(draws, 0)
				}
				for _, r := range draws {
					uris := buildUris(hosts)
					class, err := checkSelection(hosts, prio, r, uris)
					s.Evaluations++
					s.Transitions++
					s.Traces++
					if err != nil {
						sig := selSig(a.Gen, err)
						if r == 0 {
							sig += " r=0"
						}
						rep.Fail(sig, fmt.Sprintf("hosts=%+v prio=%v r=%v: %v", hosts, prio, r, err),
							replayPayload{Gen: a.Gen, Part: "C", Sel: &selCase{hosts, prio, r}})
						counts["fail"]++
						continue
					}
					counts[class]++
				}
			}
		})
	}
	for k, v := range counts {
		s.Classes[k] += v
	}
	if a.Expired() {
		s.Exhaustive = false
		rep.Cap("selection: internal deadline")
	}
	rep.Sample(map[string]interface{}{"family": "selection", "hosts": []hostSpec{{"https", 3, 0}, {"http", 1, 0}, {"https", 0, 1}}, "prio": []string{"https", "http"}, "draws": "r=(i+0.5)/192, i=0..191; r=0 x24; r=1-2^-53"})
}

func main() {
	a := hcli.Parse()
	rep := report.New(a.Gen)
	d2.VerifSetRngSource(src)
	if a.Replay != "" {
		var rp replayPayload
		a.LoadReplay(&rp)
		var err error
		switch rp.Part {
		case "A":
			_, err = runHistoryA(rp.History)
			fmt.Println("history:", histString(rp.History))
		case "B":
			err = runHistoryB(rp.History)
			for split := 0; err == nil && split < len(rp.History); split++ {
				err = runHistoryBStreams(rp.History, split)
			}
			fmt.Println("history:", histString(rp.History))
		case "C":
			for i := 0; i < 64 && err == nil; i++ {
				_, err = checkSelection(rp.Sel.Hosts, rp.Sel.Prio, rp.Sel.R, buildUris(rp.Sel.Hosts))
			}
			fmt.Printf("selection case: %+v\n", *rp.Sel)
		case "T":
			err = replayTreeCache(rp.TC)
		}
		if err != nil {
			fmt.Println("FAIL:", err)
			os.Exit(1)
		}
		fmt.Println("no violation")
		return
	}
	if a.Part == "" || a.Part == "A" {
		partA(a, rep)
	}
	if a.Part == "" || a.Part == "B" {
		partB(a, rep)
	}
	if a.Part == "" || a.Part == "C" {
		partC(a, rep)
	}
	if a.Part == "" || a.Part == "T" {
		partTreeCache(a, rep)
	}
	rep.Write(a.Out)
}
