package main

import (
	"verif/mc/hcli"
	"verif/mc/report"
	"verif/mc/schema"
)

// C09 is a statement about the v2 module only.
func partC09(a *hcli.Args, rep *report.Report, univName string, u *schema.Universe) {
	rep.Skip("C09 is v2-only", 1)
}
