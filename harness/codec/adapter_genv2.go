package main

import "github.com/PapaCharlie/go-restli/v2/restlicodec"

const hasCustomTyperefs = true

func queryEncode(param string, m restlicodec.Marshaler) (string, error) {
	return restlicodec.BuildQueryParams(func(kw func(string) restlicodec.Writer) error {
		return m.MarshalRestLi(kw(param))
	})
}

func queryReadRecord(q restlicodec.QueryParamsReader, required []string, f restlicodec.MapReader) error {
	return q.ReadRecord(restlicodec.NewRequiredFields().Add(required...), f)
}

func readRec(r restlicodec.Reader, required []string, f restlicodec.MapReader) error {
	return r.ReadRecord(restlicodec.NewRequiredFields().Add(required...), f)
}
