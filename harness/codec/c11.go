package main

import (
	"fmt"
	"reflect"
	"sort"
	"strings"

	"github.com/PapaCharlie/go-restli/v2/restlicodec"

	"verif/mc/bind"
	"verif/mc/hcli"
	"verif/mc/ref/refjson"
	"verif/mc/report"
	"verif/mc/schema"
)

type conReplay struct {
	Gen  string `json:"gen"`
	Part string `json:"part"`
	Univ string `json:"universe"`
	Case string `json:"case"`
}

// decodeDocInto decodes raw text with the library reader of the format into a fresh value of type name.
func decodeDocInto(name, format, doc string) (reflect.Value, error) {
	rt := Reg[name]
	if rt == nil {
		report.Internal("type %s not in registry", name)
	}
	ptr := reflect.New(rt)
	err := safeCall(func() error {
		r, e := newReader(format, doc)
		if e != nil {
			return e
		}
		return ptr.Interface().(restlicodec.Unmarshaler).UnmarshalRestLi(r)
	})
	return ptr, err
}

func encodeGo(ptr reflect.Value, format string) (string, error) {
	var out string
	err := safeCall(func() (e error) { out, e = encode(format, asMarshaler(ptr)); return })
	return out, err
}

// ---------------------------------------------------------------- patches

type cPatch struct {
	T      *schema.Type
	Set    map[string]*schema.V
	Delete []string
	Nested map[string]*cPatch
}

func (p *cPatch) String() string {
	var parts []string
	var ks []string
	for k := range p.Set {
		ks = append(ks, k)
	}
	sort.Strings(ks)
	for _, k := range ks {
		parts = append(parts, "$set "+k)
	}
	d := append([]string{}, p.Delete...)
	sort.Strings(d)
	for _, k := range d {
		parts = append(parts, "$delete "+k)
	}
	ks = nil
	for k := range p.Nested {
		ks = append(ks, k)
	}
	sort.Strings(ks)
	for _, k := range ks {
		parts = append(parts, k+":"+p.Nested[k].String())
	}
	return "{" + strings.Join(parts, "; ") + "}"
}

func cPatchToGo(p *cPatch, rt reflect.Type) (out reflect.Value, representable bool) {
	if rt.Kind() == reflect.Ptr {
		v := reflect.New(rt.Elem())
		inner, ok := cPatchToGo(p, rt.Elem())
		if !ok {
			return v, false
		}
		v.Elem().Set(inner)
		return v, true
	}
	out = reflect.New(rt).Elem()
	for _, d := range p.Delete {
		f := ownerOf(out, "Delete_Fields", d)
		if !f.IsValid() {
			return out, false // the generated struct cannot even express deleting this field
		}
		f.SetBool(true)
	}
	for k, v := range p.Set {
		f := ownerOf(out, "Set_Fields", k)
		if !f.IsValid() {
			return out, false
		}
		f.Set(bind.ToGo(v, f.Type()))
	}
	for k, n := range p.Nested {
		f := ownerOf(out, "", k)
		if !f.IsValid() {
			return out, false
		}
		nv, ok := cPatchToGo(n, f.Type())
		if !ok {
			return out, false
		}
		f.Set(nv)
	}
	return out, true
}

// ownerOf finds the place where the generated partial update struct keeps the delete flag / set
// pointer / nested patch of a field: directly in the struct's own Delete_Fields / Set_Fields (group
// != "") or among its own fields (group == ""), or, for a field of an included record, in the
// embedded <Included>_PartialUpdate struct (the location the generated marshaler, unmarshaler and
// CheckFields use). Promoted fields of other embedded helper structs are not consulted.
func ownerOf(st reflect.Value, group, field string) reflect.Value {
	gn := bind.GoFieldName(field)
	holder := st
	if group != "" {
		holder = directField(st, group)
	}
	if holder.IsValid() {
		if f := directField(holder, gn); f.IsValid() {
			return f
		}
	}
	for i := 0; i < st.NumField(); i++ {
		sf := st.Type().Field(i)
		if sf.Anonymous && strings.HasSuffix(sf.Name, "_PartialUpdate") {
			if f := ownerOf(st.Field(i), group, field); f.IsValid() {
				return f
			}
		}
	}
	return reflect.Value{}
}

func directField(st reflect.Value, name string) reflect.Value {
	for i := 0; i < st.NumField(); i++ {
		sf := st.Type().Field(i)
		if sf.Name == name && !sf.Anonymous {
			return st.Field(i)
		}
	}
	return reflect.Value{}
}

func cPatchFromGo(rv reflect.Value, t *schema.Type) *cPatch {
	if rv.Kind() == reflect.Ptr {
		if rv.IsNil() {
			return nil
		}
		rv = rv.Elem()
	}
	p := &cPatch{T: t, Set: map[string]*schema.V{}, Nested: map[string]*cPatch{}}
	for _, f := range t.AllFields() {
		if df := ownerOf(rv, "Delete_Fields", f.Name); df.IsValid() && df.Bool() {
			p.Delete = append(p.Delete, f.Name)
		}
		if sf := ownerOf(rv, "Set_Fields", f.Name); sf.IsValid() && !sf.IsNil() {
			p.Set[f.Name] = bind.FromGo(sf, f.Type)
		}
		if f.Type.Kind == schema.Record {
			if nf := ownerOf(rv, "", f.Name); nf.IsValid() && nf.Kind() == reflect.Ptr && !nf.IsNil() {
				p.Nested[f.Name] = cPatchFromGo(nf, f.Type)
			}
		}
	}
	return p
}

func cPatchEqual(a, b *cPatch) bool {
	if a == nil || b == nil {
		return a == b
	}
	if len(a.Set) != len(b.Set) || len(a.Delete) != len(b.Delete) || len(a.Nested) != len(b.Nested) {
		return false
	}
	for k, v := range a.Set {
		if !schema.Equal(v, b.Set[k]) {
			return false
		}
	}
	da, db := append([]string{}, a.Delete...), append([]string{}, b.Delete...)
	sort.Strings(da)
	sort.Strings(db)
	if strings.Join(da, ",") != strings.Join(db, ",") {
		return false
	}
	for k, n := range a.Nested {
		if !cPatchEqual(n, b.Nested[k]) {
			return false
		}
	}
	return true
}

// legal: the statement's rules for a partial update.
func (p *cPatch) legal(excluded [][]string, path []string) bool {
	for _, f := range p.T.AllFields() {
		_, isSet := p.Set[f.Name]
		isDel := false
		for _, d := range p.Delete {
			if d == f.Name {
				isDel = true
			}
		}
		n, isPatch := p.Nested[f.Name]
		ops := 0
		for _, b := range []bool{isSet, isDel, isPatch} {
			if b {
				ops++
			}
		}
		if ops == 0 {
			continue
		}
		if ops > 1 {
			return false
		}
		if isDel && !f.Optional && f.Default == nil {
			return false
		}
		fp := append(append([]string{}, path...), f.Name)
		if refMatches(excluded, fp) {
			return false
		}
		if isSet && setCarriesExcluded(p.Set[f.Name], excluded, fp) {
			return false // the value set as a whole carries a value at an excluded path
		}
		if isPatch && !n.legal(excluded, fp) {
			return false
		}
	}
	return true
}

// setCarriesExcluded: the value set at path fp holds a value at an excluded path below it.
func setCarriesExcluded(v *schema.V, excluded [][]string, fp []string) bool {
	for _, vp := range valuePaths(v) {
		if refMatches(excluded, append(append([]string{}, fp...), vp...)) {
			return true
		}
	}
	return false
}

// onlySetsExcludedInside: p's only illegality is a set value carrying excluded values; stripped is p with those
// values pruned from the set values.
func (p *cPatch) stripSets(excluded [][]string, path []string) *cPatch {
	c := &cPatch{T: p.T, Set: map[string]*schema.V{}, Delete: append([]string{}, p.Delete...), Nested: map[string]*cPatch{}}
	for k, v := range p.Set {
		c.Set[k] = prune(v, excluded, append(append([]string{}, path...), k))
	}
	for k, n := range p.Nested {
		c.Nested[k] = n.stripSets(excluded, append(append([]string{}, path...), k))
	}
	return c
}

func (p *cPatch) empty() bool { return len(p.Set)+len(p.Delete)+len(p.Nested) == 0 }

// refPatchJSON renders the protocol's patch document.
func refPatchJSON(p *cPatch, top bool) string {
	var parts []string
	if len(p.Delete) > 0 {
		d := append([]string{}, p.Delete...)
		var q []string
		for _, x := range d {
			q = append(q, fmt.Sprintf("%q", x))
		}
		parts = append(parts, `"$delete":[`+strings.Join(q, ",")+`]`)
	}
	if len(p.Set) > 0 {
		var ks []string
		for k := range p.Set {
			ks = append(ks, k)
		}
		sort.Strings(ks)
		var q []string
		for _, k := range ks {
			q = append(q, fmt.Sprintf("%q:%s", k, refjson.Encode(p.Set[k], nil)))
		}
		parts = append(parts, `"$set":{`+strings.Join(q, ",")+`}`)
	}
	var ns []string
	for k := range p.Nested {
		ns = append(ns, k)
	}
	sort.Strings(ns)
	for _, k := range ns {
		parts = append(parts, fmt.Sprintf("%q:%s", k, refPatchJSON(p.Nested[k], false)))
	}
	body := "{" + strings.Join(parts, ",") + "}"
	if top {
		return `{"patch":` + body + `}`
	}
	return body
}

func sameJSON(a, b string) bool {
	da, ea := refjson.ParseStrict([]byte(a))
	db, eb := refjson.ParseStrict([]byte(b))
	if ea != nil || eb != nil {
		return false
	}
	return jsonEq(da, db)
}

func jsonEq(a, b interface{}) bool {
	switch x := a.(type) {
	case *refjson.Obj:
		y, ok := b.(*refjson.Obj)
		if !ok || len(x.Keys) != len(y.Keys) {
			return false
		}
		for _, k := range x.Keys {
			yv, ok := y.Vals[k]
			if !ok || !jsonEq(x.Vals[k], yv) {
				return false
			}
		}
		return true
	case []interface{}:
		y, ok := b.([]interface{})
		if !ok || len(x) != len(y) {
			return false
		}
		// $delete lists are sets: compare sorted renderings
		xs, ys := make([]string, len(x)), make([]string, len(y))
		for i := range x {
			xs[i], ys[i] = fmt.Sprint(x[i]), fmt.Sprint(y[i])
		}
		sort.Strings(xs)
		sort.Strings(ys)
		return strings.Join(xs, "\x00") == strings.Join(ys, "\x00")
	}
	return fmt.Sprint(a) == fmt.Sprint(b)
}

// enumerate every assignment of a subset of {delete, set, patch} to each field (depth-limited)
func enumPatches(t *schema.Type, depth int, full bool, visit func(p *cPatch)) {
	fields := t.AllFields()
	var rec func(i int, cur *cPatch)
	rec = func(i int, cur *cPatch) {
		if i == len(fields) {
			cp := &cPatch{T: t, Set: map[string]*schema.V{}, Nested: map[string]*cPatch{}}
			for k, v := range cur.Set {
				cp.Set[k] = v
			}
			cp.Delete = append(cp.Delete, cur.Delete...)
			for k, v := range cur.Nested {
				cp.Nested[k] = v
			}
			visit(cp)
			return
		}
		f := fields[i]
		canPatch := f.Type.Kind == schema.Record && depth > 0
		for mask := 0; mask < 8; mask++ {
			if mask&4 != 0 && !canPatch {
				continue
			}
			apply := func(np *cPatch) {
				if mask&1 != 0 {
					cur.Delete = append(cur.Delete, f.Name)
				}
				if mask&2 != 0 {
					cur.Set[f.Name] = schema.Rich(f.Type)
				}
				if np != nil {
					cur.Nested[f.Name] = np
				}
				rec(i+1, cur)
				if mask&1 != 0 {
					cur.Delete = cur.Delete[:len(cur.Delete)-1]
				}
				delete(cur.Set, f.Name)
				delete(cur.Nested, f.Name)
			}
			if mask&4 != 0 {
				// nested patches: a small representative family (legal and illegal ones)
				nf := f.Type.AllFields()
				var opt, req *schema.Field
				for _, x := range nf {
					if x.Optional && opt == nil {
						opt = x
					}
					if !x.Optional && x.Default == nil && req == nil {
						req = x
					}
				}
				cands := []*cPatch{}
				if opt != nil {
					cands = append(cands,
						&cPatch{T: f.Type, Set: map[string]*schema.V{opt.Name: schema.Rich(opt.Type)}, Nested: map[string]*cPatch{}},
						&cPatch{T: f.Type, Delete: []string{opt.Name}, Set: map[string]*schema.V{}, Nested: map[string]*cPatch{}},
						&cPatch{T: f.Type, Delete: []string{opt.Name}, Set: map[string]*schema.V{opt.Name: schema.Rich(opt.Type)}, Nested: map[string]*cPatch{}})
				}
				if req != nil {
					cands = append(cands, &cPatch{T: f.Type, Delete: []string{req.Name}, Set: map[string]*schema.V{}, Nested: map[string]*cPatch{}})
				}
				if full {
					// thorough: every non-empty patch of the nested record
					cands = nil
					enumPatches(f.Type, depth-1, true, func(np *cPatch) {
						if !np.empty() {
							cands = append(cands, np)
						}
					})
				}
				for _, np := range cands {
					apply(np)
				}
			} else {
				apply(nil)
			}
		}
	}
	rec(0, &cPatch{T: t, Set: map[string]*schema.V{}, Nested: map[string]*cPatch{}})
}

func partC11(a *hcli.Args, rep *report.Report, univName string, u *schema.Universe) {
	fail := func(s *report.Sub, sig, detail, cs string) {
		rep.Fail(a.Gen+" constraint "+sig, detail, conReplay{a.Gen, "C11", univName, cs})
		s.Class("fail")
	}
	// ---- unions: every subset of members set, both directions
	su := rep.S("unions")
	su.Bounds = "unions UOne, UTwo, UTwoN, UFour, UFourN: every subset of members set on encode (json, header); documents with 0 / 1 / 2+ members in declaration, reverse and rotated key order, an unknown member, null on decode (json, header)"
	if a.Shard == 0 {
		for _, un := range []string{"UOne", "UTwo", "UTwoN", "UFour", "UFourN"} {
			t := u.ByName[un]
			m := len(t.Members)
			for mask := 0; mask < 1<<uint(m); mask++ {
				v := &schema.V{T: t}
				count := 0
				var names []string
				for i, mem := range t.Members {
					if mask&(1<<uint(i)) == 0 {
						continue
					}
					count++
					names = append(names, mem.Alias)
					mv := schema.Base(mem.Type)
					if v.Alias == "" {
						v.Alias, v.Mem = mem.Alias, mv
					} else {
						v.Items = append(v.Items, &schema.V{T: t, Alias: mem.Alias, Mem: mv})
					}
				}
				valid := count == 1 || (count == 0 && t.HasNull)
				ptr, err := goValue(v)
				if err != nil {
					report.Internal("bridge: %v", err)
				}
				for _, f := range []string{"json", "header"} {
					out, err := encodeGo(ptr, f)
					su.Evaluations++
					su.Transitions++
					su.Traces++
					cs := fmt.Sprintf("union %s members=%v %s", un, names, f)
					switch {
					case isPanic(err):
						fail(su, fmt.Sprintf("union encode-panic %s members=%d nullable=%v", f, count, t.HasNull), fmt.Sprintf("%s: %v", cs, err), cs)
					case valid && err != nil:
						fail(su, fmt.Sprintf("union valid-rejected-on-encode %s members=%d nullable=%v", f, count, t.HasNull), fmt.Sprintf("%s: %v", cs, err), cs)
					case !valid && err == nil:
						fail(su, fmt.Sprintf("union invalid-emitted %s members=%d nullable=%v", f, count, t.HasNull), fmt.Sprintf("%s: emitted %q", cs, out), cs)
					default:
						su.Class(fmt.Sprintf("ok:encode:members=%d:nullable=%v", min(count, 2), t.HasNull))
					}
				}
				// decode the equivalent document
				var js, hd []string
				for i, mem := range t.Members {
					if mask&(1<<uint(i)) != 0 {
						js = append(js, fmt.Sprintf("%q:%s", mem.Alias, refjson.Encode(schema.Base(mem.Type), nil)))
						hd = append(hd, fmt.Sprintf("%s:%s", strings.ReplaceAll(mem.Alias, ".", "."), ror2Of(schema.Base(mem.Type))))
					}
				}
				type udoc struct{ f, doc string }
				docs := []udoc{{"json", "{" + strings.Join(js, ",") + "}"}, {"header", "(" + strings.Join(hd, ",") + ")"}}
				if count >= 2 {
					// key order is arbitrary on the wire: the same members in reverse and rotated order
					rev := func(x []string) []string {
						out := make([]string, len(x))
						for i := range x {
							out[len(x)-1-i] = x[i]
						}
						return out
					}
					rot := func(x []string) []string { return append(append([]string{}, x[1:]...), x[0]) }
					docs = append(docs, udoc{"json", "{" + strings.Join(rev(js), ",") + "}"}, udoc{"header", "(" + strings.Join(rev(hd), ",") + ")"},
						udoc{"json", "{" + strings.Join(rot(js), ",") + "}"}, udoc{"header", "(" + strings.Join(rot(hd), ",") + ")"})
				}
				for _, d := range docs {
					f, doc := d.f, d.doc
					_, err := decodeDocInto(un, f, doc)
					su.Evaluations++
					su.Transitions++
					su.Traces++
					cs := fmt.Sprintf("union %s document %s (%s)", un, doc, f)
					switch {
					case isPanic(err):
						fail(su, fmt.Sprintf("union decode-panic %s members=%d", f, count), fmt.Sprintf("%s: %v", cs, err), cs)
					case valid && err != nil:
						fail(su, fmt.Sprintf("union valid-rejected-on-decode %s members=%d nullable=%v", f, count, t.HasNull), fmt.Sprintf("%s: %v", cs, err), cs)
					case !valid && err == nil:
						fail(su, fmt.Sprintf("union invalid-accepted %s members=%d nullable=%v", f, min(count, 2), t.HasNull), fmt.Sprintf("%s was accepted", cs), cs)
					default:
						su.Class(fmt.Sprintf("ok:decode:members=%d:nullable=%v", min(count, 2), t.HasNull))
					}
				}
			}
			// a receiver that already holds a member: decoding replaces it (the value is the one the document denotes)
			for i, mi := range t.Members {
				for j, mj := range t.Members {
					if i == j {
						continue
					}
					first := fmt.Sprintf("{%q:%s}", mi.Alias, refjson.Encode(schema.Base(mi.Type), nil))
					second := fmt.Sprintf("{%q:%s}", mj.Alias, refjson.Encode(schema.Base(mj.Type), nil))
					ptr, err := decodeDocInto(un, "json", first)
					if err != nil {
						continue
					}
					err = safeCall(func() error {
						r, e := newReader("json", second)
						if e != nil {
							return e
						}
						return ptr.Interface().(restlicodec.Unmarshaler).UnmarshalRestLi(r)
					})
					su.Evaluations++
					su.Transitions++
					su.Traces++
					cs := fmt.Sprintf("union %s: %s decoded into a value that held %s", un, second, first)
					fresh, ferr := decodeDocInto(un, "json", second)
					if ferr != nil {
						continue
					}
					want, _ := encodeGo(fresh, "json")
					got, eerr := encodeGo(ptr, "json")
					switch {
					case isPanic(err):
						fail(su, "union decode-panic reused-receiver", fmt.Sprintf("%s: %v", cs, err), cs)
					case err == nil && (eerr != nil || got != want):
						fail(su, "union reused-receiver-keeps-old-member", fmt.Sprintf("%s: the value now encodes as %q (%v), a fresh value as %q", cs, got, eerr, want), cs)
					default:
						su.Class("ok:decode:reused-receiver")
					}
				}
			}
			// unknown member
			for f, doc := range map[string]string{"json": `{"nope":1}`, "header": "(nope:1)", "untyped": `{"nope":1}`} {
				_, err := decodeDocInto(un, f, doc)
				su.Evaluations++
				su.Transitions++
				su.Traces++
				cs := fmt.Sprintf("union %s document %s (%s)", un, doc, f)
				if err == nil && !t.HasNull {
					fail(su, fmt.Sprintf("union unknown-member-accepted %s nullable=false", f), cs+" was accepted and yields a union without member", cs)
				} else if isPanic(err) {
					fail(su, "union decode-panic unknown-member "+f, fmt.Sprintf("%s: %v", cs, err), cs)
				} else {
					su.Class("ok:decode:unknown-member")
				}
			}
		}
	}
	// ---- fixed: sizes x payload lengths
	sf := rep.S("fixed")
	sf.Bounds = "fixed sizes {1,2,16} x payload lengths 0..size+2 (json, header): decode errors iff the length differs; every exact-size payload round-trips"
	if a.Shard == 0 {
		for _, fx := range []string{"Fx1", "Fx2", "Fx16"} {
			t := u.ByName[fx]
			for l := 0; l <= t.Size+2; l++ {
				payload := strings.Repeat("z", l)
				for f, doc := range map[string]string{"json": fmt.Sprintf("%q", payload), "header": func() string {
					if l == 0 {
						return "''"
					}
					return payload
				}()} {
					ptr, err := decodeDocInto(fx, f, doc)
					sf.Evaluations++
					sf.Transitions++
					sf.Traces++
					cs := fmt.Sprintf("fixed %s payload of %d bytes (%s)", fx, l, f)
					switch {
					case isPanic(err):
						fail(sf, fmt.Sprintf("fixed decode-panic %s size=%d len=%d", f, t.Size, l), fmt.Sprintf("%s: %v", cs, err), cs)
					case l == t.Size && err != nil:
						fail(sf, fmt.Sprintf("fixed exact-size-rejected %s size=%d", f, t.Size), fmt.Sprintf("%s: %v", cs, err), cs)
					case l != t.Size && err == nil:
						fail(sf, fmt.Sprintf("fixed wrong-size-accepted %s size=%d len=%d", f, t.Size, l), fmt.Sprintf("%s was accepted as %v", cs, ptr.Elem().Interface()), cs)
					default:
						sf.Class(fmt.Sprintf("ok:size=%d:len-vs-size=%d", t.Size, sign(l-t.Size)))
					}
				}
			}
		}
	}
	// ---- enums: constants and symbol strings
	se := rep.S("enums")
	se.Bounds = "enums E3, E1: constants -1..n+1 on encode; symbol strings {each declared, unknown, wrong case, empty, numeric, JSON number} on decode; re-encoding the unknown value"
	if a.Shard == 0 {
		for _, en := range []string{"E3", "E1"} {
			t := u.ByName[en]
			n := len(t.Symbols)
			for c := -1; c <= n+1; c++ {
				v := schema.VEOrd(t, int32(c))
				ptr, _ := goValue(v)
				for _, f := range []string{"json", "header"} {
					out, err := encodeGo(ptr, f)
					se.Evaluations++
					se.Transitions++
					se.Traces++
					valid := c >= 1 && c <= n
					cs := fmt.Sprintf("enum %s constant %d (%s)", en, c, f)
					switch {
					case isPanic(err):
						fail(se, fmt.Sprintf("enum encode-panic %s", f), fmt.Sprintf("%s: %v", cs, err), cs)
					case valid && err != nil:
						fail(se, fmt.Sprintf("enum declared-symbol-rejected %s", f), fmt.Sprintf("%s: %v", cs, err), cs)
					case !valid && err == nil:
						fail(se, fmt.Sprintf("enum illegal-constant-emitted %s constant-vs-range=%d", f, c), fmt.Sprintf("%s emitted %q", cs, out), cs)
					case valid && !strings.Contains(out, t.Symbols[c-1]):
						fail(se, fmt.Sprintf("enum wrong-symbol-emitted %s", f), fmt.Sprintf("%s emitted %q, want %s", cs, out, t.Symbols[c-1]), cs)
					default:
						se.Class(fmt.Sprintf("ok:encode:valid=%v", valid))
					}
				}
			}
			syms := append([]string{}, t.Symbols...)
			syms = append(syms, "PURPLE", strings.ToLower(t.Symbols[0]), "1", " "+t.Symbols[0], t.Symbols[0]+" ")
			for _, sym := range syms {
				for f, doc := range map[string]string{"json": fmt.Sprintf("%q", sym), "header": strings.ReplaceAll(sym, " ", "%20")} {
					ptr, err := decodeDocInto(en, f, doc)
					se.Evaluations++
					se.Transitions++
					se.Traces++
					declared := 0
					for i, d := range t.Symbols {
						if d == sym {
							declared = i + 1
						}
					}
					cs := fmt.Sprintf("enum %s symbol %q (%s)", en, sym, f)
					if isPanic(err) {
						fail(se, "enum decode-panic "+f, fmt.Sprintf("%s: %v", cs, err), cs)
						continue
					}
					if err != nil {
						if declared > 0 {
							fail(se, "enum declared-symbol-rejected-on-decode "+f, fmt.Sprintf("%s: %v", cs, err), cs)
						} else {
							se.Class("ok:decode:unknown-symbol-error")
						}
						continue
					}
					got := int(ptr.Elem().Int())
					if got != declared {
						fail(se, fmt.Sprintf("enum wrong-constant-on-decode %s", f), fmt.Sprintf("%s decoded to constant %d, want %d (0 = the unknown value)", cs, got, declared), cs)
						continue
					}
					if declared == 0 {
						if out, err := encodeGo(ptr, f); err == nil {
							fail(se, "enum unknown-value-re-emitted "+f, fmt.Sprintf("%s: the unknown value was re-encoded as %q", cs, out), cs)
							continue
						}
					}
					se.Class(fmt.Sprintf("ok:decode:declared=%v", declared > 0))
				}
			}
			// a receiver that already holds a declared symbol (second document into the same value, or a
			// repeated key inside one document) must still end as the unknown value
			for f, doc := range map[string]string{"json": `"PURPLE"`, "header": "PURPLE"} {
				rt := Reg[en]
				ptr := reflect.New(rt)
				ptr.Elem().SetInt(1)
				err := safeCall(func() error {
					r, e := newReader(f, doc)
					if e != nil {
						return e
					}
					return ptr.Interface().(restlicodec.Unmarshaler).UnmarshalRestLi(r)
				})
				se.Evaluations++
				se.Transitions++
				se.Traces++
				cs := fmt.Sprintf("enum %s symbol PURPLE decoded into a receiver holding %s (%s)", en, t.Symbols[0], f)
				if err == nil && ptr.Elem().Int() != 0 {
					fail(se, "enum unknown-symbol-keeps-previous-value "+f, fmt.Sprintf("%s: the value is constant %d, want the unknown value", cs, ptr.Elem().Int()), cs)
				} else {
					se.Class("ok:decode:unknown-over-declared")
				}
			}
			// a JSON number where a symbol is expected
			if _, err := decodeDocInto(en, "json", "1"); err == nil {
				fail(se, "enum json-number-accepted", fmt.Sprintf("enum %s: the JSON number 1 was accepted as a symbol", en), "enum json number")
			}
		}
	}
	// ---- a repeated key inside one document: the last occurrence decides; an unknown symbol after a
	// declared one must leave the unknown value
	if a.Shard == 0 {
		for f, doc := range map[string]string{"json": `{"e":"GREEN","e":"TEAL"}`, "header": "(e:GREEN,e:TEAL)"} {
			ptr, err := decodeDocInto("CEnum", f, doc)
			se.Evaluations++
			se.Transitions++
			se.Traces++
			cs := fmt.Sprintf("record CEnum document %s (%s)", doc, f)
			if err == nil {
				if got := ptr.Elem().FieldByName("E").Int(); got != 0 {
					fail(se, "enum repeated-key-unknown-keeps-previous-value "+f, fmt.Sprintf("%s: field e is constant %d, want the unknown value (or an error)", cs, got), cs)
					continue
				}
			} else if isPanic(err) {
				fail(se, "enum decode-panic repeated-key "+f, fmt.Sprintf("%s: %v", cs, err), cs)
				continue
			}
			se.Class("ok:decode:repeated-key")
		}
	}
	// ---- partial updates
	sp := rep.S("partial-updates")
	sp.Bounds = "records P4, PWithInc, P2, PInner, PLeaf (includes two levels deep), POuterRec (record-typed field inherited through an include), PViaHollow (fields inherited through a record without fields of its own): every assignment of a subset of {delete, set, nested patch} to each field (nested patches: quick = a family of legal and illegal ones, thorough = every non-empty nested patch) x exclusion specs {none, one field, a nested field}; encode errors iff illegal, legal patches produce the reference patch / $set / $delete document and round-trip; decoding the reference document of an illegal patch errors"
	item := 0
	for _, rn := range []string{"P4", "PWithInc", "P2", "PInner", "PLeaf", "POuterRec", "PViaHollow"} {
		t := u.ByName[rn]
		rt := Reg[rn+"_PartialUpdate"]
		if rt == nil {
			report.Internal("no partial update type for %s", rn)
		}
		specs := [][][]string{nil}
		fields := t.AllFields()
		specs = append(specs, [][]string{{fields[len(fields)-1].Name}})
		for _, f := range fields {
			if f.Type.Kind == schema.Record {
				specs = append(specs, [][]string{{f.Name, f.Type.AllFields()[1].Name}})
				break
			}
		}
		enumPatches(t, 1, a.Tier == "thorough", func(p *cPatch) {
			item++
			if !a.Mine(item) {
				return
			}
			sp.States++
			for si, spec := range specs {
				legal := p.legal(spec, nil)
				gv, representable := cPatchToGo(p, reflect.PtrTo(rt))
				cs := fmt.Sprintf("patch %s %s spec=%v", rn, p, specStrings(spec))
				if representable {
					var out string
					err := safeCall(func() error {
						w := restlicodec.NewCompactJsonWriterWithExcludedFields(specOf(spec))
						if e := gv.Interface().(restlicodec.Marshaler).MarshalRestLi(w); e != nil {
							return e
						}
						out = w.Finalize()
						return nil
					})
					sp.Evaluations++
					sp.Transitions++
					sp.Traces++
					switch {
					case isPanic(err):
						fail(sp, "patch encode-panic", fmt.Sprintf("%s: %v", cs, err), cs)
					case legal && err != nil:
						fail(sp, fmt.Sprintf("patch legal-rejected-on-encode spec=%d", si), fmt.Sprintf("%s: %v", cs, err), cs)
					case !legal && err == nil && illegalKind(p, spec) == "sets-excluded-inside" && sameJSON(out, refPatchJSON(p.stripSets(spec, nil), true)):
						// not refused, but what was emitted is the patch without the excluded values
						fail(sp, fmt.Sprintf("patch illegal-stripped-not-refused spec=%d sets-excluded-inside", si), fmt.Sprintf("%s emitted %s", cs, out), cs)
					case !legal && err == nil:
						fail(sp, fmt.Sprintf("patch illegal-emitted spec=%d %s", si, illegalKind(p, spec)), fmt.Sprintf("%s emitted %s", cs, out), cs)
					case legal:
						want := refPatchJSON(p, true)
						if !sameJSON(out, want) {
							fail(sp, "patch wrong-document", fmt.Sprintf("%s emitted %s, the protocol's shape is %s", cs, out, want), cs)
						} else {
							sp.Class("ok:encode:legal")
						}
					default:
						sp.Class("ok:encode:illegal-refused")
					}
				}
				// decode the reference document
				doc := refPatchJSON(p, true)
				ptr := reflect.New(rt)
				err := safeCall(func() error {
					r, e := restlicodec.NewJsonReaderWithExcludedFields([]byte(doc), specOf(spec), 1)
					if e != nil {
						return e
					}
					return ptr.Interface().(restlicodec.Unmarshaler).UnmarshalRestLi(r)
				})
				sp.Evaluations++
				sp.Transitions++
				sp.Traces++
				switch {
				case isPanic(err):
					fail(sp, "patch decode-panic", fmt.Sprintf("%s document %s: %v", cs, doc, err), cs)
				case legal && err != nil:
					fail(sp, fmt.Sprintf("patch legal-rejected-on-decode spec=%d", si), fmt.Sprintf("%s document %s: %v", cs, doc, err), cs)
				case !legal && err == nil:
					fail(sp, fmt.Sprintf("patch illegal-accepted spec=%d %s", si, illegalKind(p, spec)), fmt.Sprintf("%s document %s was accepted", cs, doc), cs)
				case legal:
					got := cPatchFromGo(ptr, t)
					if !cPatchEqual(got, p) {
						fail(sp, "patch altered-on-decode", fmt.Sprintf("%s document %s decoded to %s", cs, doc, got), cs)
					} else {
						sp.Class("ok:decode:legal")
					}
				default:
					sp.Class("ok:decode:illegal-refused")
				}
			}
		})
	}
	// ---- every exported way to request a delete must be honoured: flags promoted into Delete_Fields
	sa := rep.S("promoted-delete-flags")
	sa.Bounds = "every bool flag reachable through embedded structs of a record's Delete_Fields, set alone: the emitted patch lists the field under $delete (or encoding errors), it is never silently dropped"
	if a.Shard == 0 {
		for _, rn := range []string{"P4", "PWithInc", "P2", "PInner"} {
			rt := Reg[rn+"_PartialUpdate"]
			var walk func(path []int, st reflect.Type)
			top := rt
			walk = func(path []int, st reflect.Type) {
				for i := 0; i < st.NumField(); i++ {
					sf := st.Field(i)
					np := append(append([]int{}, path...), i)
					if sf.Anonymous && sf.Type.Kind() == reflect.Struct {
						walk(np, sf.Type)
						continue
					}
					if sf.Type.Kind() != reflect.Bool || len(path) == 0 {
						continue
					}
					pv := reflect.New(top)
					df := directField(pv.Elem(), "Delete_Fields")
					df.FieldByIndex(np).SetBool(true)
					out, err := encodeGo(pv, "json")
					sa.Evaluations++
					sa.Transitions++
					sa.Traces++
					cs := fmt.Sprintf("record %s: Delete_Fields.%s = true", rn, sf.Name)
					if err == nil && !strings.Contains(out, "$delete") {
						fail(sa, fmt.Sprintf("patch promoted-delete-flag-dropped %s.%s", rn, sf.Name), fmt.Sprintf("%s (promoted from the embedded %s) emitted %s: the requested delete is silently dropped", cs, st.Name(), out), cs)
					} else {
						sa.Class("ok")
					}
				}
			}
			if df, ok := rt.FieldByName("Delete_Fields"); ok {
				walk(nil, df.Type)
			}
		}
	}
	rep.Sample(map[string]interface{}{"record": "P4", "patch": "{$set o; n:{$delete io}}", "reference_document": `{"patch":{"$set":{"o":"a"},"n":{"$delete":["io"]}}}`})
}

func illegalKind(p *cPatch, spec [][]string) string {
	kinds := map[string]bool{}
	var walk func(p *cPatch, path []string)
	walk = func(p *cPatch, path []string) {
		for _, f := range p.T.AllFields() {
			_, isSet := p.Set[f.Name]
			isDel := false
			for _, d := range p.Delete {
				if d == f.Name {
					isDel = true
				}
			}
			n, isPatch := p.Nested[f.Name]
			fp := append(append([]string{}, path...), f.Name)
			if isSet && isDel {
				kinds["set+delete"] = true
			}
			if isSet && isPatch {
				kinds["set+patch"] = true
			}
			if isDel && isPatch {
				kinds["delete+patch"] = true
			}
			if isDel && !f.Optional && f.Default == nil {
				kinds["delete-required"] = true
			}
			if (isSet || isDel || isPatch) && refMatches(spec, fp) {
				kinds["touches-excluded"] = true
			} else if isSet && setCarriesExcluded(p.Set[f.Name], spec, fp) {
				kinds["sets-excluded-inside"] = true
			}
			if isPatch {
				walk(n, fp)
			}
		}
	}
	walk(p, nil)
	var ks []string
	for k := range kinds {
		ks = append(ks, k)
	}
	sort.Strings(ks)
	return strings.Join(ks, ",")
}

func sign(x int) int {
	switch {
	case x < 0:
		return -1
	case x > 0:
		return 1
	}
	return 0
}

func ror2Of(v *schema.V) string {
	switch v.T.Base().Kind {
	case schema.Record:
		var parts []string
		for _, f := range v.T.AllFields() {
			if fv := v.Fields[f.Name]; fv != nil {
				parts = append(parts, f.Name+":"+ror2Of(fv))
			}
		}
		return "(" + strings.Join(parts, ",") + ")"
	case schema.Array:
		var parts []string
		for _, it := range v.Items {
			parts = append(parts, ror2Of(it))
		}
		return "List(" + strings.Join(parts, ",") + ")"
	case schema.Int32, schema.Int64:
		return fmt.Sprint(v.I)
	case schema.Bool:
		return fmt.Sprint(v.B)
	case schema.Enum:
		return v.Sym
	case schema.String:
		if v.S == "" {
			return "''"
		}
		return v.S
	}
	return "x"
}
