package main

import (
	"crypto/sha256"
	"fmt"
	"os"
	"reflect"
	"sort"
	"strings"

	"github.com/PapaCharlie/go-restli/v2/fnv1a"
	"github.com/PapaCharlie/go-restli/v2/restli/batchkeyset"
	"github.com/PapaCharlie/go-restli/v2/restlicodec"

	"verif/mc/hcli"
	"verif/mc/report"
	"verif/mc/schema"
)

type detReplay struct {
	Gen    string   `json:"gen"`
	Part   string   `json:"part"`
	Univ   string   `json:"universe"`
	Sub    string   `json:"sub"`
	Writer string   `json:"writer"`
	Keys   []string `json:"keys"`
	Order  []int    `json:"order"`
}

func allPerms(n int) [][]int {
	var out [][]int
	p := make([]int, n)
	for i := range p {
		p[i] = i
	}
	var rec func(k int)
	rec = func(k int) {
		if k == n {
			out = append(out, append([]int{}, p...))
			return
		}
		for i := k; i < n; i++ {
			p[k], p[i] = p[i], p[k]
			rec(k + 1)
			p[k], p[i] = p[i], p[k]
		}
	}
	rec(0)
	return out
}

var seamWriters = []string{"json", "pretty", "header", "path", "query-value"}

func seamWriter(name string, excluded restlicodec.PathSpec) restlicodec.Writer {
	switch name {
	case "json":
		return restlicodec.NewCompactJsonWriterWithExcludedFields(excluded)
	case "pretty":
		return restlicodec.NewPrettyJsonWriterWithExcludedFields(excluded)
	case "header":
		return restlicodec.NewRor2HeaderWriterWithExcludedFields(excluded)
	case "path":
		return restlicodec.NewRor2PathWriter()
	}
	return restlicodec.NewRestLiQueryParamsWriter()
}

// writeMapInOrder drives the seam below Go's map iteration: keyWriter is called in the given order.
func writeMapInOrder(w restlicodec.Writer, keys []string, order []int, nested bool) (string, error) {
	err := w.WriteMap(func(kw func(string) restlicodec.Writer) error {
		for _, i := range order {
			k := keys[i]
			if nested {
				inner := kw(k)
				if e := inner.WriteMap(func(kw2 func(string) restlicodec.Writer) error {
					for _, j := range order {
						kw2(keys[j]).WriteInt32(int32(j))
					}
					return nil
				}); e != nil {
					return e
				}
			} else {
				kw(k).WriteString("v" + fmt.Sprint(i))
			}
		}
		return nil
	})
	return w.Finalize(), err
}

// byte-order check of the emitted keys: decode the document with the reference parsers
func keysAscending(keys []string) bool { return sort.StringsAreSorted(keys) }

type collKey struct{ s string }

func (c collKey) MarshalRestLi(w restlicodec.Writer) error { w.WriteString(c.s); return nil }
func (c collKey) ComputeHash() fnv1a.Hash                  { return fnv1a.HashInt32(int32(len(c.s) % 2)) }
func (c collKey) Equals(o collKey) bool                    { return c.s == o.s }

func partC09(a *hcli.Args, rep *report.Report, univName string, u *schema.Universe) {
	// ---- 1. WriteMap seam: all call orders
	s1 := rep.S("writemap-call-orders")
	maxN := 5
	if a.Thorough() {
		maxN = 6
	}
	keySets := [][]string{
		{"a", "ab", "b", "B", "é", ""},
		{"k1", "k10", "k2", "K", "a b", "a:b"},
		{"z", "y", "x", "w", "v", "u"},
		{"(", ")", ",", "'", "%", "\""},
	}
	s1.Bounds = fmt.Sprintf("5 writers x %d key sets x every permutation of keyWriter call order for n<=%d keys x {flat, nested maps} x {no exclusion, one key excluded}", len(keySets), maxN)
	item := 0
	for _, wn := range seamWriters {
		for ki, ks := range keySets {
			for n := 1; n <= maxN; n++ {
				keys := ks[:n]
				for _, nested := range []bool{false, true} {
					for _, excl := range []bool{false, true} {
						item++
						if !a.Mine(item) {
							continue
						}
						if excl && (wn == "path" || wn == "query-value" || n < 2) {
							continue
						}
						var spec restlicodec.PathSpec
						if excl {
							spec = restlicodec.NewPathSpec(keys[1])
						}
						var first string
						s1.States++
						for pi, order := range allPerms(n) {
							out, err := writeMapInOrder(seamWriter(wn, spec), keys, order, nested)
							s1.Evaluations++
							s1.Transitions++
							s1.Traces++
							if err != nil {
								rep.Fail(fmt.Sprintf("%s det writemap %s error", a.Gen, wn), err.Error(), nil)
								continue
							}
							if pi == 0 {
								first = out
								// keys must appear in ascending byte order: re-read them in document order
								emitted := emittedKeys(wn, out)
								want := append([]string{}, keys...)
								if excl {
									want = append(append([]string{}, keys[:1]...), keys[2:]...)
								}
								sort.Strings(want)
								if strings.Join(emitted, "\x00") != strings.Join(want, "\x00") {
									rep.Fail(fmt.Sprintf("%s det writemap %s keys-not-ascending keyset=%d n=%d", a.Gen, wn, ki, n),
										fmt.Sprintf("writer %s keys %q output %q: top-level keys appear as %q, want ascending byte order %q", wn, keys, out, emitted, want),
										detReplay{a.Gen, "C09", univName, "writemap", wn, keys, order})
									s1.Class("fail:not-ascending")
								}
								continue
							}
							if out != first {
								rep.Fail(fmt.Sprintf("%s det writemap %s order-dependent keyset=%d n=%d nested=%v excl=%v", a.Gen, wn, ki, n, nested, excl),
									fmt.Sprintf("writer %s keys %q: call order %v gives %q, call order identity gives %q", wn, keys, order, out, first),
									detReplay{a.Gen, "C09", univName, "writemap", wn, keys, order})
								s1.Class("fail:order-dependent")
							}
						}
						s1.Class(fmt.Sprintf("ok:%s:n=%d", wn, n))
					}
				}
			}
		}
	}
	// ---- 2. BuildQueryParams: all parameter orders
	s2 := rep.S("query-param-orders")
	paramSets := [][]string{
		{"q", "ids", "start", "count", "zz", "a"},
		{"tag", "tag2", "tag10", "t", "tag_x", "tagX"}, // names extending one another, also with bytes below '='
		{"ids", "ids2", "q", "q2", "Q", "_q"},
	}
	s2.Bounds = fmt.Sprintf("%d parameter-name sets (identifiers; prefix pairs continuing with digits, i.e. bytes below '=', with '_' and with capitals) x every permutation of parameter order for n<=%d parameters through BuildQueryParams", len(paramSets), maxN)
	for _, params := range paramSets {
		for n := 1; n <= maxN && a.Shard == 0; n++ {
			var first string
			for pi, order := range allPerms(n) {
				out, err := restlicodec.BuildQueryParams(func(pw func(string) restlicodec.Writer) error {
					for _, i := range order {
						pw(params[i]).WriteString("v" + params[i])
					}
					return nil
				})
				s2.Evaluations++
				s2.Transitions++
				s2.Traces++
				s2.States++
				if err != nil {
					rep.Fail(fmt.Sprintf("%s det query error", a.Gen), err.Error(), nil)
					continue
				}
				if pi == 0 {
					first = out
					var names []string
					for _, p := range strings.Split(out, "&") {
						names = append(names, strings.SplitN(p, "=", 2)[0])
					}
					if !sort.StringsAreSorted(names) {
						rep.Fail(fmt.Sprintf("%s det query params-not-ascending n=%d", a.Gen, n), fmt.Sprintf("query %q: parameters %q are not in ascending byte order", out, names), nil)
					}
				} else if out != first {
					rep.Fail(fmt.Sprintf("%s det query order-dependent n=%d", a.Gen, n), fmt.Sprintf("parameter order %v gives %q, identity gives %q", order, out, first), nil)
				}
			}
			s2.Class(fmt.Sprintf("ok:n=%d", n))
		}
	}
	// ---- 3. batch key sets: all insertion orders
	s3 := rep.S("batch-key-insertion-orders")
	s3.Bounds = fmt.Sprintf("every insertion order of n<=%d keys into string, int64, bytes and hash-colliding simple-key sets; ids must be identical and ascending in encoded order, also for sets that were already encoded after every insertion", maxN)
	strKeys := []string{"b", "a", "a:b", "", "é", "("}
	intKeys := []int64{5, -1, 0, 1 << 40, 7, -9}
	for n := 1; n <= maxN && a.Shard == 0; n++ {
		firsts := map[string]string{}
		for pi, order := range allPerms(n) {
			outs := map[string]string{}
			ss := batchkeyset.NewBatchKeySet[string]()
			is := batchkeyset.NewBatchKeySet[int64]()
			bs := batchkeyset.NewBytesKeySet()
			cs := batchkeyset.NewSimpleKeySet[collKey]()
			for _, i := range order {
				_ = ss.AddKey(strKeys[i])
				_ = is.AddKey(intKeys[i])
				_ = bs.AddKey([]byte(strKeys[i] + "x"))
				_ = cs.AddKey(collKey{strKeys[i]})
			}
			outs["string"], _ = ss.EncodeQueryParams()
			outs["int64"], _ = is.EncodeQueryParams()
			outs["bytes"], _ = bs.EncodeQueryParams()
			outs["colliding"], _ = cs.EncodeQueryParams()
			s3.Evaluations += 4
			s3.Transitions += 4
			s3.Traces += 4
			s3.States++
			// earlier use of the same objects: sets that were already encoded after every insertion must
			// end up with the same bytes as sets encoded once
			{
				ss2 := batchkeyset.NewBatchKeySet[string]()
				is2 := batchkeyset.NewBatchKeySet[int64]()
				bs2 := batchkeyset.NewBytesKeySet()
				cs2 := batchkeyset.NewSimpleKeySet[collKey]()
				for _, i := range order {
					_ = ss2.AddKey(strKeys[i])
					_ = is2.AddKey(intKeys[i])
					_ = bs2.AddKey([]byte(strKeys[i] + "x"))
					_ = cs2.AddKey(collKey{strKeys[i]})
					_, _ = ss2.EncodeQueryParams()
					_, _ = is2.EncodeQueryParams()
					_, _ = bs2.EncodeQueryParams()
					_, _ = cs2.EncodeQueryParams()
				}
				again := map[string]string{}
				again["string"], _ = ss2.EncodeQueryParams()
				again["int64"], _ = is2.EncodeQueryParams()
				again["bytes"], _ = bs2.EncodeQueryParams()
				again["colliding"], _ = cs2.EncodeQueryParams()
				s3.Evaluations += 4
				s3.Transitions += 4
				for kind, out := range again {
					if out != outs[kind] {
						rep.Fail(fmt.Sprintf("%s det batchkeys %s depends-on-earlier-encoding n=%d", a.Gen, kind, n), fmt.Sprintf("a set encoded after every insertion ends as %q, a set encoded once as %q", out, outs[kind]), nil)
					}
				}
			}
			for kind, out := range outs {
				if pi == 0 {
					firsts[kind] = out
					ids := splitIds(out)
					if !sort.StringsAreSorted(ids) {
						rep.Fail(fmt.Sprintf("%s det batchkeys %s ids-not-ascending n=%d", a.Gen, kind, n), fmt.Sprintf("ids %q are not in ascending encoded order", out), nil)
					}
				} else if out != firsts[kind] {
					rep.Fail(fmt.Sprintf("%s det batchkeys %s order-dependent n=%d", a.Gen, kind, n), fmt.Sprintf("insertion order %v gives %q, identity gives %q", order, out, firsts[kind]), nil)
				}
			}
		}
		s3.Class(fmt.Sprintf("ok:n=%d", n))
	}
	// ---- 4. Equal values encode identically (incl. after warm-up) ; supplementary: fresh maps
	s4 := rep.S("equal-values-same-bytes")
	s4.Bounds = "per map-bearing wrapper: reduced-alphabet values, their copies and map-insertion-order rebuilds; Equal pairs (zero signs aside) must encode identically in all 5 formats, also after a warm-up of unrelated encodes; supplementary: each value re-encoded 64x from freshly built Go maps, digests compared across processes"
	// ---- 4a. one process per map-iteration start: every process encodes the same pool once
	digest := sha256.New()
	s5 := rep.S("map-iteration-starts")
	s5.Bounds = "every map-bearing wrapper x reduced-alphabet values x 5 formats encoded once in every shard process, each process taking the formats in its own rotation; the driver runs one process per map-iteration start (VERIF_MAPROT = shard index: 0..15 quick, 0..63 thorough; runtime overlay fixes hash seeds, so the iteration order of every Go map is a function of its contents and the start) and the digests of all processes must agree"
	for _, w := range u.Wrappers {
		if !strings.Contains(w.Name, "M") {
			continue
		}
		for _, v := range schema.Alphabet(w, true) {
			if v.HasNaN() {
				continue
			}
			ptr, err := goValue(v)
			if err != nil {
				report.Internal("bridge: %v", err)
			}
			// every process takes the formats in its own order (rotation by shard index): what a format emits must not
			// depend on which format saw the value - or its keys - first
			outs := map[string]string{}
			for i := range Formats {
				f := Formats[(i+a.Shard)%len(Formats)]
				out, err := encode(f, asMarshaler(ptr))
				s5.Evaluations++
				s5.Transitions++
				s5.Traces++
				if err == nil {
					outs[f] = string(out)
				}
			}
			for _, f := range Formats {
				if out, ok := outs[f]; ok {
					fmt.Fprintf(digest, "%s|%s|%s\n", w.Name, f, out)
				}
			}
		}
		if a.Shard == 0 {
			s5.States++
		}
		s5.Class("encoded:" + w.Name[:2])
	}
	// partial updates deleting every deletable field of every record with includes: the generated code walks the
	// included records, whose order must not depend on the generator process either (the driver generates the
	// bindings under two iteration starts of the generator)
	for _, w := range u.Wrappers {
		if w.Kind != schema.Record || len(w.Includes) == 0 {
			continue
		}
		rt, ok := Reg[w.Name+"_PartialUpdate"]
		if !ok {
			continue
		}
		p := &cPatch{T: w}
		for _, f := range w.AllFields() {
			if f.Optional {
				p.Delete = append(p.Delete, f.Name)
			}
		}
		if len(p.Delete) < 2 {
			continue
		}
		pv, okp := cPatchToGo(p, reflect.PtrTo(rt))
		if !okp {
			continue
		}
		for _, f := range []string{"json", "header"} {
			out, err := encodeGo(pv, f)
			s5.Evaluations++
			s5.Transitions++
			s5.Traces++
			if err == nil {
				fmt.Fprintf(digest, "patch|%s|%s|%s\n", w.Name, f, out)
			}
		}
		s5.Class("encoded:patch-of-record-with-includes")
	}
	// Equal values have identical bytes: a nil and an empty collection / byte string are the same value
	{
		sn := rep.S("nil-vs-empty")
		sn.Bounds = "every wrapper x every alphabet value holding an empty array, map or byte string in a field x that field nil vs empty x 5 formats: identical bytes (the values are Equal)"
		for wi, w := range u.Wrappers {
			if !a.Mine(wi) {
				continue
			}
			for _, v := range schema.Alphabet(w, true) {
				swaps := nilEmptySwaps(v)
				if len(swaps) == 0 {
					continue
				}
				ptr, err := goValue(v)
				if err != nil {
					report.Internal("bridge: %v", err)
				}
				sn.States++
				for _, m := range swaps {
					mp, err := goValue(m)
					if err != nil {
						report.Internal("bridge: %v", err)
					}
					for _, f := range Formats {
						o1, e1 := encode(f, asMarshaler(ptr))
						o2, e2 := encode(f, asMarshaler(mp))
						sn.Evaluations++
						sn.Transitions++
						sn.Traces++
						if (e1 == nil) != (e2 == nil) || string(o1) != string(o2) {
							rep.Fail(fmt.Sprintf("%s det nil-vs-empty %s %s", a.Gen, f, leaf(v.Dev)), fmt.Sprintf("type %s: %s encodes as %q (%v), the same value with the empty collection nil / non-nil the other way round as %q (%v)", w.Name, v, o1, e1, o2, e2), nil)
							sn.Class("fail")
						} else {
							sn.Class("ok:" + f)
						}
					}
				}
			}
		}
	}
	// earlier use of the library: the encoding of a partial update does not depend on the partial updates of the
	// same record type encoded or decoded before it in this process
	{
		sh := rep.S("patch-history")
		sh.Bounds = "every record with a generated partial update x {set one field, delete one field, both on different fields}: each encoded first in a fresh process state, then again after every other one was encoded and after a delete-only / set-only document was decoded; json and ROR2"
		for _, w := range u.Wrappers {
			if w.Kind != schema.Record {
				continue
			}
			rt, ok := Reg[w.Name+"_PartialUpdate"]
			if !ok {
				continue
			}
			var setF, delF *schema.Field
			for _, f := range w.AllFields() {
				if delF == nil && f.Optional {
					delF = f
				} else if setF == nil {
					setF = f
				}
			}
			if setF == nil || delF == nil {
				continue
			}
			mk := func(set, del bool) reflect.Value {
				p := &cPatch{T: w}
				if set {
					p.Set = map[string]*schema.V{setF.Name: schema.Base(setF.Type)}
				}
				if del {
					p.Delete = []string{delF.Name}
				}
				pv, okp := cPatchToGo(p, reflect.PtrTo(rt))
				if !okp {
					return reflect.Value{}
				}
				return pv
			}
			patches := map[string]reflect.Value{"set": mk(true, false), "delete": mk(false, true), "set+delete": mk(true, true)}
			names := []string{"set", "delete", "set+delete"}
			sh.States++
			for _, f := range []string{"json", "header"} {
				first := map[string]string{}
				for _, n := range names {
					if !patches[n].IsValid() {
						continue
					}
					if out, err := encodeGo(patches[n], f); err == nil {
						first[n] = out
					}
				}
				// decode the delete-only and the set-only document into fresh objects
				for _, n := range []string{"delete", "set"} {
					if doc, ok := first[n]; ok {
						if r, err := newReader(f, doc); err == nil {
							_ = safeCall(func() error { return reflect.New(rt).Interface().(restlicodec.Unmarshaler).UnmarshalRestLi(r) })
						}
					}
				}
				for round := 0; round < 2; round++ {
					for _, n := range names {
						want, ok := first[n]
						if !ok {
							continue
						}
						out, err := encodeGo(patches[n], f)
						sh.Evaluations++
						sh.Transitions++
						sh.Traces++
						if err != nil || out != want {
							rep.Fail(fmt.Sprintf("%s det patch-history %s %s", a.Gen, n, f), fmt.Sprintf("record %s, patch %q: encoded first as %s, after other partial updates of the type were encoded and decoded as %s (%v)", w.Name, n, want, out, err), nil)
							sh.Class("fail")
						} else {
							sh.Class("ok:" + n)
						}
					}
				}
			}
		}
	}
	if os.Getenv("VERIF_MAPROT") != "" {
		s5.Class("iteration-start-owned")
	} else {
		rep.Note("VERIF_MAPROT not set: map iteration starts are random in this run")
	}
	for wi, w := range u.Wrappers {
		common := false
		if !strings.Contains(w.Name, "M") {
			continue
		}
		if !a.Mine(wi) && !common {
			continue
		}
		for _, v := range schema.Alphabet(w, true) {
			if v.HasNaN() {
				continue
			}
			variants := append([]*schema.V{v, v.Clone()}, mapInsertionVariants(v)...)
			for _, f := range Formats {
				var first string
				for vi, vv := range variants {
					for rpt := 0; rpt < 3; rpt++ {
						ptr, err := goValue(vv)
						if err != nil {
							report.Internal("bridge: %v", err)
						}
						if rpt == 1 {
							// warm-up: unrelated encodes on the library's pooled buffers
							for _, o := range u.Wrappers[:3] {
								op, _ := goValue(schema.Rich(o))
								_, _ = encode(f, asMarshaler(op))
							}
						}
						out, err := encode(f, asMarshaler(ptr))
						s4.Evaluations++
						s4.Transitions++
						if err != nil {
							continue
						}
						if vi == 0 && rpt == 0 {
							first = out

						} else if out != first {
							rep.Fail(fmt.Sprintf("%s det equal-values-differ %s %s", a.Gen, f, leaf(v.Dev)),
								fmt.Sprintf("type %s value %s format %s: an Equal copy (variant %d, repetition %d) encodes as %q, the original as %q", w.Name, v, f, vi, rpt, out, first), nil)
							s4.Class("fail")
						}
					}
				}
			}
			s4.States++
			s4.Traces++
			// supplementary: Go map iteration order
			if len(v.Fields) > 0 {
				for _, f := range []string{"json", "header"} {
					var first string
					for r := 0; r < 64; r++ {
						ptr, _ := goValue(v)
						out, err := encode(f, asMarshaler(ptr))
						if err != nil {
							break
						}
						if r == 0 {
							first = out
						} else if out != first {
							rep.Fail(fmt.Sprintf("%s det map-iteration-order %s %s", a.Gen, f, w.Name), fmt.Sprintf("type %s value %s: repetition %d on a freshly built map encodes as %q, repetition 0 as %q", w.Name, v, r, out, first), nil)
							break
						}
					}
				}
			}
		}
		s4.Class("ok:" + w.Name[:2])
	}
	rep.Extra["cmp:encoding-digest-"+a.Gen] = fmt.Sprintf("%x", digest.Sum(nil))
	rep.Sample(map[string]interface{}{"writer": "header", "keys": keySets[0][:4], "call_orders": 24, "output": func() string {
		o, _ := writeMapInOrder(seamWriter("header", nil), keySets[0][:4], []int{3, 1, 0, 2}, false)
		return o
	}()})
}

func splitIds(q string) []string {
	q = strings.TrimPrefix(q, "ids=List(")
	q = strings.TrimSuffix(q, ")")
	if q == "" {
		return nil
	}
	return splitTopLevel(q)
}

func splitTopLevel(s string) []string {
	var out []string
	depth, start := 0, 0
	for i := 0; i < len(s); i++ {
		switch s[i] {
		case '(':
			depth++
		case ')':
			depth--
		case ',':
			if depth == 0 {
				out = append(out, s[start:i])
				start = i + 1
			}
		}
	}
	return append(out, s[start:])
}

// emittedKeys returns the top-level keys of a document in document order (decoded).
func emittedKeys(writer, out string) []string {
	var keys []string
	switch writer {
	case "json", "pretty":
		d, err := parseJSONOrdered(out)
		if err != nil {
			return []string{"<unparseable: " + err.Error() + ">"}
		}
		return d
	default:
		inner := strings.TrimSuffix(strings.TrimPrefix(out, "("), ")")
		if inner == "" {
			return nil
		}
		for _, e := range splitTopLevel(inner) {
			k := e
			if i := strings.Index(e, ":"); i >= 0 {
				k = e[:i]
			}
			if k == "''" {
				k = ""
			} else {
				k = pctDecode(k)
			}
			keys = append(keys, k)
		}
	}
	return keys
}

func pctDecode(s string) string {
	var sb strings.Builder
	for i := 0; i < len(s); i++ {
		if s[i] == '%' && i+2 < len(s)+0 && i+2 <= len(s)-1+0 || (s[i] == '%' && i+2 < len(s)) {
			var b int
			if _, err := fmt.Sscanf(s[i+1:i+3], "%02X", &b); err == nil {
				sb.WriteByte(byte(b))
				i += 2
				continue
			}
		}
		sb.WriteByte(s[i])
	}
	return sb.String()
}
