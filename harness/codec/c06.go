package main

import (
	"errors"
	"fmt"
	"reflect"
	"sort"
	"strings"

	"github.com/PapaCharlie/go-restli/v2/restlicodec"

	"verif/mc/hcli"
	"verif/mc/ref/refjson"
	"verif/mc/ref/refror2"
	"verif/mc/report"
	"verif/mc/schema"
)

type reqReplay struct {
	Gen     string   `json:"gen"`
	Part    string   `json:"part"`
	Univ    string   `json:"universe"`
	Wrapper string   `json:"wrapper"`
	Deleted []string `json:"deleted"`
	Nulled  []string `json:"nulled,omitempty"`
	Bad     string   `json:"bad,omitempty"`
	Reader  string   `json:"reader"`
	Variant string   `json:"variant"`
}

var reqReaders = []string{"json", "ror2", "query", "untyped"}

type docVariant struct {
	name string
	json *refjson.Options
	ror2 *refror2.Options
}

func reqVariants() []docVariant {
	vs := []docVariant{
		{"canonical", &refjson.Options{}, &refror2.Options{}},
		{"reverse-keys", &refjson.Options{KeyOrder: reverse}, &refror2.Options{KeyOrder: reverse}},
		{"rotate-keys", &refjson.Options{KeyOrder: rotate}, &refror2.Options{KeyOrder: rotate}},
	}
	for _, pos := range []int{0, 1, -1} {
		vs = append(vs,
			docVariant{fmt.Sprintf("extra-prim@%d", pos), &refjson.Options{Extra: &refjson.ExtraField{Name: "xx", Value: `7`, Pos: pos}}, &refror2.Options{Extra: &refror2.ExtraField{Name: "xx", Value: "7", Pos: pos}}},
			docVariant{fmt.Sprintf("extra-obj@%d", pos), &refjson.Options{Extra: &refjson.ExtraField{Name: "xx", Value: `{"a":{"b":[1,{"c":"d"}]},"e":[]}`, Pos: pos}}, &refror2.Options{Extra: &refror2.ExtraField{Name: "xx", Value: "(a:(b:List(1,(c:d))),e:List())", Pos: pos}}},
			docVariant{fmt.Sprintf("extra-arr@%d", pos), &refjson.Options{Extra: &refjson.ExtraField{Name: "xx", Value: `[1,[2,[3]],{"k":"v"}]`, Pos: pos}}, &refror2.Options{Extra: &refror2.ExtraField{Name: "xx", Value: "List(1,List(2,List(3)),(k:v))", Pos: pos}}})
	}
	return vs
}

// decodeDoc decodes the document denoting v (which may lack required fields) with the given reader.
func decodeDoc(reader string, v *schema.V, vr docVariant) (dec reflect.Value, doc string, err error) {
	err = safeCall(func() error {
		var r restlicodec.Reader
		var e error
		switch reader {
		case "json":
			doc = refjson.Encode(v, vr.json)
			r, e = restlicodec.NewJsonReader([]byte(doc))
		case "ror2":
			doc = refror2.Encode(v, refror2.Header, vr.ror2)
			r, e = restlicodec.NewRor2Reader(doc)
		case "query":
			// the record is parameter p of a request that also carries parameter z and lacks the
			// required parameter q2: one error must name q2 together with what is missing inside p
			doc = "p=" + refror2.Encode(v, refror2.Query, vr.ror2) + "&z=5"
			q, e2 := restlicodec.ParseQueryParams(doc)
			if e2 != nil {
				return e2
			}
			rt := Reg[v.T.Name]
			ptr := reflect.New(rt)
			dec = ptr
			return queryReadRecord(q, []string{"p", "q2", "z"}, func(rd restlicodec.Reader, field string) error {
				switch field {
				case "p":
					return ptr.Interface().(restlicodec.Unmarshaler).UnmarshalRestLi(rd)
				case "z":
					_, e := rd.ReadInt32()
					return e
				}
				return rd.Skip()
			})
		case "untyped":
			if vr.name != "canonical" {
				return errSkip
			}
			doc = fmt.Sprintf("%v", untyped(v))
			r = restlicodec.NewInterfaceReader(untyped(v))
		}
		if e != nil {
			return e
		}
		dec, e = decodeInto(v.T, r)
		return e
	})
	return
}

var errSkip = errors.New("skip")

// covers: every field / element present in want is present and equal in got (got may hold
// more: zero values of missing required fields, defaults).
func covers(got, want *schema.V) bool {
	if want == nil {
		return true
	}
	if got == nil {
		return false
	}
	switch want.T.Base().Kind {
	case schema.Record:
		for k, wf := range want.Fields {
			if !covers(got.Fields[k], wf) {
				return false
			}
		}
		return true
	case schema.Union:
		return got.Alias == want.Alias && covers(got.Mem, want.Mem)
	case schema.Array:
		if len(got.Items) != len(want.Items) {
			return false
		}
		for i := range want.Items {
			if !covers(got.Items[i], want.Items[i]) {
				return false
			}
		}
		return true
	case schema.Map:
		if len(got.Ent) != len(want.Ent) {
			return false
		}
		for k, we := range want.Ent {
			if !covers(got.Ent[k], we) {
				return false
			}
		}
		return true
	}
	return schema.Equal(got, want)
}

// checkRequired runs one document. deleted / nulled are positions of the rich value.
func checkRequired(rich *schema.V, deleted, nulled []schema.Pos, reader string, vr docVariant) (kind, detail string) {
	v := rich
	// delete deeper positions first so that shallower edits still find their target
	all := append(append([]schema.Pos{}, deleted...), nulled...)
	sort.SliceStable(all, func(i, j int) bool { return len(all[i].Path) > len(all[j].Path) })
	isNull := map[string]bool{}
	for _, p := range nulled {
		isNull[p.String()] = true
	}
	for _, p := range all {
		var n *schema.V
		if isNull[p.String()] {
			n = schema.Edit(v, p, func(old *schema.V) *schema.V { return &schema.V{T: old.T, Null: true} })
		} else {
			n = schema.Edit(v, p, func(*schema.V) *schema.V { return nil })
		}
		if n != nil {
			v = n
		}
	}
	// expected missing set: required positions that are absent / null while their parent exists
	var want []string
	for _, p := range all {
		if p.Field.Optional || p.Field.Default != nil {
			continue
		}
		parentGone := false
		for _, q := range all {
			if q.String() != p.String() && strings.HasPrefix(p.String(), q.String()) &&
				(len(p.String()) > len(q.String()) && (p.String()[len(q.String())] == '.' || p.String()[len(q.String())] == '[')) {
				parentGone = true
			}
		}
		if !parentGone {
			want = append(want, p.String())
		}
	}
	if reader == "query" {
		for i := range want {
			want[i] = "p." + want[i]
		}
		want = append(want, "q2")
	}
	sort.Strings(want)
	// the value the present fields denote (nulls are absent)
	present := stripNull(v)
	dec, doc, err := decodeDoc(reader, v, vr)
	if err == errSkip {
		return "skip", ""
	}
	var got []string
	if err != nil {
		var mf *restlicodec.MissingRequiredFieldsError
		if !errors.As(err, &mf) {
			k := "other-error"
			if isPanic(err) {
				k = "panic"
			}
			return k, fmt.Sprintf("document %s: %v (expected missing set %v)", doc, err, want)
		}
		got = append([]string{}, mf.Fields...)
		if len(got) == 0 {
			return "empty-missing-error", fmt.Sprintf("document %s: missing-fields error with no field", doc)
		}
		if !sort.StringsAreSorted(got) {
			return "unsorted-missing-set", fmt.Sprintf("document %s: Fields %v not sorted", doc, got)
		}
	}
	if strings.Join(got, "|") != strings.Join(want, "|") {
		k := "wrong-missing-set"
		if len(got) == 0 {
			k = "missing-not-reported"
		} else if len(want) == 0 {
			k = "spurious-missing"
		}
		return k, fmt.Sprintf("document %s: reported missing %v, expected %v", doc, got, want)
	}
	gv, err := fromGo(dec, rich.T)
	if err != nil {
		return "decode-shape", err.Error()
	}
	if !covers(gv, present) {
		return "present-field-lost", fmt.Sprintf("document %s: decoded %s does not hold every present field of %s", doc, gv, present)
	}
	if len(want) == 0 {
		if w := refjson.Fill(present); !schema.Equal(gv, w) {
			return "altered", fmt.Sprintf("document %s: decoded %s want %s", doc, gv, w)
		}
	}
	return "", ""
}

func stripNull(v *schema.V) *schema.V {
	if v == nil || v.Null {
		return nil
	}
	c := v.Clone()
	switch v.T.Base().Kind {
	case schema.Record:
		for k, f := range v.Fields {
			if s := stripNull(f); s == nil {
				delete(c.Fields, k)
			} else {
				c.Fields[k] = s
			}
		}
	case schema.Union:
		c.Mem = stripNull(v.Mem)
	case schema.Array:
		for i, it := range v.Items {
			c.Items[i] = stripNull(it)
		}
	case schema.Map:
		for k, e := range v.Ent {
			c.Ent[k] = stripNull(e)
		}
	}
	return c
}

func subsetsOf(n, maxAll, maxSize int, visit func(idx []int)) {
	if n <= maxAll {
		for mask := 0; mask < 1<<uint(n); mask++ {
			var idx []int
			for i := 0; i < n; i++ {
				if mask&(1<<uint(i)) != 0 {
					idx = append(idx, i)
				}
			}
			visit(idx)
		}
		return
	}
	var rec func(start int, cur []int)
	rec = func(start int, cur []int) {
		visit(append([]int{}, cur...))
		if len(cur) == maxSize {
			return
		}
		for i := start; i < n; i++ {
			rec(i+1, append(cur, i))
		}
	}
	rec(0, nil)
}

func hasNestedRecord(t *schema.Type, depth int) bool {
	switch t.Kind {
	case schema.Record:
		if depth > 0 {
			return true
		}
		for _, f := range t.AllFields() {
			if hasNestedRecord(f.Type, depth+1) {
				return true
			}
		}
		return len(t.Includes) > 0
	case schema.Union:
		for _, m := range t.Members {
			if hasNestedRecord(m.Type, depth+1) {
				return true
			}
		}
	case schema.Array, schema.Map:
		return hasNestedRecord(t.Elem, depth)
	}
	return false
}

func partC06(a *hcli.Args, rep *report.Report, univName string, u *schema.Universe) {
	s := rep.S("required-fields")
	s.Bounds = fmt.Sprintf("universe=%s: per schema the rich value (all fields set, 2 items / entries per container); every subset of record-field positions deleted (all 2^n for n<=8, else every subset of size<=3; thorough n<=10 / size<=4) x {deleted, JSON null} x readers %v x document variants (key orders, unknown fields of 3 shapes at 3 positions)", univName, reqReaders)
	sb := rep.S("malformed-leaf-scope")
	maxAll, maxSize := 8, 3
	if a.Thorough() {
		maxAll, maxSize = 10, 4
	}
	variants := reqVariants()
	item := 0
	for _, w := range u.Wrappers {
		flat := !hasNestedRecord(w, 0)
		if flat && !(strings.HasSuffix(w.Name, "String") || strings.HasSuffix(w.Name, "Int32") || strings.HasSuffix(w.Name, "E3")) {
			continue // flat wrappers all look alike for this property: keep three representatives
		}
		item++
		if !a.Mine(item) {
			continue
		}
		if a.Expired() {
			s.Exhaustive = false
			rep.Cap("C06: internal deadline")
			break
		}
		rich := schema.Rich(w)
		pos := schema.Positions(rich)
		s.States++
		subsetsOf(len(pos), maxAll, maxSize, func(idx []int) {
			var del []schema.Pos
			var names []string
			for _, i := range idx {
				del = append(del, pos[i])
				names = append(names, pos[i].String())
			}
			for _, rd := range reqReaders {
				for vi, vr := range variants {
					if vi > 0 && len(idx) > 2 {
						continue // variants are combined with deletion subsets of size <= 2
					}
					kind, detail := checkRequired(rich, del, nil, rd, vr)
					if kind == "skip" {
						continue
					}
					s.Evaluations++
					s.Transitions++
					s.Traces++
					if kind != "" {
						vn := strings.SplitN(vr.name, "@", 2)[0]
						rep.Fail(fmt.Sprintf("%s req %s %s %s variant=%s deleted=%s", a.Gen, rd, kind, w.Name, vn, sigPositions(del)),
							fmt.Sprintf("type %s reader %s variant %s deleted %v: %s", w.Name, rd, vr.name, names, detail),
							reqReplay{Gen: a.Gen, Part: "C06", Univ: univName, Wrapper: w.Name, Deleted: names, Reader: rd, Variant: vr.name})
						s.Class("fail:" + kind)
					} else {
						s.Class(fmt.Sprintf("ok:%s:%d-deleted", rd, min(len(idx), 3)))
					}
				}
			}
			// JSON null instead of deletion (subsets of size <= 2)
			if len(idx) >= 1 && len(idx) <= 2 {
				kind, detail := checkRequired(rich, nil, del, "json", variants[0])
				s.Evaluations++
				s.Transitions++
				s.Traces++
				if kind != "" {
					rep.Fail(fmt.Sprintf("%s req json-null %s %s nulled=%s", a.Gen, kind, w.Name, sigPositions(del)),
						fmt.Sprintf("type %s nulled %v: %s", w.Name, names, detail),
						reqReplay{Gen: a.Gen, Part: "C06", Univ: univName, Wrapper: w.Name, Nulled: names, Reader: "json", Variant: "canonical"})
					s.Class("fail:null:" + kind)
				} else {
					s.Class("ok:json-null")
				}
				// the untyped tree's nil is the same null
				kind, detail = checkRequired(rich, nil, del, "untyped", variants[0])
				s.Evaluations++
				s.Transitions++
				s.Traces++
				if kind != "" {
					rep.Fail(fmt.Sprintf("%s req untyped-null %s %s nulled=%s", a.Gen, kind, w.Name, sigPositions(del)),
						fmt.Sprintf("type %s nulled %v: %s", w.Name, names, detail),
						reqReplay{Gen: a.Gen, Part: "C06", Univ: univName, Wrapper: w.Name, Nulled: names, Reader: "untyped", Variant: "canonical"})
					s.Class("fail:null:" + kind)
				} else {
					s.Class("ok:untyped-null")
				}
			}
		})
		// malformed leaves: the error must carry the leaf's path
		for _, p := range pos {
			k := p.Field.Type.Base().Kind
			if !(k == schema.Int32 || k == schema.Int64 || k == schema.Bool || k == schema.Float64) {
				continue
			}
			bad := schema.Edit(rich, p, func(old *schema.V) *schema.V { return &schema.V{T: old.T, Bad: true} })
			for _, rd := range []string{"json", "ror2", "query"} {
				_, doc, err := decodeDoc(rd, bad, variants[0])
				sb.Evaluations++
				sb.Transitions++
				sb.Traces++
				sb.States++
				want := p.String()
				if rd == "query" {
					want = "p." + want
				}
				var de *restlicodec.DeserializationError
				switch {
				case err == nil:
					rep.Fail(fmt.Sprintf("%s req malformed-leaf accepted %s %s %s", a.Gen, rd, w.Name, p.Field.Type), fmt.Sprintf("document %s decoded without error", doc), nil)
					sb.Class("fail:accepted")
				case isPanic(err):
					rep.Fail(fmt.Sprintf("%s req malformed-leaf panic %s %s", a.Gen, rd, w.Name), fmt.Sprintf("document %s: %v", doc, err), nil)
					sb.Class("fail:panic")
				case !errors.As(err, &de):
					rep.Fail(fmt.Sprintf("%s req malformed-leaf untyped-error %s %s", a.Gen, rd, p.Field.Type), fmt.Sprintf("document %s: %T %v", doc, err, err), nil)
					sb.Class("fail:untyped-error")
				case de.Scope != want:
					rep.Fail(fmt.Sprintf("%s req malformed-leaf wrong-scope %s %s %s", a.Gen, rd, w.Name, pathShape(want)),
						fmt.Sprintf("document %s: DeserializationError.Scope = %q, the malformed leaf is at %q", doc, de.Scope, want), nil)
					sb.Class("fail:wrong-scope")
				default:
					sb.Class("ok:" + rd)
				}
			}
		}
		if item%5 == 1 {
			rep.Sample(map[string]interface{}{"type": w.Name, "rich_value": rich.String(), "positions": len(pos), "example_position": pos[len(pos)-1].String()})
		}
	}
}

func min(a, b int) int {
	if a < b {
		return a
	}
	return b
}

// sigPositions abstracts array indices / map keys so that one defect has one signature per shape.
func sigPositions(ps []schema.Pos) string {
	var out []string
	for _, p := range ps {
		out = append(out, pathShape(p.String()))
	}
	sort.Strings(out)
	if len(out) > 2 {
		out = append(out[:2], fmt.Sprintf("+%d", len(out)-2))
	}
	return strings.Join(out, "+")
}

func pathShape(s string) string {
	s = strings.NewReplacer("[0]", "[i]", "[1]", "[i]", ".k1", ".<key>", ".k2", ".<key>").Replace(s)
	return s
}
