package main

import (
	"fmt"
	"reflect"
	"strings"

	"verif/mc/hcli"
	"verif/mc/ref/refjson"
	"verif/mc/report"
	"verif/mc/schema"
)

type rtReplay struct {
	Gen     string `json:"gen"`
	Part    string `json:"part"`
	Univ    string `json:"universe"`
	Wrapper string `json:"wrapper"`
	Dev     string `json:"dev"`
	Dev2    string `json:"dev2,omitempty"`
	Format  string `json:"format"`
}

// roundTrip runs one C01 case; kind "" = held.
func roundTrip(v *schema.V, format string) (kind, detail string) {
	ptr, err := goValue(v)
	if err != nil {
		report.Internal("bridge cannot build %s: %v", v, err)
	}
	back, err := fromGo(ptr, v.T)
	if err != nil || !schema.Equal(back, v) {
		report.Internal("bridge identity failed for %s: got %s (%v)", v, back, err)
	}
	var enc string
	err = safeCall(func() (e error) { enc, e = encode(format, asMarshaler(ptr)); return })
	if err != nil {
		if isPanic(err) {
			return "encode-panic", err.Error()
		}
		return "encode-error", err.Error()
	}
	var dec reflect.Value
	err = safeCall(func() error {
		r, e := newReader(format, enc)
		if e != nil {
			return e
		}
		dec, e = decodeInto(v.T, r)
		return e
	})
	if err != nil {
		if isPanic(err) {
			return "decode-panic", fmt.Sprintf("encoded %q: %v", enc, err)
		}
		return "decode-error", fmt.Sprintf("encoded %q: %v", enc, err)
	}
	got, err := fromGo(dec, v.T)
	if err != nil {
		return "decode-shape", err.Error()
	}
	want := refjson.Fill(v)
	if !schema.Equal(got, want) {
		if md, ok := schema.MissingDefaults(got, want); ok {
			return "default-not-filled " + strings.Join(md, ","), fmt.Sprintf("encoded %q\n decoded %s\n want    %s", enc, got, want)
		}
		return "altered", fmt.Sprintf("encoded %q\n decoded %s\n want    %s", enc, got, want)
	}
	if !want.HasNaN() {
		wptr, err := goValue(want)
		if err != nil {
			report.Internal("bridge cannot build %s: %v", want, err)
		}
		eq, err := callEquals(wptr, dec)
		if err != nil {
			return "equals-panic", err.Error()
		}
		if !eq {
			return "equals-false", fmt.Sprintf("encoded %q: the type's own Equals(original, decoded) is false although structurally equal (%s)", enc, got)
		}
	}
	return "", ""
}

func partC01(a *hcli.Args, rep *report.Report, univName string, u *schema.Universe) {
	s1 := rep.S("roundtrip-dev1")
	s1.Bounds = fmt.Sprintf("universe=%s wrappers=%d formats=%v deviation<=1 over the full alphabets", univName, len(u.Wrappers), Formats)
	for wi, w := range u.Wrappers {
		if !a.Mine(wi) {
			continue
		}
		if a.Expired() {
			s1.Exhaustive = false
			rep.Cap("roundtrip-dev1: internal deadline")
			break
		}
		alpha := schema.Alphabet(w, false)
		s1.States += int64(len(alpha))
		for _, v := range alpha {
			for _, f := range Formats {
				kind, detail := roundTrip(v, f)
				s1.Evaluations++
				s1.Transitions += 2
				s1.Traces++
				if strings.HasPrefix(kind, "default-not-filled") {
					rep.Fail(fmt.Sprintf("%s rt %s", a.Gen, kind),
						fmt.Sprintf("type %s value %s format %s: %s", w.Name, v, f, detail), rtReplay{a.Gen, "C01", univName, w.Name, v.Dev, "", f})
					s1.Class("fail:default-not-filled")
				} else if kind != "" {
					rep.Fail(fmt.Sprintf("%s rt %s %s %s", a.Gen, f, kind, leaf(v.Dev)),
						fmt.Sprintf("type %s value %s (deviation %s) format %s: %s", w.Name, v, v.Dev, f, detail),
						rtReplay{a.Gen, "C01", univName, w.Name, v.Dev, "", f})
					s1.Class("fail:" + kind)
				} else {
					s1.Class("ok:" + f)
				}
			}
		}
		if wi%7 == 0 {
			v := alpha[len(alpha)/2]
			enc, _ := encode("header", asMarshalerOf(v))
			rep.Sample(map[string]interface{}{"type": w.Name, "value": v.String(), "deviation": v.Dev, "header_encoding": enc})
		}
	}
	if !a.Thorough() {
		return
	}
	s2 := rep.S("roundtrip-dev2")
	s2.Bounds = "pairs of field deviations from the reduced alphabets, all wrappers, all formats"
	for wi, w := range u.Wrappers {
		if !a.Mine(wi) {
			continue
		}
		if a.Expired() {
			s2.Exhaustive = false
			rep.Cap("roundtrip-dev2: internal deadline")
			break
		}
		fields := w.AllFields()
		base := schema.Base(w)
		for i := 0; i < len(fields); i++ {
			ai := schema.FieldAlphabet(fields[i], true)
			for j := i + 1; j < len(fields); j++ {
				aj := schema.FieldAlphabet(fields[j], true)
				for x := 1; x < len(ai); x++ {
					for y := 1; y < len(aj); y++ {
						v := base.With(fields[i].Name, ai[x]).With(fields[j].Name, aj[y])
						d1, d2 := devOf(fields[i].Name, ai[x]), devOf(fields[j].Name, aj[y])
						s2.States++
						for _, f := range Formats {
							kind, detail := roundTrip(v, f)
							s2.Evaluations++
							s2.Transitions += 2
							s2.Traces++
							if strings.HasPrefix(kind, "default-not-filled") {
								rep.Fail(fmt.Sprintf("%s rt %s", a.Gen, kind),
									fmt.Sprintf("type %s value %s format %s: %s", w.Name, v, f, detail), rtReplay{a.Gen, "C01", univName, w.Name, d1, d2, f})
								s2.Class("fail:default-not-filled")
							} else if kind != "" {
								rep.Fail(fmt.Sprintf("%s rt %s %s %s + %s", a.Gen, f, kind, leaf(d1), leaf(d2)),
									fmt.Sprintf("type %s value %s (deviations %s, %s) format %s: %s", w.Name, v, d1, d2, f, detail),
									rtReplay{a.Gen, "C01", univName, w.Name, d1, d2, f})
								s2.Class("fail:" + kind)
							} else {
								s2.Class("ok:" + f)
							}
						}
					}
				}
			}
		}
	}
}

func devOf(field string, v *schema.V) string {
	if v == nil {
		return field + ".unset"
	}
	return field + "." + v.Dev
}

func asMarshalerOf(v *schema.V) interface {
	MarshalRestLi(w writerT) error
} {
	ptr, err := goValue(v)
	if err != nil {
		report.Internal("bridge: %v", err)
	}
	return asMarshaler(ptr)
}

// findCase locates a deviation-1 / deviation-2 case by its labels (replay).
func findCase(u *schema.Universe, wrapper, dev, dev2 string) *schema.V {
	w := u.ByName[wrapper]
	if w == nil {
		report.Internal("no wrapper %s", wrapper)
	}
	if dev2 == "" {
		for _, v := range schema.Alphabet(w, false) {
			if v.Dev == dev {
				return v
			}
		}
		report.Internal("no case %s / %s", wrapper, dev)
	}
	fields := w.AllFields()
	base := schema.Base(w)
	for i := 0; i < len(fields); i++ {
		for j := i + 1; j < len(fields); j++ {
			for _, x := range schema.FieldAlphabet(fields[i], true)[1:] {
				if devOf(fields[i].Name, x) != dev {
					continue
				}
				for _, y := range schema.FieldAlphabet(fields[j], true)[1:] {
					if devOf(fields[j].Name, y) == dev2 {
						return base.With(fields[i].Name, x).With(fields[j].Name, y)
					}
				}
			}
		}
	}
	report.Internal("no case %s / %s + %s", wrapper, dev, dev2)
	return nil
}
