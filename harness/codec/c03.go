package main

import (
	"fmt"
	"reflect"
	"strings"

	"verif/mc/hcli"
	"verif/mc/ref/refjson"
	"verif/mc/ref/refror2"
	"verif/mc/report"
	"verif/mc/schema"
)

type confReplay struct {
	Gen     string `json:"gen"`
	Part    string `json:"part"`
	Univ    string `json:"universe"`
	Dir     string `json:"dir"` // lib2ref | ref2lib
	Wrapper string `json:"wrapper"`
	Dev     string `json:"dev"`
	Reduced bool   `json:"reduced"`
	Format  string `json:"format"`
	Variant string `json:"variant,omitempty"`
	Doc     string `json:"doc,omitempty"`
}

func ctxOf(format string) refror2.Ctx {
	switch format {
	case "header":
		return refror2.Header
	case "path":
		return refror2.Path
	}
	return refror2.Query
}

// libToRef: the library's output must be well-formed and denote exactly v under the reference decoder.
func libToRef(v *schema.V, format string) (kind, detail string) {
	ptr, err := goValue(v)
	if err != nil {
		report.Internal("bridge: %v", err)
	}
	var enc string
	err = safeCall(func() (e error) { enc, e = encode(format, asMarshaler(ptr)); return })
	if err != nil {
		return "encode-error", err.Error()
	}
	var got *schema.V
	switch format {
	case "json", "pretty":
		got, err = refjson.DecodeText(v.T, enc, true)
	default:
		text := enc
		if format == "query" {
			text = strings.TrimPrefix(enc, "p=")
		}
		got, err = refror2.DecodeText(v.T, text, ctxOf(format))
	}
	if err != nil {
		return "nonconforming", fmt.Sprintf("library output %q is rejected by the reference decoder: %v", enc, err)
	}
	if !schema.Equal(got, v) {
		return "denotes-other", fmt.Sprintf("library output %q denotes %s, not %s", enc, got, v)
	}
	return "", ""
}

// refToLib: a conforming document denoting v must be accepted by the library and yield v.
func refToLib(v *schema.V, format, doc string) (kind, detail string) {
	var dec reflect.Value
	data := doc
	if format == "query" {
		data = "p=" + doc
	}
	err := safeCall(func() error {
		r, e := newReader(format, data)
		if e != nil {
			return e
		}
		dec, e = decodeInto(v.T, r)
		return e
	})
	if err != nil {
		if isPanic(err) {
			return "reject-panic", fmt.Sprintf("conforming document %q: %v", doc, err)
		}
		return "rejected", fmt.Sprintf("conforming document %q: %v", doc, err)
	}
	got, err := fromGo(dec, v.T)
	if err != nil {
		return "decode-shape", err.Error()
	}
	want := refjson.Fill(v)
	if !schema.Equal(got, want) {
		if md, ok := schema.MissingDefaults(got, want); ok {
			return "default-not-filled " + strings.Join(md, ","), fmt.Sprintf("document %q decoded %s want %s", doc, got, want)
		}
		return "misread", fmt.Sprintf("conforming document %q\n decoded %s\n want    %s", doc, got, want)
	}
	return "", ""
}

func perms(keys []string) [][]string {
	n := len(keys)
	if n <= 1 {
		return [][]string{append([]string{}, keys...)}
	}
	if n > 4 {
		// rotations and the reversal
		var out [][]string
		for r := 0; r < n; r++ {
			p := append(append([]string{}, keys[r:]...), keys[:r]...)
			out = append(out, p)
		}
		rev := make([]string, n)
		for i, k := range keys {
			rev[n-1-i] = k
		}
		return append(out, rev)
	}
	var out [][]string
	var rec func(k int)
	p := append([]string{}, keys...)
	rec = func(k int) {
		if k == n {
			out = append(out, append([]string{}, p...))
			return
		}
		for i := k; i < n; i++ {
			p[k], p[i] = p[i], p[k]
			rec(k + 1)
			p[k], p[i] = p[i], p[k]
		}
	}
	rec(0)
	return out
}

// orderings returns key-order functions: identity, reverse, rotate-by-one, sorted-descending ...
// applied uniformly to every object of the document; plus, for the top-level record, every
// permutation of its present keys (<= 4 keys; rotations + reversal beyond).
type variant struct {
	name string
	json *refjson.Options
	ror2 *refror2.Options
}

func reverse(keys []string) []string {
	out := make([]string, len(keys))
	for i, k := range keys {
		out[len(keys)-1-i] = k
	}
	return out
}

func rotate(keys []string) []string {
	if len(keys) < 2 {
		return keys
	}
	return append(append([]string{}, keys[1:]...), keys[0])
}

func variantsFor(v *schema.V) []variant {
	vs := []variant{
		{"canonical", &refjson.Options{}, &refror2.Options{}},
		{"reverse-keys", &refjson.Options{KeyOrder: reverse}, &refror2.Options{KeyOrder: reverse}},
		{"rotate-keys", &refjson.Options{KeyOrder: rotate}, &refror2.Options{KeyOrder: rotate}},
		{"spaces", &refjson.Options{Spaces: true}, nil},
		{"alt-escapes", &refjson.Options{AltEscapes: true}, &refror2.Options{LowerHex: true}},
		{"escape-more", nil, &refror2.Options{EscapeMore: true}},
		{"plus-space", nil, &refror2.Options{PlusSpace: true}},
	}
	for _, pos := range []int{0, 1, -1} {
		for _, ex := range []struct{ n, v, r string }{{"xprim", `42`, "42"}, {"xstr", `"s"`, "s"}, {"xobj", `{"a":{"b":[1,{"c":null}]},"d":"e"}`, "(a:(b:List(1,(c:d))),d:e)"},
			{"xarr", `[1,[2,[3]],{"k":"v"}]`, "List(1,List(2,List(3)),(k:v))"}, {"xnull", `null`, ""}, {"xempty", `{}`, "()"}, {"xemptyarr", `[]`, "List()"}, {"xemptystr", `""`, "''"}} {
			var ro *refror2.Options
			if ex.r != "" {
				ro = &refror2.Options{Extra: &refror2.ExtraField{Name: ex.n, Value: ex.r, Pos: pos}}
			}
			vs = append(vs, variant{fmt.Sprintf("extra-%s@%d", ex.n, pos), &refjson.Options{Extra: &refjson.ExtraField{Name: ex.n, Value: ex.v, Pos: pos}}, ro})
		}
	}
	// all permutations of the top-level record's present keys
	if v.T.Kind == schema.Record {
		var keys []string
		for _, f := range v.T.AllFields() {
			if v.Fields[f.Name] != nil {
				keys = append(keys, f.Name)
			}
		}
		for pi, p := range perms(keys) {
			if pi == 0 {
				continue
			}
			perm := p
			order := func(ks []string) []string {
				if len(ks) == len(perm) {
					same := true
					set := map[string]bool{}
					for _, k := range ks {
						set[k] = true
					}
					for _, k := range perm {
						if !set[k] {
							same = false
						}
					}
					if same {
						return perm
					}
				}
				return ks
			}
			vs = append(vs, variant{"perm-" + strings.Join(p, ""), &refjson.Options{KeyOrder: order}, &refror2.Options{KeyOrder: order}})
		}
	}
	return vs
}

func partC03(a *hcli.Args, rep *report.Report, univName string, u *schema.Universe) {
	s1 := rep.S("lib-to-ref")
	s1.Bounds = fmt.Sprintf("universe=%s: every deviation<=1 value x 5 formats, library output judged by the reference decoders", univName)
	s2 := rep.S("ref-to-lib-canonical")
	s2.Bounds = "reference encoding of every deviation<=1 value x 4 reader flavours (json, header, path, query) fed to the library"
	s3 := rep.S("ref-to-lib-variants")
	s3.Bounds = "every deviation<=1 value over the reduced alphabets x document variants (key permutations, unknown fields at 3 positions x 8 shapes in JSON and ROR2, whitespace, alternative escapes, lower-case hex, over-escaping, + for space)"
	for wi, w := range u.Wrappers {
		if !a.Mine(wi) {
			continue
		}
		if a.Expired() {
			s1.Exhaustive, s2.Exhaustive, s3.Exhaustive = false, false, false
			rep.Cap("C03: internal deadline")
			break
		}
		alpha := schema.Alphabet(w, false)
		s1.States += int64(len(alpha))
		for _, v := range alpha {
			for _, f := range Formats {
				kind, detail := libToRef(v, f)
				s1.Evaluations++
				s1.Transitions++
				s1.Traces++
				if kind != "" {
					rep.Fail(fmt.Sprintf("%s conf lib2ref %s %s %s", a.Gen, f, kind, leaf(v.Dev)),
						fmt.Sprintf("type %s value %s (deviation %s) format %s: %s", w.Name, v, v.Dev, f, detail),
						confReplay{Gen: a.Gen, Part: "C03", Univ: univName, Dir: "lib2ref", Wrapper: w.Name, Dev: v.Dev, Format: f})
					s1.Class("fail:" + kind)
				} else {
					s1.Class("ok:" + f)
				}
			}
			// canonical reference documents
			docs := map[string]string{
				"json":   refjson.Encode(v, nil),
				"header": refror2.Encode(v, refror2.Header, nil),
				"path":   refror2.Encode(v, refror2.Path, nil),
				"query":  refror2.Encode(v, refror2.Query, nil),
			}
			for _, f := range []string{"json", "header", "path", "query"} {
				kind, detail := refToLib(v, f, docs[f])
				s2.Evaluations++
				s2.Transitions++
				s2.Traces++
				if kind != "" {
					rep.Fail(fmt.Sprintf("%s conf ref2lib %s %s %s", a.Gen, f, kind, leaf(v.Dev)),
						fmt.Sprintf("type %s value %s (deviation %s) format %s: %s", w.Name, v, v.Dev, f, detail),
						confReplay{Gen: a.Gen, Part: "C03", Univ: univName, Dir: "ref2lib", Wrapper: w.Name, Dev: v.Dev, Format: f, Variant: "canonical", Doc: docs[f]})
					s2.Class("fail:" + kind)
				} else {
					s2.Class("ok:" + f)
				}
			}
		}
		for _, v := range schema.Alphabet(w, true) {
			s3.States++
			canonFails := map[string]bool{}
			for _, vr := range variantsFor(v) {
				type fd struct{ f, doc string }
				var docs []fd
				if vr.json != nil {
					docs = append(docs, fd{"json", refjson.Encode(v, vr.json)})
				}
				if vr.ror2 != nil {
					docs = append(docs, fd{"header", refror2.Encode(v, refror2.Header, vr.ror2)}, fd{"path", refror2.Encode(v, refror2.Path, vr.ror2)})
					docs = append(docs, fd{"query", refror2.Encode(v, refror2.Query, vr.ror2)})
				}
				for _, d := range docs {
					if vr.name == "plus-space" && d.f != "query" {
						continue
					}
					kind, detail := refToLib(v, d.f, d.doc)
					s3.Evaluations++
					s3.Transitions++
					s3.Traces++
					if kind != "" {
						vn := vr.name
						if strings.HasPrefix(vn, "perm-") {
							vn = "perm"
						}
						if vn == "canonical" {
							canonFails[d.f] = true
						}
						if canonFails[d.f] {
							// the canonical document of this value already fails: the variant adds nothing
							rep.Fail(fmt.Sprintf("%s conf ref2lib %s %s %s", a.Gen, d.f, kind, leaf(v.Dev)),
								fmt.Sprintf("type %s value %s (deviation %s) format %s variant %s: %s", w.Name, v, v.Dev, d.f, vr.name, detail),
								confReplay{Gen: a.Gen, Part: "C03", Univ: univName, Dir: "ref2lib", Wrapper: w.Name, Dev: v.Dev, Reduced: true, Format: d.f, Variant: vr.name, Doc: d.doc})
							s3.Class("fail:" + kind)
							continue
						}
						rep.Fail(fmt.Sprintf("%s conf ref2lib %s %s variant=%s %s", a.Gen, d.f, kind, vn, leaf(v.Dev)),
							fmt.Sprintf("type %s value %s (deviation %s) format %s variant %s: %s", w.Name, v, v.Dev, d.f, vr.name, detail),
							confReplay{Gen: a.Gen, Part: "C03", Univ: univName, Dir: "ref2lib", Wrapper: w.Name, Dev: v.Dev, Reduced: true, Format: d.f, Variant: vr.name, Doc: d.doc})
						s3.Class("fail:" + kind)
					} else {
						s3.Class("ok:" + d.f + ":" + strings.SplitN(vr.name, "-", 2)[0])
					}
				}
			}
		}
		if wi%9 == 0 {
			v := alpha[len(alpha)/3]
			rep.Sample(map[string]interface{}{"type": w.Name, "value": v.String(), "reference_json": refjson.Encode(v, nil), "reference_ror2_path": refror2.Encode(v, refror2.Path, nil)})
		}
	}
}
