package main

import (
	"fmt"
	"os"
	"reflect"
	"regexp"
	"runtime/debug"
	"strings"
	"sync/atomic"
	"time"

	"github.com/PapaCharlie/go-restli/v2/restlicodec"
	"github.com/PapaCharlie/go-restli/v2/restlidata"

	"verif/mc/hcli"
	"verif/mc/ref/refjson"
	"verif/mc/ref/refror2"
	"verif/mc/report"
	"verif/mc/schema"
)

type robustReplay struct {
	Gen     string `json:"gen"`
	Part    string `json:"part"`
	Univ    string `json:"universe"`
	Entry   string `json:"entry"`
	Program string `json:"program"`
	Input   string `json:"input"`
}

// ---- reading programs: what a decoder does with a Reader ----

type program struct {
	name string
	run  func(r restlicodec.Reader) error
}

func readSmall(r restlicodec.Reader) error {
	return readRec(r, []string{"a"}, func(r restlicodec.Reader, f string) error {
		switch f {
		case "a":
			_, err := r.ReadInt32()
			return err
		case "b":
			_, err := r.ReadString()
			return err
		}
		return r.Skip()
	})
}

// steps counts callback invocations of the running program; a reader that keeps calling back without
// consuming input (a loop that never ends) is stopped and reported long before the hang watchdog.
var steps int64

type runaway struct{}

func tick() {
	steps++
	if steps > stepLimit {
		panic(runaway{})
	}
}

var stepLimit int64 = 1 << 20

func handPrograms() []program {
	str := func(r restlicodec.Reader) error { tick(); _, err := r.ReadString(); return err }
	i32 := func(r restlicodec.Reader) error { tick(); _, err := r.ReadInt32(); return err }
	return []program{
		{"ReadString", str},
		{"ReadInt32", i32},
		{"ReadInt64", func(r restlicodec.Reader) error { _, err := r.ReadInt64(); return err }},
		{"ReadBool", func(r restlicodec.Reader) error { _, err := r.ReadBool(); return err }},
		{"ReadFloat64", func(r restlicodec.Reader) error { _, err := r.ReadFloat64(); return err }},
		{"ReadBytes", func(r restlicodec.Reader) error { _, err := r.ReadBytes(); return err }},
		{"ReadMap<string>", func(r restlicodec.Reader) error {
			return r.ReadMap(func(r restlicodec.Reader, k string) error { return str(r) })
		}},
		{"ReadArray<int32>", func(r restlicodec.Reader) error { tick(); return r.ReadArray(i32) }},
		{"ReadRecord{a,b}", readSmall},
		{"ReadRecord{r:{a,b},t}", func(r restlicodec.Reader) error {
			return readRec(r, []string{"r"}, func(r restlicodec.Reader, f string) error {
				switch f {
				case "r":
					return readSmall(r)
				case "t":
					return str(r)
				}
				return r.Skip()
			})
		}},
		{"ReadInterface", func(r restlicodec.Reader) error { _, err := r.ReadInterface(); return err }},
		{"Skip", func(r restlicodec.Reader) error { tick(); return r.Skip() }},
		{"ReadRawBytes", func(r restlicodec.Reader) error { _, err := r.ReadRawBytes(); return err }},
		{"Union{a:int32|b:{a,b}}", func(r restlicodec.Reader) error {
			return r.ReadMap(func(r restlicodec.Reader, k string) error {
				switch k {
				case "a":
					return i32(r)
				case "b":
					return readSmall(r)
				}
				return nil
			})
		}},
		{"ReadMap<Array<int32>>", func(r restlicodec.Reader) error {
			return r.ReadMap(func(r restlicodec.Reader, k string) error { tick(); return r.ReadArray(i32) })
		}},
		{"ReadArray<Array<int32>>", func(r restlicodec.Reader) error {
			return r.ReadArray(func(r restlicodec.Reader) error { tick(); return r.ReadArray(i32) })
		}},
		{"ReadArray<Array<Array<int32>>>", func(r restlicodec.Reader) error {
			return r.ReadArray(func(r restlicodec.Reader) error {
				return r.ReadArray(func(r restlicodec.Reader) error { tick(); return r.ReadArray(i32) })
			})
		}},
		{"ReadMap<Map<Array<int32>>>", func(r restlicodec.Reader) error {
			return r.ReadMap(func(r restlicodec.Reader, k string) error {
				return r.ReadMap(func(r restlicodec.Reader, k string) error { tick(); return r.ReadArray(i32) })
			})
		}},
		{"ReadArray<Map<string>>", func(r restlicodec.Reader) error {
			return r.ReadArray(func(r restlicodec.Reader) error {
				return r.ReadMap(func(r restlicodec.Reader, k string) error { return str(r) })
			})
		}},
		{"RawRecord", func(r restlicodec.Reader) error { var rr restlidata.RawRecord; return rr.UnmarshalRestLi(r) }},
		{"ReadArray<Skip>", func(r restlicodec.Reader) error {
			return r.ReadArray(func(r restlicodec.Reader) error { tick(); return r.Skip() })
		}},
		{"ReadMap<RawBytes>", func(r restlicodec.Reader) error {
			return r.ReadMap(func(r restlicodec.Reader, k string) error { _, err := r.ReadRawBytes(); return err })
		}},
	}
}

// generatedPrograms: the generated unmarshalers of a few representative types.
func generatedPrograms(u *schema.Universe) []program {
	var out []program
	for _, n := range []string{"RecSmall", "USmall", "UNull", "RARecSmall", "RMAString", "RTop", "RFx2", "RE3", "RMUAllNull"} {
		t := u.ByName[n]
		if t == nil || Reg[n] == nil {
			continue
		}
		tt := t
		out = append(out, program{"gen:" + n, func(r restlicodec.Reader) error { _, err := decodeInto(tt, r); return err }})
	}
	return out
}

var siteRe = regexp.MustCompile(`(restlicodec|restlidata|restli|fnv1a|gen/[a-z]+)/[A-Za-z0-9_.]+\.go:\d+`)

// panicSite finds the first library frame of the current panic.
func panicSite(stack string) string {
	lines := strings.Split(stack, "\n")
	seenPanic := false
	for _, l := range lines {
		if strings.Contains(l, "panic(") || strings.Contains(l, "runtime.goPanic") || strings.Contains(l, "runtime.panic") {
			seenPanic = true
			continue
		}
		if !seenPanic {
			continue
		}
		if m := siteRe.FindString(l); m != "" && !strings.Contains(l, "verifharness/c04") {
			return m
		}
	}
	return "unknown-site"
}

var progress int64
var current atomic.Value

// runProgram runs one program on one reader; returns "" or a failure kind + site.
func runProgram(mk func() (restlicodec.Reader, error), p program) (kind, site, detail string) {
	atomic.AddInt64(&progress, 1)
	steps = 0
	defer func() {
		if r := recover(); r != nil {
			if _, ok := r.(runaway); ok {
				kind, site, detail = "runaway-loop", "callbacks", fmt.Sprintf("the reader invoked its callbacks more than %d times on this finite input", stepLimit)
				return
			}
			st := string(debug.Stack())
			kind, site, detail = "panic", panicSite(st), fmt.Sprint(r)
		}
	}()
	r, err := mk()
	if err != nil || r == nil {
		return "", "", ""
	}
	_ = p.run(r)
	return "", "", ""
}

type entry struct {
	name string
	mk   func(s string) func() (restlicodec.Reader, error)
}

func ror2Entries() []entry {
	return []entry{
		{"NewRor2Reader", func(s string) func() (restlicodec.Reader, error) {
			return func() (restlicodec.Reader, error) { return restlicodec.NewRor2Reader(s) }
		}},
		{"ParseQueryParams[p]", func(s string) func() (restlicodec.Reader, error) {
			return func() (restlicodec.Reader, error) {
				q, err := restlicodec.ParseQueryParams("p=" + s)
				if err != nil {
					return nil, err
				}
				if r, ok := q["p"]; ok {
					return r, nil
				}
				return nil, nil
			}
		}},
	}
}

func jsonEntry() entry {
	return entry{"NewJsonReader", func(s string) func() (restlicodec.Reader, error) {
		return func() (restlicodec.Reader, error) { return restlicodec.NewJsonReader([]byte(s)) }
	}}
}

func enumStrings(alpha []string, maxLen int, shard, shards int, visit func(s string) bool) {
	var rec func(cur string, n int) bool
	idx := 0
	rec = func(cur string, n int) bool {
		if !visit(cur) {
			return false
		}
		if n == maxLen {
			return true
		}
		for _, a := range alpha {
			if n == 1 { // shard on the first two symbols
				idx++
				if idx%shards != shard {
					continue
				}
			}
			if !rec(cur+a, n+1) {
				return false
			}
		}
		return true
	}
	// length-0 and length-1 strings are visited by shard 0 only
	if shard == 0 {
		visit("")
	}
	for _, a := range alpha {
		if shard == 0 {
			if !visit(a) {
				return
			}
		}
		for _, b := range alpha {
			idx++
			if idx%shards != shard {
				continue
			}
			if !recFrom(a+b, 2, maxLen, alpha, visit) {
				return
			}
		}
	}
}

func recFrom(cur string, n, maxLen int, alpha []string, visit func(string) bool) bool {
	if n > maxLen {
		return true
	}
	if !visit(cur) {
		return false
	}
	if n == maxLen {
		return true
	}
	for _, a := range alpha {
		if !recFrom(cur+a, n+1, maxLen, alpha, visit) {
			return false
		}
	}
	return true
}

func partC04(a *hcli.Args, rep *report.Report, univName string, u *schema.Universe) {
	// watchdog: a decoder that stops making progress is a hang
	go func() {
		last := int64(-1)
		for {
			time.Sleep(90 * time.Second)
			now := atomic.LoadInt64(&progress)
			if now == last {
				cur, _ := current.Load().(string)
				rep.Fail(fmt.Sprintf("%s robust hang", a.Gen), "no progress for 90 s while processing: "+cur, nil)
				rep.Cap("aborted by the hang watchdog")
				rep.Write(a.Out)
				os.Exit(0)
			}
			last = now
		}
	}()
	progs := append(handPrograms(), generatedPrograms(u)...)
	fail := func(s *report.Sub, sub, entryName string, p program, input, kind, site, detail string) {
		rep.Fail(fmt.Sprintf("%s robust %s %s %s at %s", a.Gen, sub, entryName, kind, site),
			fmt.Sprintf("entry %s program %s input %q: %s %s", entryName, p.name, input, kind, detail),
			robustReplay{a.Gen, "C04", univName, entryName, p.name, input})
		s.Class("fail:" + kind)
	}

	// 1. every string up to length L over the ROR2 delimiter alphabet
	s1 := rep.S("ror2-strings")
	sigma := []string{"(", ")", ",", ":", "'", "a", "%", "List(", "1"}
	L := 6
	if a.Thorough() {
		L = 7
	}
	s1.Bounds = fmt.Sprintf("all strings of <=%d symbols over %v x entry points {NewRor2Reader, ParseQueryParams value} x %d reading programs", L, sigma, len(progs))
	n1 := 0
	enumStrings(sigma, L, a.Shard, a.Shards, func(s string) bool {
		n1++
		if n1%2048 == 0 && a.Expired() {
			s1.Exhaustive = false
			rep.Cap("ror2-strings: internal deadline")
			return false
		}
		current.Store("ror2 " + s)
		s1.States++
		for _, e := range ror2Entries() {
			mk := e.mk(s)
			for _, p := range progs {
				kind, site, detail := runProgram(mk, p)
				s1.Evaluations++
				s1.Transitions++
				if kind != "" {
					fail(s1, "ror2-strings", e.name, p, s, kind, site, detail)
				}
			}
		}
		// the whole string as a query string
		func() {
			defer func() {
				if r := recover(); r != nil {
					rep.Fail(fmt.Sprintf("%s robust ror2-strings ParseQueryParams panic at %s", a.Gen, panicSite(string(debug.Stack()))),
						fmt.Sprintf("ParseQueryParams(%q): %v", s, r), robustReplay{a.Gen, "C04", univName, "ParseQueryParams", "", s})
				}
			}()
			_, _ = restlicodec.ParseQueryParams(s)
			_, _ = restlicodec.ParseQueryParams(strings.ReplaceAll(s, ":", "=") + "&" + s)
		}()
		return true
	})
	s1.Traces = s1.States
	s1.Class(fmt.Sprintf("strings<=%d", L))
	s1.Class("completed")

	// 2. JSON token sequences
	s2 := rep.S("json-tokens")
	toks := []string{"{", "}", "[", "]", ":", ",", `"a"`, "1", "null", "tru", `"\u`}
	LJ := 5
	if a.Thorough() {
		LJ = 6
	}
	s2.Bounds = fmt.Sprintf("all sequences of <=%d tokens over %v x %d reading programs", LJ, toks, len(progs))
	n2 := 0
	je := jsonEntry()
	enumStrings(toks, LJ, a.Shard, a.Shards, func(s string) bool {
		n2++
		if n2%2048 == 0 && a.Expired() {
			s2.Exhaustive = false
			rep.Cap("json-tokens: internal deadline")
			return false
		}
		current.Store("json " + s)
		s2.States++
		mk := je.mk(s)
		for _, p := range progs {
			kind, site, detail := runProgram(mk, p)
			s2.Evaluations++
			s2.Transitions++
			if kind != "" {
				fail(s2, "json-tokens", je.name, p, s, kind, site, detail)
			}
		}
		return true
	})
	s2.Traces = s2.States
	s2.Class(fmt.Sprintf("sequences<=%d", LJ))
	s2.Class("completed")

	// 2b. readers configured with exclusion specs: the scope bookkeeping sees every key, including
	// keys spelled like patch markers and wildcards
	sx := rep.S("readers-with-exclusions")
	xsigma := []string{"(", ")", ",", ":", "a", "$set", "$delete", "*", "List("}
	xtoks := []string{"{", "}", "[", "]", ":", ",", `"a"`, `"$set"`, `"$delete"`, `"*"`, "1"}
	xspecs := [][]string{{"a/*/a"}, {"*/*/a"}, {"$set/a"}, {"a"}, {"a/*/a", "a/a/b"}}
	LX := 5
	sx.Bounds = fmt.Sprintf("all ROR2 strings of <=%d symbols over %v and all JSON sequences of <=%d tokens over %v x readers with excluded fields %v (leading scope 0 and 1) x map / record / array reading programs", LX, xsigma, LX, xtoks, xspecs)
	mapProgs := []program{}
	for _, p := range progs {
		if strings.Contains(p.name, "Map") || strings.Contains(p.name, "Record") || strings.Contains(p.name, "Union") || p.name == "Skip" || p.name == "ReadInterface" || p.name == "RawRecord" {
			mapProgs = append(mapProgs, p)
		}
	}
	for _, lang := range []string{"ror2", "json"} {
		alpha := xsigma
		if lang == "json" {
			alpha = xtoks
		}
		nx := 0
		enumStrings(alpha, LX, a.Shard, a.Shards, func(str string) bool {
			nx++
			if nx%1024 == 0 && a.Expired() {
				sx.Exhaustive = false
				rep.Cap("readers-with-exclusions: internal deadline")
				return false
			}
			current.Store(lang + "+excl " + str)
			sx.States++
			for si, sp := range xspecs {
				ps := restlicodec.NewPathSpec(sp...)
				for _, lead := range []int{0, 1} {
					lead := lead
					mk := func() (restlicodec.Reader, error) {
						if lang == "json" {
							return restlicodec.NewJsonReaderWithExcludedFields([]byte(str), ps, lead)
						}
						return restlicodec.NewRor2ReaderWithExcludedFields(str, ps, lead)
					}
					for _, p := range mapProgs {
						kind, site, detail := runProgram(mk, p)
						sx.Evaluations++
						sx.Transitions++
						if kind != "" {
							fail(sx, "readers-with-exclusions", fmt.Sprintf("%s-reader[spec#%d,lead=%d]", lang, si, lead), p, str, kind, site, detail)
						}
					}
				}
			}
			return true
		})
	}
	sx.Traces = sx.States
	sx.Class("completed")

	// 3. every truncation / single-byte edit of valid encodings, fed to the schema's own unmarshaler
	s3 := rep.S("mutated-encodings")
	subst := []byte{'(', ')', ',', ':', '\'', '%', 'L', '{', '}', '[', ']', '"', '\\', 0x00, 0xff, ' ', '&', '=', '+', 'e', '-', '9'}
	s3.Bounds = fmt.Sprintf("per wrapper: reference encodings (json, header, query) of the base and the rich value; every truncation, single-byte deletion, substitution and insertion with each of %d bytes", len(subst))
	for wi, w := range u.Wrappers {
		if !a.Mine(wi) {
			continue
		}
		if a.Expired() {
			s3.Exhaustive = false
			rep.Cap("mutated-encodings: internal deadline")
			break
		}
		for _, v := range []*schema.V{schema.Base(w), schema.Rich(w)} {
			docs := map[string]string{
				"json":   refjson.Encode(v, nil),
				"header": refror2.Encode(v, refror2.Header, nil),
				"query":  "p=" + refror2.Encode(v, refror2.Query, nil),
			}
			for f, doc := range docs {
				s3.States++
				tt := w
				p := program{"gen:" + w.Name, func(r restlicodec.Reader) error { _, err := decodeInto(tt, r); return err }}
				try := func(m string) {
					current.Store(f + " " + m)
					ff := f
					mk := func() (restlicodec.Reader, error) { return newReader(ff, m) }
					kind, site, detail := runProgram(mk, p)
					s3.Evaluations++
					s3.Transitions++
					if kind != "" {
						fail(s3, "mutated-encodings", "reader:"+f, p, m, kind, site, detail)
					}
				}
				lo := 0
				if f == "query" {
					lo = 2
				}
				for i := lo; i <= len(doc); i++ {
					try(doc[:i])
					if i < len(doc) {
						try(doc[:i] + doc[i+1:])
						for _, b := range subst {
							try(doc[:i] + string([]byte{b}) + doc[i+1:])
						}
					}
					for _, b := range subst {
						try(doc[:i] + string([]byte{b}) + doc[i:])
					}
				}
			}
		}
	}
	s3.Traces = s3.States
	s3.Class("completed")

	// 4. untyped Go values
	s4 := rep.S("untyped-values")
	if a.Shard == 0 {
		var nilPtr *int
		var nilMap map[string]interface{}
		type namedBytes []byte
		type namedString string
		type namedInt int64
		type namedMap map[string]interface{}
		type namedSlice []interface{}
		ns := "p"
		atoms := []interface{}{nil, true, 7, 2.5, "s", []byte("b"), nilPtr, make(chan int), nilMap, int32(3), struct{ X int }{1},
			namedBytes("nb"), namedString("ns"), namedInt(4), namedMap{"a": 1}, namedSlice{1}, &ns, float32(1.5), uint8(3), (*[]interface{})(nil), [2]int{1, 2}}
		var d1 []interface{}
		d1 = append(d1, []interface{}{}, map[string]interface{}{})
		for _, x := range atoms {
			d1 = append(d1, []interface{}{x}, map[string]interface{}{"a": x}, map[string]interface{}{"r": x, "t": "s"})
			for _, y := range atoms {
				d1 = append(d1, []interface{}{x, y}, map[string]interface{}{"a": x, "b": y})
			}
		}
		var d2 []interface{}
		for _, x := range d1 {
			d2 = append(d2, []interface{}{x}, map[string]interface{}{"a": x}, map[string]interface{}{"r": x}, map[string]interface{}{"b": x, "a": 1}, []interface{}{1, x})
		}
		all := append(append(append([]interface{}{}, atoms...), d1...), d2...)
		s4.Bounds = fmt.Sprintf("%d Go value trees of depth<=2 over {nil, bool, int, float64, string, []byte, typed nil pointers, chan, nil map, struct, named byte-slice / string / int / map / slice types, *string, float32, uint8, array} x %d reading programs through NewInterfaceReader", len(all), len(progs))
		for _, val := range all {
			s4.States++
			v := val
			current.Store(fmt.Sprintf("untyped %v", v))
			mk := func() (restlicodec.Reader, error) { return restlicodec.NewInterfaceReader(v), nil }
			for _, p := range progs {
				kind, site, detail := runProgram(mk, p)
				s4.Evaluations++
				s4.Transitions++
				if kind != "" {
					fail(s4, "untyped-values", "NewInterfaceReader", p, fmt.Sprintf("%#v", v), kind, site, detail)
				}
			}
		}
		s4.Traces = s4.States
		s4.Class("completed")
	}
	rep.Sample(map[string]interface{}{"ror2_strings_this_shard": s1.States, "json_sequences_this_shard": s2.States, "example_inputs": []string{"(", "(a:(a:1)", "List(a,", "{\"a\":[", "p=(aa:0,fr:List("}})
	_ = reflect.TypeOf
}
