package main

import (
	"encoding/json"
	"fmt"
	"reflect"
	"strings"

	"github.com/PapaCharlie/go-restli/v2/restlicodec"

	"verif/mc/bind"
	"verif/mc/ref/refjson"
	"verif/mc/schema"
)

func refjsonParse(doc string) ([]string, error) {
	d, err := refjson.ParseStrict([]byte(doc))
	if err != nil {
		return nil, err
	}
	o, ok := d.(*refjson.Obj)
	if !ok {
		return nil, fmt.Errorf("not an object")
	}
	return o.Keys, nil
}

// Reg and Ctor are filled by the emitted registry file.
var Reg = map[string]reflect.Type{}
var Ctor = map[string]func() interface{}{}

var Formats = []string{"json", "pretty", "header", "path", "query"}

// newWriter returns a fresh library writer of the given flavour ("query" is handled apart).
func newWriter(format string) restlicodec.Writer {
	switch format {
	case "json":
		return restlicodec.NewCompactJsonWriter()
	case "pretty":
		return restlicodec.NewPrettyJsonWriter()
	case "header":
		return restlicodec.NewRor2HeaderWriter()
	case "path":
		return restlicodec.NewRor2PathWriter()
	}
	panic("no writer for " + format)
}

// encode serialises m with the library in the given format.
func encode(format string, m restlicodec.Marshaler) (string, error) {
	if format == "query" {
		s, err := queryEncode("p", m)
		if err != nil {
			return "", err
		}
		if !strings.HasPrefix(s, "p=") {
			return "", fmt.Errorf("query encoding does not start with the parameter name: %q", s)
		}
		return s, nil
	}
	w := newWriter(format)
	if err := m.MarshalRestLi(w); err != nil {
		return "", err
	}
	return w.Finalize(), nil
}

// newReader returns the library reader matching the format for data.
func newReader(format, data string) (restlicodec.Reader, error) {
	switch format {
	case "json", "pretty":
		return restlicodec.NewJsonReader([]byte(data))
	case "header", "path":
		return restlicodec.NewRor2Reader(data)
	case "untyped":
		// the JSON text as a plain Go tree
		var tree interface{}
		if err := json.Unmarshal([]byte(data), &tree); err != nil {
			return nil, err
		}
		return restlicodec.NewInterfaceReader(tree), nil
	case "query":
		q, err := restlicodec.ParseQueryParams(data)
		if err != nil {
			return nil, err
		}
		r, ok := q["p"]
		if !ok {
			return nil, fmt.Errorf("parameter p not found in %q", data)
		}
		return r, nil
	}
	panic("no reader for " + format)
}

// goValue builds the generated Go value for v; records, unions and fixed come back as
// pointers (they marshal through pointer receivers).
func goValue(v *schema.V) (ptr reflect.Value, err error) {
	rt, ok := Reg[v.T.Name]
	if !ok {
		return reflect.Value{}, fmt.Errorf("type %s not in registry", v.T.Name)
	}
	err = bind.Safely(func() { ptr = bind.ToGo(v, reflect.PtrTo(rt)) })
	return ptr, err
}

func asMarshaler(ptr reflect.Value) restlicodec.Marshaler {
	if m, ok := ptr.Interface().(restlicodec.Marshaler); ok {
		return m
	}
	if m, ok := ptr.Elem().Interface().(restlicodec.Marshaler); ok {
		return m
	}
	panic(fmt.Sprintf("%s is not a Marshaler", ptr.Type()))
}

// decodeInto decodes data into a fresh instance of the generated type of t.
func decodeInto(t *schema.Type, reader restlicodec.Reader) (reflect.Value, error) {
	rt := Reg[t.Name]
	ptr := reflect.New(rt)
	u, ok := ptr.Interface().(restlicodec.Unmarshaler)
	if !ok {
		panic(fmt.Sprintf("%s is not an Unmarshaler", ptr.Type()))
	}
	err := u.UnmarshalRestLi(reader)
	return ptr, err
}

func fromGo(ptr reflect.Value, t *schema.Type) (v *schema.V, err error) {
	err = bind.Safely(func() { v = bind.FromGo(ptr, t) })
	return
}

// callEquals invokes the generated Equals of a against b (both pointers).
func callEquals(a, b reflect.Value) (res bool, err error) {
	defer func() {
		if r := recover(); r != nil {
			err = fmt.Errorf("Equals panicked: %v", r)
		}
	}()
	m := a.MethodByName("Equals")
	arg := b
	if !m.IsValid() {
		return false, fmt.Errorf("%s has no Equals", a.Type())
	}
	if m.Type().In(0).Kind() != reflect.Ptr {
		arg = b.Elem()
	}
	out := m.Call([]reflect.Value{arg})
	return out[0].Bool(), nil
}

type hashT = interface{ Equals(other interface{}) bool }

func callHash(a reflect.Value) (h string, err error) {
	defer func() {
		if r := recover(); r != nil {
			err = fmt.Errorf("ComputeHash panicked: %v", r)
		}
	}()
	m := a.MethodByName("ComputeHash")
	if !m.IsValid() {
		return "", fmt.Errorf("%s has no ComputeHash", a.Type())
	}
	out := m.Call(nil)
	h = fmt.Sprintf("%v", out[0].Interface())
	// the caller owns the hash it was given: it goes on folding data into it (what the library's own collection
	// hashing does with the hashes of elements); that must not reach anything shared
	if add := out[0].MethodByName("AddInt32"); add.IsValid() {
		add.Call([]reflect.Value{reflect.ValueOf(int32(0x5eed))})
	}
	return h, nil
}

// leaf returns the innermost component of a deviation label.
func leaf(dev string) string {
	// labels are built as "<field>.<child>", "member(x)><child>", "item0><child>", "val><child>"
	for {
		i := strings.Index(dev, ">")
		if i < 0 {
			break
		}
		// do not cut inside a quoted string
		if q := strings.Index(dev, "\""); q >= 0 && q < i {
			break
		}
		dev = dev[i+1:]
	}
	if i := strings.Index(dev, "."); i > 0 {
		if q := strings.IndexAny(dev, "\":"); q < 0 || i < q {
			return leaf(dev[i+1:])
		}
	}
	return dev
}

func safeCall(f func() error) (err error) {
	defer func() {
		if r := recover(); r != nil {
			if be, ok := r.(*bind.Error); ok {
				panic(be)
			}
			err = &panicError{fmt.Sprint(r)}
		}
	}()
	return f()
}

type panicError struct{ msg string }

func (p *panicError) Error() string { return "panic: " + p.msg }

func isPanic(err error) bool { _, ok := err.(*panicError); return ok }

// parseJSONOrdered returns the top-level member names of a JSON object in document order.
func parseJSONOrdered(doc string) ([]string, error) {
	d, err := refjsonParse(doc)
	if err != nil {
		return nil, err
	}
	return d, nil
}
