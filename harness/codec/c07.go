package main

import (
	"errors"
	"fmt"
	"reflect"
	"sort"
	"strings"

	"github.com/PapaCharlie/go-restli/v2/restlicodec"

	"verif/mc/hcli"
	"verif/mc/ref/refjson"
	"verif/mc/ref/refror2"
	"verif/mc/report"
	"verif/mc/schema"
)

type exclReplay struct {
	Gen     string   `json:"gen"`
	Part    string   `json:"part"`
	Univ    string   `json:"universe"`
	Wrapper string   `json:"wrapper"`
	Spec    []string `json:"spec"`
	Mode    string   `json:"mode"`
	Offset  int      `json:"offset"`
}

// valuePaths lists the exclusion-path of every record field and map entry in v (array levels
// are the wildcard segment), depth first.
func valuePaths(v *schema.V) [][]string {
	var out [][]string
	seen := map[string]bool{}
	var walk func(v *schema.V, path []string)
	add := func(p []string) {
		k := strings.Join(p, "/")
		if !seen[k] {
			seen[k] = true
			out = append(out, append([]string{}, p...))
		}
	}
	walk = func(v *schema.V, path []string) {
		if v == nil {
			return
		}
		switch v.T.Base().Kind {
		case schema.Record:
			for _, f := range v.T.AllFields() {
				if fv := v.Fields[f.Name]; fv != nil {
					p := append(append([]string{}, path...), f.Name)
					add(p)
					walk(fv, p)
				}
			}
		case schema.Union:
			if v.Alias != "" {
				p := append(append([]string{}, path...), v.Alias)
				add(p)
				walk(v.Mem, p)
			}
		case schema.Array:
			for _, it := range v.Items {
				walk(it, append(append([]string{}, path...), "*"))
			}
		case schema.Map:
			for _, k := range v.Keys {
				p := append(append([]string{}, path...), k)
				add(p)
				walk(v.Ent[k], p)
			}
		}
	}
	walk(v, nil)
	return out
}

// refMatches: the reference matcher. A value at path is excluded iff some spec path, with *
// matching any one segment, is a prefix of it.
func refMatches(spec [][]string, path []string) bool {
	for _, sp := range spec {
		if len(sp) > len(path) {
			continue
		}
		ok := true
		for i, seg := range sp {
			if seg != "*" && seg != path[i] {
				ok = false
				break
			}
		}
		if ok {
			return true
		}
	}
	return false
}

// prune removes every record field / union member / map entry whose path matches.
func prune(v *schema.V, spec [][]string, path []string) *schema.V {
	if v == nil {
		return nil
	}
	c := v.Clone()
	switch v.T.Base().Kind {
	case schema.Record:
		for name, fv := range v.Fields {
			p := append(append([]string{}, path...), name)
			if refMatches(spec, p) {
				delete(c.Fields, name)
			} else {
				c.Fields[name] = prune(fv, spec, p)
			}
		}
	case schema.Union:
		if v.Alias != "" {
			p := append(append([]string{}, path...), v.Alias)
			if refMatches(spec, p) {
				c.Alias, c.Mem = "", nil
			} else {
				c.Mem = prune(v.Mem, spec, p)
			}
		}
	case schema.Array:
		for i, it := range v.Items {
			c.Items[i] = prune(it, spec, append(append([]string{}, path...), "*"))
		}
	case schema.Map:
		c.Keys = nil
		c.Ent = map[string]*schema.V{}
		for _, k := range v.Keys {
			p := append(append([]string{}, path...), k)
			if refMatches(spec, p) {
				continue
			}
			c.Keys = append(c.Keys, k)
			c.Ent[k] = prune(v.Ent[k], spec, p)
		}
	}
	return c
}

func touches(v *schema.V, spec [][]string) bool {
	for _, p := range valuePaths(v) {
		if refMatches(spec, p) {
			return true
		}
	}
	return false
}

func specOf(paths [][]string) restlicodec.PathSpec {
	var ds []string
	for _, p := range paths {
		ds = append(ds, strings.Join(p, "/"))
	}
	return restlicodec.NewPathSpec(ds...)
}

func specStrings(paths [][]string) []string {
	var ds []string
	for _, p := range paths {
		ds = append(ds, strings.Join(p, "/"))
	}
	return ds
}

// candidatePaths: every value path of the rich value (depth <= 4) plus variants with one
// segment replaced by the wildcard or by a name that is not there. Paths ending in the array
// wildcard are not generated (whether an excluded array item disappears or is emptied is
// left open).
var unionAliases = map[string]bool{}

func candidatePaths(v *schema.V) [][]string {
	seen := map[string]bool{}
	var out [][]string
	add := func(p []string) {
		if len(p) == 0 || len(p) > 4 {
			return
		}
		// excluding the member of a union leaves a union without member, which is not a value:
		// specs that end at a union alias are not generated (deeper paths through an alias are)
		if unionAliases[p[len(p)-1]] {
			return
		}
		k := strings.Join(p, "/")
		if !seen[k] {
			seen[k] = true
			out = append(out, p)
		}
	}
	for _, p := range valuePaths(v) {
		add(p)
		for i := range p {
			if p[i] == "*" {
				continue
			}
			w := append([]string{}, p...)
			w[i] = "*"
			if !(i == len(p)-1 && unionAliases[p[i]]) { // a wildcard standing for the union member itself: see above
				add(w)
			}
			n := append([]string{}, p...)
			n[i] = "nope"
			add(n)
		}
	}
	return out
}

// wrap nests doc in k single-member objects (JSON) / maps (ROR2).
func wrapJSON(doc string, k int) string {
	for i := 0; i < k; i++ {
		doc = fmt.Sprintf(`{"w%d":%s}`, i, doc)
	}
	return doc
}
func wrapROR2(doc string, k int) string {
	for i := 0; i < k; i++ {
		doc = fmt.Sprintf(`(w%d:%s)`, i, doc)
	}
	return doc
}

// readWrapped descends k wrapper levels then hands the reader to the unmarshaler.
func readWrapped(r restlicodec.Reader, k int, u restlicodec.Unmarshaler) error {
	if k == 0 {
		return u.UnmarshalRestLi(r)
	}
	return r.ReadMap(func(r restlicodec.Reader, key string) error {
		return readWrapped(r, k-1, u)
	})
}

func untypedWrap(x interface{}, k int) interface{} {
	for i := 0; i < k; i++ {
		x = map[string]interface{}{fmt.Sprintf("w%d", i): x}
	}
	return x
}

// renameKeys returns a copy of v in which the first key of every map is replaced by key.
func renameKeys(v *schema.V, key string) *schema.V {
	if v == nil {
		return nil
	}
	c := v.Clone()
	for n, fv := range c.Fields {
		c.Fields[n] = renameKeys(fv, key)
	}
	for i, it := range c.Items {
		c.Items[i] = renameKeys(it, key)
	}
	if c.Mem != nil {
		c.Mem = renameKeys(c.Mem, key)
	}
	if len(c.Keys) > 0 {
		ent := map[string]*schema.V{}
		keys := append([]string{}, c.Keys...)
		for i, k := range keys {
			nk := k
			if i == 0 {
				nk = key
				keys[0] = key
			}
			ent[nk] = renameKeys(c.Ent[k], key)
		}
		c.Keys, c.Ent = keys, ent
	}
	return c
}

// emptyContainers returns a copy of v in which every array and map is present but empty.
func emptyContainers(v *schema.V) *schema.V {
	if v == nil {
		return nil
	}
	c := v.Clone()
	for n, fv := range c.Fields {
		c.Fields[n] = emptyContainers(fv)
	}
	if c.Mem != nil {
		c.Mem = emptyContainers(c.Mem)
	}
	switch v.T.Base().Kind {
	case schema.Array:
		c.Items, c.Nil = []*schema.V{}, false
	case schema.Map:
		c.Keys, c.Ent, c.Nil = nil, map[string]*schema.V{}, false
	}
	return c
}

func checkExclusion(w *schema.Type, spec [][]string, mode string, offset int) (kind, detail string) {
	return checkExclusionOn(w, schema.Rich(w), spec, mode, offset)
}

func checkExclusionOn(w *schema.Type, rich *schema.V, spec [][]string, mode string, offset int) (kind, detail string) {
	ps := specOf(spec)
	want := prune(rich, spec, nil)
	switch mode {
	case "write-json", "write-ror2":
		ptr, err := goValue(rich)
		if err != nil {
			report.Internal("bridge: %v", err)
		}
		var out string
		err = safeCall(func() error {
			var wr restlicodec.Writer
			if mode == "write-json" {
				wr = restlicodec.NewCompactJsonWriterWithExcludedFields(ps)
			} else {
				wr = restlicodec.NewRor2HeaderWriterWithExcludedFields(ps)
			}
			if e := asMarshaler(ptr).MarshalRestLi(wr); e != nil {
				return e
			}
			out = wr.Finalize()
			return nil
		})
		if err != nil {
			return "write-error", err.Error()
		}
		var got *schema.V
		if mode == "write-json" {
			got, err = decodeLoose(w, out, true)
		} else {
			got, err = decodeLoose(w, out, false)
		}
		if err != nil {
			return "write-malformed", fmt.Sprintf("output %q: %v", out, err)
		}
		if !schema.Equal(got, want) {
			k := "write-leaks-excluded"
			if covers(want, got) && !covers(got, want) {
				k = "write-drops-too-much"
			}
			return k, fmt.Sprintf("output %q denotes %s, want %s", out, got, want)
		}
	case "read-json", "read-ror2", "read-untyped":
		variants := []string{"full", "pruned"}
		if mode == "read-json" {
			// the same documents with an explicit null member (unknown to the schema) leading every object
			variants = append(variants, "full+nulls", "pruned+nulls")
		}
		for _, variant := range variants {
			v := rich
			if strings.HasPrefix(variant, "pruned") {
				v = want
			}
			var jopt *refjson.Options
			if strings.HasSuffix(variant, "+nulls") {
				jopt = &refjson.Options{Extra: &refjson.ExtraField{Name: "aaNull", Value: "null", Pos: 0}}
			}
			expectErr := strings.HasPrefix(variant, "full") && touches(rich, spec)
			rt := Reg[w.Name]
			ptr := reflect.New(rt)
			err := safeCall(func() error {
				var r restlicodec.Reader
				var e error
				switch mode {
				case "read-json":
					r, e = restlicodec.NewJsonReaderWithExcludedFields([]byte(wrapJSON(refjson.Encode(v, jopt), offset)), ps, offset)
				case "read-ror2":
					r, e = restlicodec.NewRor2ReaderWithExcludedFields(wrapROR2(refror2.Encode(v, refror2.Header, nil), offset), ps, offset)
				default:
					r = restlicodec.NewInterfaceReaderWithExcludedFields(untypedWrap(untyped(v), offset), ps, offset)
				}
				if e != nil {
					return e
				}
				return readWrapped(r, offset, ptr.Interface().(restlicodec.Unmarshaler))
			})
			var ef restlicodec.ExcludedFieldError
			isExcl := errors.As(err, &ef)
			switch {
			case expectErr && err == nil:
				return "read-accepts-excluded", fmt.Sprintf("document carrying a value at an excluded path was accepted (offset %d)", offset)
			case expectErr && !isExcl:
				if isPanic(err) {
					return "read-panic", err.Error()
				}
				return "read-wrong-error", fmt.Sprintf("expected an ExcludedFieldError, got %T %v", err, err)
			case !expectErr && err != nil:
				k := "read-rejects-clean-document"
				var mf *restlicodec.MissingRequiredFieldsError
				if errors.As(err, &mf) {
					k = "excluded-required-field-reported-missing"
				}
				if isPanic(err) {
					k = "read-panic"
				}
				return k, fmt.Sprintf("%s document (offset %d): %v", variant, offset, err)
			}
			if !expectErr {
				got, e := fromGo(ptr, w)
				if e != nil {
					return "decode-shape", e.Error()
				}
				if !covers(got, v) {
					return "read-altered", fmt.Sprintf("%s document decoded to %s, want %s", variant, got, v)
				}
			}
		}
	}
	return "", ""
}

// decodeLoose decodes library output whose required fields may have been excluded.
func decodeLoose(t *schema.Type, text string, isJSON bool) (*schema.V, error) {
	if isJSON {
		d, err := refjson.ParseStrict([]byte(text))
		if err != nil {
			return nil, err
		}
		return looseFromDoc(t, d)
	}
	n, err := refror2.Parse(text, refror2.Header)
	if err != nil {
		return nil, err
	}
	return looseFromNode(t, n)
}

func looseFromDoc(t *schema.Type, d interface{}) (*schema.V, error) {
	switch t.Base().Kind {
	case schema.Record:
		o, ok := d.(*refjson.Obj)
		if !ok {
			return nil, fmt.Errorf("%s: not an object", t)
		}
		v := &schema.V{T: t, Fields: map[string]*schema.V{}}
		for _, k := range o.Keys {
			f := t.Field(k)
			if f == nil {
				return nil, fmt.Errorf("%s: unknown field %q", t, k)
			}
			fv, err := looseFromDoc(f.Type, o.Vals[k])
			if err != nil {
				return nil, err
			}
			v.Fields[k] = fv
		}
		return v, nil
	case schema.Union:
		o, ok := d.(*refjson.Obj)
		if !ok {
			return nil, fmt.Errorf("%s: not an object", t)
		}
		if len(o.Keys) == 0 {
			return &schema.V{T: t}, nil
		}
		m := t.Member(o.Keys[0])
		if m == nil || len(o.Keys) > 1 {
			return nil, fmt.Errorf("%s: bad union object", t)
		}
		mv, err := looseFromDoc(m.Type, o.Vals[o.Keys[0]])
		if err != nil {
			return nil, err
		}
		return &schema.V{T: t, Alias: m.Alias, Mem: mv}, nil
	case schema.Array:
		a, ok := d.([]interface{})
		if !ok {
			return nil, fmt.Errorf("%s: not an array", t)
		}
		v := &schema.V{T: t, Items: []*schema.V{}}
		for _, it := range a {
			iv, err := looseFromDoc(t.Elem, it)
			if err != nil {
				return nil, err
			}
			v.Items = append(v.Items, iv)
		}
		return v, nil
	case schema.Map:
		o, ok := d.(*refjson.Obj)
		if !ok {
			return nil, fmt.Errorf("%s: not an object", t)
		}
		v := &schema.V{T: t, Ent: map[string]*schema.V{}}
		for _, k := range o.Keys {
			ev, err := looseFromDoc(t.Elem, o.Vals[k])
			if err != nil {
				return nil, err
			}
			v.Keys = append(v.Keys, k)
			v.Ent[k] = ev
		}
		return v, nil
	}
	return refjson.Decode(t, d, true)
}

func looseFromNode(t *schema.Type, n *refror2.Node) (*schema.V, error) {
	switch t.Base().Kind {
	case schema.Record:
		if n.Kind != refror2.MapK {
			return nil, fmt.Errorf("%s: not a map", t)
		}
		v := &schema.V{T: t, Fields: map[string]*schema.V{}}
		for i, k := range n.Keys {
			f := t.Field(k)
			if f == nil {
				return nil, fmt.Errorf("%s: unknown field %q", t, k)
			}
			fv, err := looseFromNode(f.Type, n.Vals[i])
			if err != nil {
				return nil, err
			}
			v.Fields[k] = fv
		}
		return v, nil
	case schema.Union:
		if n.Kind != refror2.MapK {
			return nil, fmt.Errorf("%s: not a map", t)
		}
		if len(n.Keys) == 0 {
			return &schema.V{T: t}, nil
		}
		m := t.Member(n.Keys[0])
		if m == nil || len(n.Keys) > 1 {
			return nil, fmt.Errorf("%s: bad union map", t)
		}
		mv, err := looseFromNode(m.Type, n.Vals[0])
		if err != nil {
			return nil, err
		}
		return &schema.V{T: t, Alias: m.Alias, Mem: mv}, nil
	case schema.Array:
		if n.Kind != refror2.ListK {
			return nil, fmt.Errorf("%s: not a list", t)
		}
		v := &schema.V{T: t, Items: []*schema.V{}}
		for _, it := range n.Items {
			iv, err := looseFromNode(t.Elem, it)
			if err != nil {
				return nil, err
			}
			v.Items = append(v.Items, iv)
		}
		return v, nil
	case schema.Map:
		if n.Kind != refror2.MapK {
			return nil, fmt.Errorf("%s: not a map", t)
		}
		v := &schema.V{T: t, Ent: map[string]*schema.V{}}
		for i, k := range n.Keys {
			ev, err := looseFromNode(t.Elem, n.Vals[i])
			if err != nil {
				return nil, err
			}
			v.Keys = append(v.Keys, k)
			v.Ent[k] = ev
		}
		return v, nil
	}
	return refror2.Decode(t, n)
}

var exclModes = []string{"write-json", "write-ror2", "read-json", "read-ror2", "read-untyped"}

func partC07(a *hcli.Args, rep *report.Report, univName string, u *schema.Universe) {
	for _, t := range u.Named() {
		for _, m := range t.Members {
			unionAliases[m.Alias] = true
		}
	}
	s := rep.S("exclusion-specs")
	names := []string{"RRecSmall", "RARecSmall", "RMRecSmall", "RTop", "RNestInc", "RUSmall", "RMARecSmall", "RAMString", "RUAll"}
	s.Bounds = fmt.Sprintf("schemas %v: every spec of 1 path, and every spec of 2 paths, over the candidate paths (all value paths of the rich value to depth 4 + one segment replaced by * or by an absent name) x modes %v x leading-scope offsets {0,1,2,3} (readers)", names, exclModes)
	item := 0
	for _, n := range names {
		w := u.ByName[n]
		if w == nil {
			continue
		}
		cands := candidatePaths(schema.Rich(w))
		sort.Slice(cands, func(i, j int) bool { return strings.Join(cands[i], "/") < strings.Join(cands[j], "/") })
		var specs [][][]string
		for i := range cands {
			specs = append(specs, [][]string{cands[i]})
		}
		limit := len(cands)
		if !a.Thorough() && limit > 40 {
			limit = 40
		}
		for i := 0; i < limit; i++ {
			for j := i + 1; j < limit; j++ {
				specs = append(specs, [][]string{cands[i], cands[j]})
			}
		}
		s.States += int64(len(specs))
		for _, spec := range specs {
			item++
			if !a.Mine(item) {
				continue
			}
			if item%256 == 0 && a.Expired() {
				s.Exhaustive = false
				rep.Cap("exclusion-specs: internal deadline")
				return
			}
			for _, mode := range exclModes {
				offsets := []int{0}
				if strings.HasPrefix(mode, "read") && len(spec) == 1 {
					offsets = []int{0, 1, 2, 3}
				}
				for _, off := range offsets {
					kind, detail := checkExclusion(w, spec, mode, off)
					s.Evaluations++
					s.Transitions++
					s.Traces++
					if kind != "" {
						rep.Fail(fmt.Sprintf("%s excl %s %s %s spec=%s", a.Gen, mode, kind, w.Name, shapeOfSpec(spec)),
							fmt.Sprintf("type %s spec %v mode %s offset %d: %s", w.Name, specStrings(spec), mode, off, detail),
							exclReplay{a.Gen, "C07", univName, w.Name, specStrings(spec), mode, off})
						s.Class("fail:" + kind)
					} else {
						t := "clean"
						if touches(schema.Rich(w), spec) {
							t = "touching"
						}
						s.Class(fmt.Sprintf("ok:%s:%s", mode, t))
					}
				}
			}
		}
		// empty arrays / maps in front of excluded fields (the containers' own scopes must be left again)
		if strings.Contains(n, "A") || strings.Contains(n, "M") || n == "RTop" || n == "RNestInc" {
			se := rep.S("exclusion-empty-containers")
			se.Bounds = "container-bearing schemas x every single-path spec and every pair of top-level field specs x the rich value with every array and map emptied x all modes"
			val := emptyContainers(schema.Rich(w))
			var especs [][][]string
			for i := range cands {
				especs = append(especs, [][]string{cands[i]})
			}
			var tops [][]string
			for _, f := range w.AllFields() {
				tops = append(tops, []string{f.Name})
			}
			for i := range tops {
				for j := i + 1; j < len(tops); j++ {
					especs = append(especs, [][]string{tops[i], tops[j]})
				}
			}
			for _, spec := range especs {
				item++
				if !a.Mine(item) {
					continue
				}
				for _, mode := range exclModes {
					kind, detail := checkExclusionOn(w, val, spec, mode, 0)
					se.Evaluations++
					se.Transitions++
					se.Traces++
					if kind != "" {
						rep.Fail(fmt.Sprintf("%s excl %s %s %s empty-containers spec=%s", a.Gen, mode, kind, w.Name, shapeOfSpec(spec)),
							fmt.Sprintf("type %s value %s spec %v mode %s: %s", w.Name, val, specStrings(spec), mode, detail), nil)
						se.Class("fail:" + kind)
					} else {
						se.Class("ok:" + mode)
					}
				}
			}
			se.States++
		}
		// map keys that look like protocol markers or wildcards, under every single-path spec
		if strings.Contains(n, "M") {
			sk := rep.S("exclusion-hostile-map-keys")
			sk.Bounds = "map-bearing schemas x every single-path spec x the rich value with a map key renamed to each of {$set, $delete, $params, *, empty, a/b} x all modes"
			for _, key := range []string{"$set", "$delete", "$params", "*", "", "a/b"} {
				val := renameKeys(schema.Rich(w), key)
				for i := range cands {
					item++
					if !a.Mine(item) {
						continue
					}
					spec := [][]string{cands[i]}
					for _, mode := range exclModes {
						kind, detail := checkExclusionOn(w, val, spec, mode, 0)
						sk.Evaluations++
						sk.Transitions++
						sk.Traces++
						if kind != "" {
							rep.Fail(fmt.Sprintf("%s excl %s %s %s map-key=%q spec=%s", a.Gen, mode, kind, w.Name, key, shapeOfSpec(spec)),
								fmt.Sprintf("type %s value %s spec %v mode %s: %s", w.Name, val, specStrings(spec), mode, detail), nil)
							sk.Class("fail:" + kind)
						} else {
							sk.Class("ok:" + mode)
						}
					}
				}
				sk.States++
			}
		}
		rep.Sample(map[string]interface{}{"type": n, "candidate_paths": len(cands), "specs": len(specs), "example_spec": specStrings(specs[len(specs)/2])})
	}
}

func shapeOfSpec(spec [][]string) string {
	var out []string
	for _, p := range spec {
		q := make([]string, len(p))
		for i, s := range p {
			switch {
			case s == "*" || s == "nope":
				q[i] = s
			case s == "k1" || s == "k2":
				q[i] = "<key>"
			default:
				q[i] = s
			}
		}
		out = append(out, strings.Join(q, "/"))
	}
	return strings.Join(out, "+")
}
