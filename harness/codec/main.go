// Harness for the codec properties (C01, C03, C06, C07, C09, C10, C11, C13 and the codec
// part of C04): one binary compiled next to the bindings generated from the universe.
package main

import (
	"encoding/json"
	"fmt"
	"os"
	"strings"

	"github.com/PapaCharlie/go-restli/v2/restlicodec"

	"verif/mc/hcli"
	"verif/mc/report"
	"verif/mc/schema"
)

type writerT = restlicodec.Writer

func main() {
	a := hcli.Parse()
	rep := report.New(a.Gen)
	univName := os.Getenv("VERIF_UNIVERSE")
	if univName == "" {
		univName = "codec-quick"
	}
	if a.Replay != "" {
		var hdr struct {
			Part string `json:"part"`
			Univ string `json:"universe"`
		}
		a.LoadReplay(&hdr)
		if hdr.Univ != "" {
			univName = hdr.Univ
		}
		u := schema.ByName(univName)
		switch hdr.Part {
		case "C01":
			var rp rtReplay
			a.LoadReplay(&rp)
			v := findCase(u, rp.Wrapper, rp.Dev, rp.Dev2)
			kind, detail := roundTrip(v, rp.Format)
			fmt.Printf("type %s value %s format %s\n", rp.Wrapper, v, rp.Format)
			if kind != "" {
				fmt.Println("FAIL:", kind, detail)
				os.Exit(1)
			}
			fmt.Println("no violation")
		case "C03":
			var rp confReplay
			a.LoadReplay(&rp)
			w := u.ByName[rp.Wrapper]
			var v *schema.V
			for _, c := range schema.Alphabet(w, rp.Reduced) {
				if c.Dev == rp.Dev {
					v = c
				}
			}
			if v == nil {
				report.Internal("no case %s / %s", rp.Wrapper, rp.Dev)
			}
			var kind, detail string
			if rp.Dir == "lib2ref" {
				kind, detail = libToRef(v, rp.Format)
			} else {
				kind, detail = refToLib(v, rp.Format, rp.Doc)
			}
			fmt.Printf("type %s value %s format %s direction %s variant %s\n", rp.Wrapper, v, rp.Format, rp.Dir, rp.Variant)
			if kind != "" {
				fmt.Println("FAIL:", kind, detail)
				os.Exit(1)
			}
			fmt.Println("no violation")
		case "C04":
			var rp robustReplay
			a.LoadReplay(&rp)
			progs := append(handPrograms(), generatedPrograms(u)...)
			for _, w := range u.Wrappers {
				tt := w
				progs = append(progs, program{"gen:" + w.Name, func(r restlicodec.Reader) error { _, err := decodeInto(tt, r); return err }})
			}
			var mk func() (restlicodec.Reader, error)
			switch {
			case rp.Entry == "NewRor2Reader":
				mk = ror2Entries()[0].mk(rp.Input)
			case rp.Entry == "ParseQueryParams[p]":
				mk = ror2Entries()[1].mk(rp.Input)
			case rp.Entry == "NewJsonReader":
				mk = jsonEntry().mk(rp.Input)
			case strings.HasPrefix(rp.Entry, "reader:"):
				f := strings.TrimPrefix(rp.Entry, "reader:")
				mk = func() (restlicodec.Reader, error) { return newReader(f, rp.Input) }
			case rp.Entry == "ParseQueryParams":
				mk = func() (restlicodec.Reader, error) { _, err := restlicodec.ParseQueryParams(rp.Input); return nil, err }
			default:
				report.Internal("replay of entry %q is not supported (untyped values are not serialisable)", rp.Entry)
			}
			bad := false
			for _, p := range progs {
				if p.name != rp.Program && rp.Program != "" {
					continue
				}
				kind, site, detail := runProgram(mk, p)
				fmt.Printf("entry %s program %s input %q -> %s %s %s\n", rp.Entry, p.name, rp.Input, kind, site, detail)
				if kind != "" {
					bad = true
				}
				break
			}
			if rp.Program == "" {
				kind, site, detail := runProgram(mk, program{"none", func(restlicodec.Reader) error { return nil }})
				fmt.Printf("entry %s input %q -> %s %s %s\n", rp.Entry, rp.Input, kind, site, detail)
				bad = bad || kind != ""
			}
			if bad {
				fmt.Println("FAIL")
				os.Exit(1)
			}
			fmt.Println("no violation")
		case "C06":
			var rp reqReplay
			a.LoadReplay(&rp)
			w := u.ByName[rp.Wrapper]
			rich := schema.Rich(w)
			var del, nul []schema.Pos
			for _, p := range schema.Positions(rich) {
				for _, d := range rp.Deleted {
					if p.String() == d {
						del = append(del, p)
					}
				}
				for _, d := range rp.Nulled {
					if p.String() == d {
						nul = append(nul, p)
					}
				}
			}
			vr := reqVariants()[0]
			for _, c := range reqVariants() {
				if c.name == rp.Variant {
					vr = c
				}
			}
			kind, detail := checkRequired(rich, del, nul, rp.Reader, vr)
			fmt.Printf("type %s deleted %v nulled %v reader %s variant %s\n", rp.Wrapper, rp.Deleted, rp.Nulled, rp.Reader, rp.Variant)
			if kind != "" {
				fmt.Println("FAIL:", kind, detail)
				os.Exit(1)
			}
			fmt.Println("no violation")
		case "C07":
			var rp exclReplay
			a.LoadReplay(&rp)
			var spec [][]string
			for _, d := range rp.Spec {
				spec = append(spec, strings.Split(d, "/"))
			}
			kind, detail := checkExclusion(u.ByName[rp.Wrapper], spec, rp.Mode, rp.Offset)
			fmt.Printf("type %s spec %v mode %s offset %d\n", rp.Wrapper, rp.Spec, rp.Mode, rp.Offset)
			if kind != "" {
				fmt.Println("FAIL:", kind, detail)
				os.Exit(1)
			}
			fmt.Println("no violation")
		case "C11":
			var rp conReplay
			a.LoadReplay(&rp)
			fmt.Println("C11 cases are replayed by re-running the (small) enumeration and reporting the named case:", rp.Case)
			a.Shards, a.Shard = 1, 0
			partC11(a, rep, univName, u)
			bad := false
			for _, f := range rep.Failures {
				var c conReplay
				if json.Unmarshal(f.Replay, &c) == nil && c.Case == rp.Case {
					fmt.Println("FAIL:", f.Sig, f.Detail)
					bad = true
				}
			}
			if bad {
				os.Exit(1)
			}
			fmt.Println("no violation")
		case "C13":
			var rp defReplay
			a.LoadReplay(&rp)
			w := u.ByName[rp.Wrapper]
			paths := defaultedPaths(w, nil, 2)
			supplied := map[int]bool{}
			for i, p := range paths {
				for _, s := range rp.Supply {
					if strings.Join(p, ".") == s {
						supplied[i] = true
					}
				}
			}
			kind, field, detail := checkDefaultCase(w, paths, supplied, rp.Reader)
			fmt.Printf("record %s supplying %v reader %s\n", rp.Wrapper, rp.Supply, rp.Reader)
			if kind != "" {
				fmt.Println("FAIL:", kind, field, detail)
				os.Exit(1)
			}
			fmt.Println("no violation")
		case "C10":
			var rp eqReplay
			a.LoadReplay(&rp)
			w := u.ByName[rp.Wrapper]
			var pa, pb *poolItem
			for _, p := range buildPool(w) {
				if p.label == rp.A && pa == nil {
					pa = p
				}
				if p.label == rp.B && pb == nil {
					pb = p
				}
			}
			if pa == nil || pb == nil {
				report.Internal("pool items not found")
			}
			eq, err := callEquals(pa.ptr, pb.ptr)
			ha, _ := callHash(pa.ptr)
			hb, _ := callHash(pb.ptr)
			fmt.Printf("type %s\n a=%s\n b=%s\n Equals=%v err=%v structural=%v hash(a)=%s hash(b)=%s\n", rp.Wrapper, pa.v, pb.v, eq, err, schema.Equal(pa.v, pb.v), ha, hb)
			if err != nil || eq != schema.Equal(pa.v, pb.v) || (eq && ha != hb) {
				fmt.Println("FAIL")
				os.Exit(1)
			}
			fmt.Println("no violation")
		default:
			report.Internal("unknown replay part %q", hdr.Part)
		}
		return
	}
	u := schema.ByName(univName)
	switch a.Part {
	case "C01":
		partC01(a, rep, univName, u)
	case "C03":
		partC03(a, rep, univName, u)
	case "C04":
		partC04(a, rep, univName, u)
	case "C06":
		partC06(a, rep, univName, u)
	case "C07":
		partC07(a, rep, univName, u)
	case "C09":
		partC09(a, rep, univName, u)
	case "C10":
		partC10(a, rep, univName, u)
	case "C11":
		partC11(a, rep, univName, u)
	case "C13":
		partC13(a, rep, univName, u)
	default:
		report.Internal("unknown part %q", a.Part)
	}
	rep.Write(a.Out)
}
