package main

import (
	"crypto/sha256"
	"fmt"
	"math"
	"reflect"
	"sort"

	"github.com/PapaCharlie/go-restli/v2/fnv1a"

	"verif/mc/bind"
	"verif/mc/hcli"
	"verif/mc/report"
	"verif/mc/schema"
)

type eqReplay struct {
	Gen     string `json:"gen"`
	Part    string `json:"part"`
	Univ    string `json:"universe"`
	Wrapper string `json:"wrapper"`
	A       string `json:"a"`
	B       string `json:"b"`
}

type poolItem struct {
	base  bool // an alphabet value itself (as opposed to a copy / variant of one)
	v     *schema.V
	label string
	ptr   reflect.Value
	hash  string
	nan   bool
}

// permuteMaps returns copies of v whose (top-level field) maps are rebuilt with their keys
// inserted in every order (<= 4 entries).
func mapInsertionVariants(v *schema.V) []*schema.V {
	var out []*schema.V
	for name, f := range v.Fields {
		if f == nil || f.T.Base().Kind != schema.Map || len(f.Keys) < 2 || len(f.Keys) > 4 {
			continue
		}
		for pi, p := range perms(f.Keys) {
			if pi == 0 {
				continue
			}
			c := f.Clone()
			c.Keys = p
			out = append(out, v.With(name, c))
		}
	}
	return out
}

// nilEmptySwaps returns copies of v in which one nil collection / bytes is empty or vice versa.
func nilEmptySwaps(v *schema.V) []*schema.V {
	var out []*schema.V
	for name, f := range v.Fields {
		if f == nil {
			continue
		}
		k := f.T.Base().Kind
		if k != schema.Map && k != schema.Array && k != schema.Bytes {
			continue
		}
		empty := (k == schema.Map && len(f.Ent) == 0) || (k == schema.Array && len(f.Items) == 0) || (k == schema.Bytes && len(f.Y) == 0)
		if !empty {
			continue
		}
		c := f.Clone()
		c.Nil = !f.Nil
		if k == schema.Bytes {
			if c.Nil {
				c.Y = nil
			} else {
				c.Y = []byte{}
			}
		}
		if k == schema.Array && !c.Nil {
			c.Items = []*schema.V{}
		}
		out = append(out, v.With(name, c))
	}
	return out
}

// otherNaNs returns a copy of v in which every NaN has the sign bit and another payload.
func otherNaNs(v *schema.V) *schema.V {
	if v == nil {
		return nil
	}
	c := v.Clone()
	if k := v.T.Base().Kind; (k == schema.Float32 || k == schema.Float64) && math.IsNaN(v.F) {
		c.F = math.Float64frombits(0xfff8000020000001)
	}
	for k, f := range v.Fields {
		c.Fields[k] = otherNaNs(f)
	}
	if v.Mem != nil {
		c.Mem = otherNaNs(v.Mem)
	}
	for i, it := range v.Items {
		c.Items[i] = otherNaNs(it)
	}
	for k, e := range v.Ent {
		c.Ent[k] = otherNaNs(e)
	}
	return c
}

func buildPool(w *schema.Type) []*poolItem {
	var pool []*poolItem
	add := func(v *schema.V, label string) {
		ptr, err := goValue(v)
		if err != nil {
			report.Internal("bridge: %v", err)
		}
		pool = append(pool, &poolItem{v: v, label: label, ptr: ptr, nan: v.HasNaN()})
	}
	for _, v := range schema.Alphabet(w, true) {
		add(v, v.Dev)
		pool[len(pool)-1].base = true
		baseItem := pool[len(pool)-1]
		add(v.Clone(), v.Dev+" (copy)")
		for i, m := range mapInsertionVariants(v) {
			add(m, fmt.Sprintf("%s (map order %d)", v.Dev, i))
		}
		for i, m := range nilEmptySwaps(v) {
			add(m, fmt.Sprintf("%s (nil<->empty %d)", v.Dev, i))
		}
		if v.HasNaN() {
			// the same value with NaNs of another bit pattern (sign and payload), as arithmetic produces them
			add(otherNaNs(v), v.Dev+" (NaN with other bits)")
		}
		// a value sharing storage with another one: its array is a prefix slice of the other value's array (what
		// `page.Items = all.Items[:n]` builds); identity of the backing array says nothing about equality
		if ft := w.Field("fr"); ft != nil && ft.Type.Kind == schema.Array && v.Fields["fr"] != nil && len(v.Fields["fr"].Items) >= 2 {
			orig := baseItem.ptr
			if orig.Kind() == reflect.Ptr && orig.Elem().Kind() == reflect.Struct {
				if f := orig.Elem().FieldByName(bind.GoFieldName("fr")); f.IsValid() && f.Kind() == reflect.Slice && f.Len() >= 2 {
					cp := reflect.New(orig.Elem().Type())
					cp.Elem().Set(orig.Elem())
					cp.Elem().FieldByName(bind.GoFieldName("fr")).Set(f.Slice(0, f.Len()-1))
					pv := v.Clone()
					pv.Fields["fr"].Items = pv.Fields["fr"].Items[:len(pv.Fields["fr"].Items)-1]
					pool = append(pool, &poolItem{v: pv, label: v.Dev + " (prefix slice of the same array)", ptr: cp, nan: pv.HasNaN()})
				}
			}
		}
		// round-tripped copies: the value as decoded from its own JSON / ROR2 encoding
		for _, f := range []string{"json", "header"} {
			enc, err := encode(f, asMarshaler(pool[len(pool)-1].ptr))
			if err != nil {
				continue
			}
			r, err := newReader(f, enc)
			if err != nil {
				continue
			}
			dec, err := decodeInto(w, r)
			if err != nil {
				continue
			}
			dv, err := fromGo(dec, w)
			if err != nil {
				continue
			}
			pool = append(pool, &poolItem{v: dv, label: v.Dev + " (round-tripped " + f + ")", ptr: dec, nan: dv.HasNaN()})
		}
	}
	return pool
}

// complexKeys: ComplexKeyEquals compares the key parts only ($params are not part of the key's
// identity) and ComputeComplexKeyHash must be consistent with it.
func complexKeys(a *hcli.Args, rep *report.Report, u *schema.Universe) {
	s := rep.S("complex-keys")
	s.Bounds = "complex key CKey: key parts over the reduced deviation<=1 alphabet of the key record x $params in {absent, base, rich, each single field}; every ordered pair: ComplexKeyEquals iff the key parts are structurally equal, ComplexKeyEquals implies equal ComputeComplexKeyHash, full Equals / ComputeHash agree with structural equality including $params"
	ck := u.ByName["CKey"]
	if ck == nil || Reg["CKey"] == nil || a.Shard != 0 {
		return
	}
	parT := ck.ComplexKey.Params
	params := []*schema.V{nil, schema.Base(parT), schema.Rich(parT)}
	for _, f := range parT.Fields {
		params = append(params, schema.Base(parT).With(f.Name, schema.Rich(f.Type)))
	}
	type item struct {
		v    *schema.V
		key  *schema.V
		ptr  reflect.Value
		desc string
	}
	var pool []item
	for _, k := range schema.Alphabet(ck.ComplexKey.Key, true) {
		if k.HasNaN() {
			continue
		}
		for pi, p := range params {
			v := &schema.V{T: ck, Fields: map[string]*schema.V{}}
			for n, fv := range k.Fields {
				v.Fields[n] = fv
			}
			if p != nil {
				v.Fields["$params"] = p
			}
			ptr, err := goValue(v)
			if err != nil {
				report.Internal("bridge: complex key: %v", err)
			}
			pool = append(pool, item{v, k, ptr, fmt.Sprintf("%s params#%d", leaf(k.Dev), pi)})
		}
	}
	s.States = int64(len(pool))
	call := func(p reflect.Value, name string, args ...reflect.Value) (out reflect.Value, err error) {
		defer func() {
			if r := recover(); r != nil {
				err = fmt.Errorf("%s panicked: %v", name, r)
			}
		}()
		m := p.MethodByName(name)
		if !m.IsValid() {
			return out, fmt.Errorf("%s has no %s", p.Type(), name)
		}
		return m.Call(args)[0], nil
	}
	for _, p := range pool {
		for _, q := range pool {
			s.Evaluations++
			s.Transitions++
			s.Traces++
			wantKey := schema.Equal(p.key, q.key)
			got, err := call(p.ptr, "ComplexKeyEquals", q.ptr)
			if err != nil {
				rep.Fail(fmt.Sprintf("%s eq complex-key panic", a.Gen), err.Error(), nil)
				continue
			}
			if got.Bool() != wantKey {
				rep.Fail(fmt.Sprintf("%s eq complex-key ComplexKeyEquals-wrong want=%v", a.Gen, wantKey), fmt.Sprintf("ComplexKeyEquals(%s, %s) = %v, the key parts are equal: %v", p.v, q.v, got.Bool(), wantKey), nil)
				s.Class("fail:key-equals")
				continue
			}
			hp, e1 := call(p.ptr, "ComputeComplexKeyHash")
			hq, e2 := call(q.ptr, "ComputeComplexKeyHash")
			if e1 != nil || e2 != nil {
				rep.Fail(fmt.Sprintf("%s eq complex-key hash-panic", a.Gen), fmt.Sprint(e1, e2), nil)
				continue
			}
			if wantKey && fmt.Sprint(hp.Interface()) != fmt.Sprint(hq.Interface()) {
				rep.Fail(fmt.Sprintf("%s eq complex-key equal-keys-different-key-hash", a.Gen), fmt.Sprintf("%s and %s are ComplexKeyEquals but ComputeComplexKeyHash gives %v and %v", p.v, q.v, hp.Interface(), hq.Interface()), nil)
				s.Class("fail:key-hash")
				continue
			}
			// the full value (key + $params)
			wantFull := schema.Equal(p.v, q.v)
			gotFull, err := callEquals(p.ptr, q.ptr)
			if err != nil {
				rep.Fail(fmt.Sprintf("%s eq complex-key panic", a.Gen), err.Error(), nil)
				continue
			}
			if gotFull != wantFull {
				rep.Fail(fmt.Sprintf("%s eq complex-key Equals-wrong want=%v", a.Gen, wantFull), fmt.Sprintf("Equals(%s, %s) = %v, structural equality (with $params) says %v", p.v, q.v, gotFull, wantFull), nil)
				s.Class("fail:full-equals")
				continue
			}
			if wantFull {
				h1, _ := callHash(p.ptr)
				h2, _ := callHash(q.ptr)
				if h1 != h2 {
					rep.Fail(fmt.Sprintf("%s eq complex-key equal-different-hash", a.Gen), fmt.Sprintf("%s and %s are Equal but hash to %s and %s", p.v, q.v, h1, h2), nil)
					continue
				}
			}
			s.Class(fmt.Sprintf("ok:key-equal=%v:full-equal=%v", wantKey, wantFull))
		}
	}
}

// bearsMap reports whether a value of t can hold a map.
func bearsMap(t *schema.Type, seen map[*schema.Type]bool) bool {
	if t == nil || seen[t] {
		return false
	}
	seen[t] = true
	switch t.Kind {
	case schema.Map:
		return true
	case schema.Array, schema.Typeref:
		return bearsMap(t.Elem, seen)
	case schema.Record:
		for _, f := range t.AllFields() {
			if bearsMap(f.Type, seen) {
				return true
			}
		}
	case schema.Union:
		for _, m := range t.Members {
			if bearsMap(m.Type, seen) {
				return true
			}
		}
	}
	return false
}

// hashPrimitives: every hash object the fnv1a package hands out is the caller's own: writing to one must not show in
// the next one (the 0-hash of nil records, unknown enum constants and empty records is handed out by ZeroHash).
func hashPrimitives(a *hcli.Args, rep *report.Report) {
	s := rep.S("hash-primitives")
	s.Bounds = "fnv1a.ZeroHash, NewHash and the Hash<Primitive> helpers: the value handed out, written to (every Add* method), handed out again: same initial state"
	if a.Shard != 0 {
		return
	}
	ctors := map[string]func() fnv1a.Hash{
		"ZeroHash":   fnv1a.ZeroHash,
		"NewHash":    fnv1a.NewHash,
		"HashInt32":  func() fnv1a.Hash { return fnv1a.HashInt32(7) },
		"HashString": func() fnv1a.Hash { return fnv1a.HashString("x") },
		"HashBytes":  func() fnv1a.Hash { return fnv1a.HashBytes([]byte{1, 2}) },
	}
	writes := map[string]func(h fnv1a.Hash){
		"AddInt32": func(h fnv1a.Hash) { h.AddInt32(5) }, "AddInt64": func(h fnv1a.Hash) { h.AddInt64(5) }, "AddString": func(h fnv1a.Hash) { h.AddString("y") },
		"AddBool": func(h fnv1a.Hash) { h.AddBool(true) }, "AddBytes": func(h fnv1a.Hash) { h.AddBytes([]byte{9}) }, "AddFloat64": func(h fnv1a.Hash) { h.AddFloat64(1.5) },
		"Add": func(h fnv1a.Hash) { h.Add(fnv1a.HashInt32(3)) },
	}
	for cn, ctor := range ctors {
		for wn, write := range writes {
			first := ctor()
			before := first.String()
			write(first)
			again := ctor().String()
			s.Evaluations++
			s.Transitions++
			s.Traces++
			s.States++
			if again != before {
				rep.Fail(fmt.Sprintf("%s eq hash-object-shared %s", a.Gen, cn), fmt.Sprintf("fnv1a.%s() was %s; after %s on the object it returned, the next fnv1a.%s() is %s", cn, before, wn, cn, again), nil)
				s.Class("fail:shared")
			} else {
				s.Class("ok:" + cn)
			}
		}
	}
}

func partC10(a *hcli.Args, rep *report.Report, univName string, u *schema.Universe) {
	complexKeys(a, rep, u)
	hashPrimitives(a, rep)
	s := rep.S("equals-hash-pairs")
	s.Bounds = fmt.Sprintf("universe=%s: per wrapper, pool = reduced deviation<=1 alphabet + copies + map insertion orders + nil/empty swaps + round-tripped copies; all ordered pairs", univName)
	digest := sha256.New()
	for wi, w := range u.Wrappers {
		// the first 6 wrappers and every wrapper holding a map are hashed by every shard: hashes must agree across
		// processes, each of which runs with its own Go map-iteration start (VERIF_MAPROT, runtime overlay)
		common := wi < 6 || bearsMap(w, map[*schema.Type]bool{})
		if !a.Mine(wi) && !common {
			continue
		}
		if a.Expired() {
			s.Exhaustive = false
			rep.Cap("C10: internal deadline")
			break
		}
		pool := buildPool(w)
		for _, p := range pool {
			h, err := callHash(p.ptr)
			if err != nil {
				rep.Fail(fmt.Sprintf("%s eq hash-panic %s", a.Gen, leaf(p.label)), fmt.Sprintf("type %s value %s: %v", w.Name, p.v, err), nil)
			}
			p.hash = h
			if common {
				fmt.Fprintf(digest, "%s|%s|%s\n", w.Name, p.v.String(), h)
			}
		}
		// purity: hashing everything once more, after all those hashes were handed out and written to, gives the same hashes
		for _, p := range pool {
			if h2, err := callHash(p.ptr); err == nil && h2 != p.hash {
				rep.Fail(fmt.Sprintf("%s eq hash-not-a-function-of-the-value %s", a.Gen, leaf(p.label)),
					fmt.Sprintf("type %s value %s: ComputeHash gave %s, and %s after the hashes handed out so far had been written to", w.Name, p.v, p.hash, h2), nil)
				s.Class("fail:hash-impure")
			}
		}
		if !a.Mine(wi) {
			continue
		}
		s.States += int64(len(pool))
		for i, p := range pool {
			for j, q := range pool {
				if !a.Thorough() && !p.base && !q.base {
					continue // quick: variants are paired with every alphabet value, not with each other
				}
				s.Evaluations++
				s.Transitions++
				if p.nan || q.nan {
					// NaN never equals itself: only totality is required of Equals here
					eq, err := callEquals(p.ptr, q.ptr)
					if err != nil {
						rep.Fail(fmt.Sprintf("%s eq equals-panic %s", a.Gen, leaf(p.label)), err.Error(), nil)
					}
					// ... and whatever Equals says, Equal values hash alike
					if err == nil && eq && p.hash != q.hash {
						rep.Fail(fmt.Sprintf("%s eq equal-but-hash-differs %s ~ %s", a.Gen, leaf(p.label), leaf(q.label)),
							fmt.Sprintf("type %s: Equals(%s, %s) = true but the hashes are %s and %s", w.Name, p.v, q.v, p.hash, q.hash),
							eqReplay{a.Gen, "C10", univName, w.Name, p.label, q.label})
					}
					s.Class("nan-pair")
					continue
				}
				want := schema.Equal(p.v, q.v)
				got, err := callEquals(p.ptr, q.ptr)
				if err != nil {
					rep.Fail(fmt.Sprintf("%s eq equals-panic %s", a.Gen, leaf(p.label)), err.Error(), eqReplay{a.Gen, "C10", univName, w.Name, p.label, q.label})
					continue
				}
				if got != want {
					kind := "equals-true-for-different"
					if want {
						kind = "equals-false-for-equal"
					}
					rep.Fail(fmt.Sprintf("%s eq %s %s ~ %s", a.Gen, kind, leaf(p.label), leaf(q.label)),
						fmt.Sprintf("type %s: Equals(%s, %s) = %v, structural equality says %v", w.Name, p.v, q.v, got, want),
						eqReplay{a.Gen, "C10", univName, w.Name, p.label, q.label})
					s.Class("fail:" + kind)
					continue
				}
				if i < j {
					back, _ := callEquals(q.ptr, p.ptr)
					if back != got {
						rep.Fail(fmt.Sprintf("%s eq asymmetric %s ~ %s", a.Gen, leaf(p.label), leaf(q.label)),
							fmt.Sprintf("type %s: Equals(%s, %s) = %v but the converse is %v", w.Name, p.v, q.v, got, back),
							eqReplay{a.Gen, "C10", univName, w.Name, p.label, q.label})
					}
				}
				if got && p.hash != q.hash {
					rep.Fail(fmt.Sprintf("%s eq equal-but-hash-differs %s ~ %s", a.Gen, leaf(p.label), leaf(q.label)),
						fmt.Sprintf("type %s: %s and %s are Equal but hash to %s and %s", w.Name, p.v, q.v, p.hash, q.hash),
						eqReplay{a.Gen, "C10", univName, w.Name, p.label, q.label})
					s.Class("fail:hash")
					continue
				}
				if got {
					s.Class("equal")
				} else if p.hash == q.hash {
					s.Class("different-same-hash")
				} else {
					s.Class("different")
				}
			}
		}
		s.Traces += int64(len(pool))
		if wi%11 == 0 && len(pool) > 3 {
			rep.Sample(map[string]interface{}{"type": w.Name, "pool_size": len(pool), "a": pool[1].v.String(), "b": pool[len(pool)/2].v.String(), "hash_a": pool[1].hash})
		}
	}
	rep.Extra["cmp:hash-digest-"+a.Gen] = fmt.Sprintf("%x", digest.Sum(nil))
}

func sortedKeys(m map[string]bool) []string {
	var ks []string
	for k := range m {
		ks = append(ks, k)
	}
	sort.Strings(ks)
	return ks
}
