package main

import (
	"fmt"
	"reflect"
	"strings"

	"github.com/PapaCharlie/go-restli/v2/restlicodec"

	"verif/mc/hcli"
	"verif/mc/ref/refjson"
	"verif/mc/ref/refror2"
	"verif/mc/report"
	"verif/mc/schema"
)

type defReplay struct {
	Gen     string   `json:"gen"`
	Part    string   `json:"part"`
	Univ    string   `json:"universe"`
	Wrapper string   `json:"wrapper"`
	Supply  []string `json:"supply"`
	Reader  string   `json:"reader"`
}

// defaultedPaths lists the paths (through required record fields) to defaulted fields of t.
func defaultedPaths(t *schema.Type, prefix []string, depth int) [][]string {
	var out [][]string
	for _, f := range t.AllFields() {
		p := append(append([]string{}, prefix...), f.Name)
		if f.Default != nil {
			out = append(out, p)
			continue
		}
		if !f.Optional && f.Type.Kind == schema.Record && depth > 0 {
			out = append(out, defaultedPaths(f.Type, p, depth-1)...)
		}
	}
	return out
}

func fieldAt(t *schema.Type, path []string) *schema.Field {
	f := t.Field(path[0])
	if len(path) == 1 {
		return f
	}
	return fieldAt(f.Type, path[1:])
}

func setAt(v *schema.V, path []string, x *schema.V) *schema.V {
	if len(path) == 1 {
		return v.With(path[0], x)
	}
	return v.With(path[0], setAt(v.Fields[path[0]], path[1:], x))
}

func getAt(v *schema.V, path []string) *schema.V {
	for _, p := range path {
		if v == nil {
			return nil
		}
		v = v.Fields[p]
	}
	return v
}

// nonDefaultValue picks a valid value of the field's type that differs from its default.
func nonDefaultValue(f *schema.Field) *schema.V {
	lit := refjson.Literal(f.Type, *f.Default)
	for _, c := range schema.Alphabet(f.Type, true) {
		if !schema.Equal(c, lit) && !c.HasNaN() {
			return c
		}
	}
	return schema.Base(f.Type)
}

// untyped converts v to the plain Go tree the untyped-value reader accepts.
func untyped(v *schema.V) interface{} {
	if v.Null {
		return nil // the untyped tree's null
	}
	switch v.T.Base().Kind {
	case schema.Int32:
		return int32(v.I)
	case schema.Int64:
		return v.I
	case schema.Float32:
		return float32(v.F)
	case schema.Float64:
		return v.F
	case schema.Bool:
		return v.B
	case schema.String:
		return v.S
	case schema.Bytes, schema.Fixed:
		return append([]byte{}, v.Y...)
	case schema.Enum:
		return v.Sym
	case schema.Record:
		m := map[string]interface{}{}
		for k, f := range v.Fields {
			m[k] = untyped(f)
		}
		return m
	case schema.Union:
		if v.Alias == "" {
			return map[string]interface{}{}
		}
		return map[string]interface{}{v.Alias: untyped(v.Mem)}
	case schema.Array:
		a := []interface{}{}
		for _, it := range v.Items {
			a = append(a, untyped(it))
		}
		return a
	case schema.Map:
		m := map[string]interface{}{}
		for k, e := range v.Ent {
			m[k] = untyped(e)
		}
		return m
	}
	return nil
}

var defReaders = []string{"json", "ror2", "untyped"}

func decodeWith(reader string, v *schema.V) (reflect.Value, error) {
	var dec reflect.Value
	err := safeCall(func() error {
		var r restlicodec.Reader
		var e error
		switch reader {
		case "json":
			r, e = restlicodec.NewJsonReader([]byte(refjson.Encode(v, nil)))
		case "ror2":
			r, e = restlicodec.NewRor2Reader(refror2.Encode(v, refror2.Header, nil))
		case "untyped":
			r = restlicodec.NewInterfaceReader(untyped(v))
		}
		if e != nil {
			return e
		}
		dec, e = decodeInto(v.T, r)
		return e
	})
	return dec, err
}

// mutateDeep changes every slice / map / byte string reachable from rv in place.
func mutateDeep(rv reflect.Value, depth int) {
	if depth > 6 {
		return
	}
	switch rv.Kind() {
	case reflect.Ptr:
		if !rv.IsNil() {
			mutateDeep(rv.Elem(), depth+1)
		}
	case reflect.Struct:
		for i := 0; i < rv.NumField(); i++ {
			if rv.Field(i).CanSet() {
				mutateDeep(rv.Field(i), depth+1)
			}
		}
	case reflect.Slice:
		for i := 0; i < rv.Len(); i++ {
			e := rv.Index(i)
			mutateDeep(e, depth+1)
			switch e.Kind() {
			case reflect.Uint8:
				e.SetUint(e.Uint() ^ 0x5a)
			case reflect.Int32, reflect.Int64:
				e.SetInt(e.Int() + 1000)
			case reflect.String:
				e.SetString(e.String() + "#mut")
			case reflect.Float32, reflect.Float64:
				e.SetFloat(e.Float() + 1000)
			}
		}
	case reflect.Map:
		for _, k := range rv.MapKeys() {
			e := rv.MapIndex(k)
			if e.Kind() == reflect.Ptr || e.Kind() == reflect.Map || e.Kind() == reflect.Slice {
				mutateDeep(e, depth+1)
			}
			rv.SetMapIndex(k, reflect.Value{}) // delete
		}
		if rv.Type().Key().Kind() == reflect.String && !rv.IsNil() {
			rv.SetMapIndex(reflect.ValueOf("#mut").Convert(rv.Type().Key()), reflect.Zero(rv.Type().Elem()))
		}
	case reflect.Array:
		for i := 0; i < rv.Len(); i++ {
			if rv.Index(i).Kind() == reflect.Uint8 && rv.Index(i).CanSet() {
				rv.Index(i).SetUint(rv.Index(i).Uint() ^ 0x5a)
			}
		}
	}
}

func checkDefaultCase(w *schema.Type, paths [][]string, supplied map[int]bool, reader string) (kind, field, detail string) {
	v := schema.Base(w)
	var names []string
	for i, p := range paths {
		if supplied[i] {
			v = setAt(v, p, nonDefaultValue(fieldAt(w, p)))
			names = append(names, strings.Join(p, "."))
		}
	}
	dec, err := decodeWith(reader, v)
	if err != nil {
		k := "decode-error"
		if isPanic(err) {
			k = "decode-panic"
		}
		if strings.Contains(err.Error(), "issing required") {
			k = "default-reported-missing"
		}
		return k, "", fmt.Sprintf("document supplying [%s]: %v", strings.Join(names, ","), err)
	}
	got, err := fromGo(dec, w)
	if err != nil {
		return "decode-shape", "", err.Error()
	}
	want := refjson.Fill(v)
	for i, p := range paths {
		g, wv := getAt(got, p), getAt(want, p)
		if !schema.EqualExact(g, wv) {
			k := "default-not-applied"
			if supplied[i] {
				k = "supplied-value-lost"
			}
			f := fieldAt(w, p)
			return k, fmt.Sprintf("%s %s default=%s", strings.Join(p, "."), f.Type, *f.Default),
				fmt.Sprintf("document supplying [%s]: field %s is %s, want %s", strings.Join(names, ","), strings.Join(p, "."), g, wv)
		}
	}
	if !schema.EqualExact(got, want) {
		return "altered", "", fmt.Sprintf("document supplying [%s]: decoded %s want %s", strings.Join(names, ","), got, want)
	}
	return "", "", ""
}

func partC13(a *hcli.Args, rep *report.Report, univName string, u *schema.Universe) {
	s := rep.S("defaults-decode")
	s.Bounds = fmt.Sprintf("universe=%s: per record every subset of its defaulted field positions (direct, nested, included) supplied / omitted x readers %v", univName, defReaders)
	sc := rep.S("defaults-constructor")
	sa := rep.S("defaults-aliasing")
	for wi, w := range u.Wrappers {
		if !a.Mine(wi) {
			continue
		}
		if a.Expired() {
			s.Exhaustive = false
			rep.Cap("C13: internal deadline")
			break
		}
		paths := defaultedPaths(w, nil, 2)
		if len(paths) == 0 {
			continue
		}
		if len(paths) > 12 {
			paths = paths[:12]
		}
		n := len(paths)
		for mask := 0; mask < 1<<uint(n); mask++ {
			supplied := map[int]bool{}
			var names []string
			for i := 0; i < n; i++ {
				if mask&(1<<uint(i)) != 0 {
					supplied[i] = true
					names = append(names, strings.Join(paths[i], "."))
				}
			}
			s.States++
			for _, rd := range defReaders {
				kind, field, detail := checkDefaultCase(w, paths, supplied, rd)
				s.Evaluations++
				s.Transitions++
				s.Traces++
				if kind != "" {
					rep.Fail(fmt.Sprintf("%s defaults %s %s %s %s", a.Gen, rd, kind, w.Name, field),
						fmt.Sprintf("record %s reader %s: %s", w.Name, rd, detail), defReplay{a.Gen, "C13", univName, w.Name, names, rd})
					s.Class("fail:" + kind)
				} else {
					s.Class("ok:" + rd)
				}
			}
		}
		// constructor
		sc.States++
		sc.Evaluations++
		sc.Transitions++
		sc.Traces++
		ownPaths := defaultedPaths(w, nil, 0)
		ctor := Ctor[w.Name]
		if ctor == nil {
			if len(ownPaths) > 0 {
				rep.Fail(fmt.Sprintf("%s defaults constructor missing %s", a.Gen, w.Name),
					fmt.Sprintf("record %s has defaulted fields %v but the generator emitted no New%sWithDefaultValues", w.Name, ownPaths, w.Name), nil)
				sc.Class("fail:no-constructor")
			}
		} else {
			inst := reflect.ValueOf(ctor())
			got, err := fromGo(inst, w)
			if err != nil {
				report.Internal("bridge: %v", err)
			}
			okAll := true
			for _, p := range paths {
				f := fieldAt(w, p)
				want := refjson.Literal(f.Type, *f.Default)
				if g := getAt(got, p); !schema.EqualExact(g, want) {
					rep.Fail(fmt.Sprintf("%s defaults constructor default-not-applied %s %s %s default=%s", a.Gen, w.Name, strings.Join(p, "."), f.Type, *f.Default),
						fmt.Sprintf("New%sWithDefaultValues(): field %s is %s, want %s", w.Name, strings.Join(p, "."), g, want), nil)
					okAll = false
				}
			}
			if okAll {
				sc.Class("ok")
			} else {
				sc.Class("fail")
			}
		}
		// aliasing: mutate one default-populated instance in place, the other must keep the literals
		makers := map[string]func() (reflect.Value, bool){
			"decode-json": func() (reflect.Value, bool) { d, err := decodeWith("json", schema.Base(w)); return d, err == nil },
			"decode-ror2": func() (reflect.Value, bool) { d, err := decodeWith("ror2", schema.Base(w)); return d, err == nil },
		}
		if ctor != nil {
			makers["constructor"] = func() (reflect.Value, bool) { return reflect.ValueOf(ctor()), true }
		}
		for an, am := range makers {
			for bn, bm := range makers {
				first, ok1 := am()
				second, ok2 := bm()
				if !ok1 || !ok2 {
					continue
				}
				sa.States++
				sa.Evaluations++
				sa.Transitions++
				sa.Traces++
				mutateDeep(first, 0)
				got, err := fromGo(second, w)
				if err != nil {
					report.Internal("bridge: %v", err)
				}
				bad := false
				for _, p := range paths {
					f := fieldAt(w, p)
					want := refjson.Literal(f.Type, *f.Default)
					if g := getAt(got, p); !schema.EqualExact(g, want) {
						rep.Fail(fmt.Sprintf("%s defaults aliasing %s %s %s", a.Gen, w.Name, strings.Join(p, "."), f.Type),
							fmt.Sprintf("record %s: after mutating the defaults of an instance from %s in place, field %s of an independent instance from %s reads %s, want %s",
								w.Name, an, strings.Join(p, "."), bn, g, want), nil)
						bad = true
					}
				}
				if bad {
					sa.Class("fail")
				} else {
					sa.Class("ok:" + an + "/" + bn)
				}
			}
		}
		if wi%13 == 0 {
			rep.Sample(map[string]interface{}{"record": w.Name, "defaulted_positions": paths, "omitting_all_decodes_to": refjson.Fill(schema.Base(w)).String()})
		}
	}
}
