package main

import "github.com/PapaCharlie/go-restli/v2/restlicodec"

const hasCustomTyperefs = false

func queryEncode(param string, m restlicodec.Marshaler) (string, error) {
	w := restlicodec.NewRestLiQueryParamsWriter()
	err := w.WriteParams(func(kw func(string) restlicodec.Writer) error {
		return m.MarshalRestLi(kw(param))
	})
	if err != nil {
		return "", err
	}
	return w.Finalize(), nil
}

func queryReadRecord(q restlicodec.QueryParamsReader, required []string, f restlicodec.MapReader) error {
	return q.ReadRecord(restlicodec.RequiredFields(required), f)
}

func readRec(r restlicodec.Reader, required []string, f restlicodec.MapReader) error {
	return r.ReadRecord(restlicodec.RequiredFields(required), f)
}
